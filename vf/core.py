"""Run context shared by every property check.

A property module (vf/props/cNN.py) exposes

    META = dict(level=..., text=..., note=..., technique=..., design_ref=...,
                rule=..., assumptions=[...])
    def shards(tier) -> int                      # optional, default 1
    TIMEOUT = {"quick": s, "thorough": s}        # optional, per shard
    def run(ctx) -> None                         # the workload + monitors

and talks to the framework only through `Ctx`.  Verdicts are three-valued:
a violation (with a mechanism signature), held, or inconclusive.
"""
import hashlib
import json
import os
import random
import time
import traceback

HOME = os.environ.get("VF_HOME") or os.path.dirname(
    os.path.dirname(os.path.abspath(__file__))
)
TREE = os.environ.get("VF_TREE", "/repo")


def _h(x):
    if not isinstance(x, (bytes, bytearray)):
        x = repr(x).encode("utf-8", "replace")
    return hashlib.blake2b(x, digest_size=8).hexdigest()


def jsonable(x, depth=0):
    """Best-effort conversion of a witness/sample into JSON-safe data."""
    if depth > 6:
        return repr(x)[:200]
    if x is None or isinstance(x, (bool, int, float)):
        return x
    if isinstance(x, str):
        return x if len(x) <= 2000 else x[:2000] + "...(%d)" % len(x)
    if isinstance(x, (bytes, bytearray)):
        hx = bytes(x).hex()
        return "hex:" + (hx if len(hx) <= 512 else hx[:512] + "...(%dB)" % len(x))
    if isinstance(x, dict):
        return {str(k): jsonable(v, depth + 1) for k, v in list(x.items())[:200]}
    if isinstance(x, (list, tuple, set, frozenset)):
        seq = list(x)
        out = [jsonable(v, depth + 1) for v in seq[:200]]
        if len(seq) > 200:
            out.append("...(%d items)" % len(seq))
        return out
    return repr(x)[:500]


class Ctx:
    MAX_SAMPLES = 4

    def __init__(self, prop, tier, seed, shard=0, nshards=1, replay=None):
        self.prop = prop
        self.tier = tier
        self.quick = tier != "thorough"
        self.seed = seed
        self.shard = shard
        self.nshards = nshards
        self.replay = replay
        self.rng = random.Random((seed * 1000003 + shard * 7919 + 17) & 0xFFFFFFFF)
        self.t0 = time.time()
        self.evaluations = 0
        self.distinct = set()
        self.samples = []
        self.counters = {}
        self.violations = {}  # signature -> dict(what, witness, count)
        self.inconclusives = []
        self.requirements = {}  # counter -> minimum (judged after merge)
        self.notes = {}
        self._out = None
        self._last_dump = time.time()

    def autodump(self, path):
        """Partial results survive a shard that is killed by its watchdog."""
        self._out = path

    def _maybe_dump(self):
        if self._out and time.time() - self._last_dump > 4:
            self._last_dump = time.time()
            self.dump(self._out, partial=True)

    # -- budget -----------------------------------------------------------
    def pick(self, quick, thorough):
        return quick if self.quick else thorough

    def deadline(self, quick, thorough):
        return self.t0 + (quick if self.quick else thorough)

    def elapsed(self):
        return time.time() - self.t0

    def mine(self, index):
        """Static partition of an enumerated space over shards."""
        return index % self.nshards == self.shard

    # -- observation ------------------------------------------------------
    def case(self, fingerprint, sample=None, nontrivial=True):
        self.evaluations += 1
        if nontrivial:
            self.distinct.add(_h(fingerprint))
        if sample is not None and len(self.samples) < self.MAX_SAMPLES:
            self.samples.append(jsonable(sample))
        self._maybe_dump()

    def count(self, name, n=1):
        self.counters[name] = self.counters.get(name, 0) + n

    def note(self, key, value):
        self.notes[key] = jsonable(value)

    def require(self, counter, minimum):
        self.requirements[counter] = max(self.requirements.get(counter, 0), minimum)

    def violation(self, signature, what, witness=None):
        v = self.violations.get(signature)
        if v is None:
            self.violations[signature] = dict(
                what=what, witness=jsonable(witness), count=1
            )
        else:
            v["count"] += 1
        self._maybe_dump()

    def inconclusive(self, reason):
        if len(self.inconclusives) < 50:
            self.inconclusives.append(str(reason)[:500])
        self.count("inconclusive")

    def guard(self, fn, *a, **kw):
        """Run harness code; a harness exception is inconclusive, not a verdict."""
        try:
            return fn(*a, **kw)
        except Exception:
            self.inconclusive("harness error: " + traceback.format_exc()[-800:])
            return None

    # -- shard output -----------------------------------------------------
    def dump(self, path, partial=False):
        data = dict(
            shard=self.shard,
            partial=partial,
            evaluations=self.evaluations,
            distinct=sorted(self.distinct),
            samples=self.samples,
            counters=self.counters,
            violations=self.violations,
            inconclusives=self.inconclusives,
            requirements=self.requirements,
            notes=self.notes,
            wall_s=round(self.elapsed(), 3),
        )
        tmp = path + ".tmp"
        with open(tmp, "w") as f:
            json.dump(data, f)
        os.replace(tmp, path)


def exc_signature(exc, tree=None):
    """`ExcType@module.function` of the innermost frame inside paramiko/ (plus
    the callee name when the raise happened below it, in third-party code)."""
    tree = tree or TREE
    tb = exc.__traceback__
    frames = traceback.extract_tb(tb) if tb is not None else []
    inner = None
    below = None
    root = os.path.join(tree, "paramiko") + os.sep
    for i, fr in enumerate(frames):
        if fr.filename.startswith(root):
            inner = fr
            below = frames[i + 1] if i + 1 < len(frames) else None
    name = type(exc).__name__
    if inner is None:
        return "%s@<outside paramiko>" % name
    mod = os.path.basename(inner.filename)[:-3]
    sig = "%s@%s.%s" % (name, mod, inner.name)
    if below is not None:
        sig += "->" + below.name
    return sig


def load_known():
    p = os.path.join(HOME, "known_findings.json")
    if not os.path.exists(p):
        return []
    with open(p) as f:
        return json.load(f).get("findings", [])
