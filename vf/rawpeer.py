"""A minimal hand-written SSH peer for the *unencrypted* part of a session.

It speaks just enough of RFC 4253 by hand over `vf.net.Link` to put arbitrary
bytes in front of an unmodified victim `Transport` before NEWKEYS: the banner
lines, the binary packet framing, KEXINIT, and the key-exchange messages of
every kex family paramiko implements.  Nothing of paramiko's packetizer or
kex engines is used on this side, so every field of every message can be
malformed.

Everything the victim parses before NEWKEYS depends only on bytes we choose
(the client verifies our signature only *after* having parsed the whole
reply), so a session is a byte script: `RawPeer.play(chunks)` writes it, then
half-closes the direction towards the victim (FIN: the victim reads the
script to its end, then sees EOF).  The victim's own output is collected from
the link log and can be decoded with `victim_packets()`.
"""
import os
import struct

from cryptography.hazmat.primitives import serialization
from cryptography.hazmat.primitives.asymmetric import ec
from cryptography.hazmat.primitives.asymmetric.x25519 import X25519PrivateKey

from vf import keys
from vf.sshgrammar import F, T

BANNER = b"SSH-2.0-vfraw_1.0"

# diffie-hellman-group14 prime (RFC 3526), used as the "server-chosen" gex group
P14 = int(
    "FFFFFFFFFFFFFFFFC90FDAA22168C234C4C6628B80DC1CD129024E088A67CC74020BBEA63B139B22514A08798E3404DD"
    "EF9519B3CD3A431B302B0A6DF25F14374FE1356D6D51C245E485B576625E7EC6F44C42E9A637ED6B0BFF5CB6F406B7ED"
    "EE386BFB5A899FA5AE9F24117C4B1FE649286651ECE45B3DC2007CB8A163BF0598DA48361C55D39A69163FA8FD24CF5F"
    "83655D23DCA3AD961C62F356208552BB9ED529077096966D670C354E4ABC9804F1746C08CA18217C32905E462E36CE3B"
    "E39E772C180E86039B2783A2EC07A28FB5C55DF06F4C52C9DE2BCBF6955817183995497CEA956AE515D2261898FA0510"
    "15728E5A8AACAA68FFFFFFFFFFFFFFFF",
    16,
)

KEX_FAMILY = {
    "curve25519-sha256@libssh.org": "c25519",
    "ecdh-sha2-nistp256": "ecdh256",
    "ecdh-sha2-nistp384": "ecdh384",
    "ecdh-sha2-nistp521": "ecdh521",
    "diffie-hellman-group1-sha1": "dh",
    "diffie-hellman-group14-sha1": "dh",
    "diffie-hellman-group14-sha256": "dh",
    "diffie-hellman-group16-sha512": "dh",
    "diffie-hellman-group-exchange-sha1": "gex",
    "diffie-hellman-group-exchange-sha256": "gex",
}
CURVES = {"ecdh256": ec.SECP256R1, "ecdh384": ec.SECP384R1, "ecdh521": ec.SECP521R1}

CIPHERS = ("aes128-ctr", "aes192-ctr", "aes256-ctr", "aes128-cbc", "aes192-cbc", "aes256-cbc", "3des-cbc",
           "aes128-gcm@openssh.com", "aes256-gcm@openssh.com")
MACS = ("hmac-sha2-256", "hmac-sha2-512", "hmac-sha2-256-etm@openssh.com", "hmac-sha2-512-etm@openssh.com",
        "hmac-sha1", "hmac-md5", "hmac-sha1-96", "hmac-md5-96")


def public_point(family):
    """A valid ephemeral public value for the kex family, as the peer would send it."""
    if family == "c25519":
        return X25519PrivateKey.generate().public_key().public_bytes(
            serialization.Encoding.Raw, serialization.PublicFormat.Raw)
    if family in CURVES:
        return ec.generate_private_key(CURVES[family]()).public_key().public_bytes(
            serialization.Encoding.X962, serialization.PublicFormat.UncompressedPoint)
    raise ValueError(family)


def kexinit_template(role, kex, hostkey_alg, cipher="aes128-ctr", mac="hmac-sha2-256", comp="none",
                     strict=False, ext_info=False):
    """KEXINIT as sent by a `role` ('client'|'server') peer."""
    kexl = [kex]
    if ext_info and role == "client":
        kexl.append("ext-info-c")
    if strict:
        kexl.append("kex-strict-%s-v00@openssh.com" % ("c" if role == "client" else "s"))
    return T("kexinit", 20, [
        F("cookie", "raw", os.urandom(16)),
        F("kex", "list", kexl),
        F("hostkey", "list", [hostkey_alg]),
        F("enc_c2s", "list", [cipher]),
        F("enc_s2c", "list", [cipher]),
        F("mac_c2s", "list", [mac]),
        F("mac_s2c", "list", [mac]),
        F("comp_c2s", "list", [comp]),
        F("comp_s2c", "list", [comp]),
        F("lang_c2s", "list", []),
        F("lang_s2c", "list", []),
        F("follows", "bool", False),
        F("reserved", "u32", 0),
    ])


def host_key_blob(alg):
    return keys.hostkey_for(alg).asbytes()


def sig_blob(alg):
    """A well-formed signature blob by the real host key over *other* data: the
    victim parses it completely, then rejects it (SSHException)."""
    return keys.hostkey_for(alg).sign_ssh_data(b"not the exchange hash", alg).asbytes()


def kex_server_templates(kex, hostkey_alg):
    """What a *server* sends during `kex` (the client victim parses these)."""
    fam = KEX_FAMILY[kex]
    hk, sg = host_key_blob(hostkey_alg), sig_blob(hostkey_alg)
    if fam == "dh":
        return [T("kexdh-reply", 31, [F("hostkey", "str", hk), F("f", "mpint", 0x1234567 << 900),
                                       F("sig", "str", sg)])]
    if fam == "gex":
        return [
            T("kex-gex-group", 31, [F("p", "mpint", P14), F("g", "mpint", 2)]),
            T("kex-gex-reply", 33, [F("hostkey", "str", hk), F("f", "mpint", 0x1234567 << 900), F("sig", "str", sg)]),
        ]
    return [T("kexecdh-reply", 31, [F("hostkey", "str", hk), F("q_s", "str", public_point(fam)),
                                     F("sig", "str", sg)])]


def kex_client_templates(kex, old_gex=False):
    """What a *client* sends during `kex` (the server victim parses these)."""
    fam = KEX_FAMILY[kex]
    if fam == "dh":
        return [T("kexdh-init", 30, [F("e", "mpint", 0x1234567 << 900)])]
    if fam == "gex":
        first = (T("kex-gex-request-old", 30, [F("n", "u32", 2048)]) if old_gex else
                 T("kex-gex-request", 34, [F("min", "u32", 1024), F("n", "u32", 2048), F("max", "u32", 8192)]))
        return [first, T("kex-gex-init", 32, [F("e", "mpint", 0x1234567 << 900)])]
    return [T("kexecdh-init", 30, [F("q_c", "str", public_point(fam))])]


def modulus_pack():
    """A ModulusPack holding one known safe prime, so a server victim offers gex."""
    from paramiko.primes import ModulusPack

    mp = ModulusPack()
    mp.pack = {2048: [(2, P14)]}
    return mp


class RawPeer:
    """One end of a Link, written to by hand."""

    def __init__(self, link, side):
        self.link = link
        self.side = side  # "a": we are the client end; "b": the server end
        self.ep = link.a if side == "a" else link.b
        self.to_victim = link.ab if side == "a" else link.ba
        self.from_victim = link.ba if side == "a" else link.ab
        self.sent = []

    def write(self, data):
        if data:
            self.sent.append(bytes(data))
            self.to_victim.inject(data)

    def play(self, chunks):
        for c in chunks:
            self.write(c)
        self.finish()

    def finish(self):
        """FIN towards the victim only: it reads everything we wrote, then EOF."""
        self.link.eof(self.to_victim.name)

    def victim_bytes(self):
        return b"".join(self.from_victim.log)

    def victim_packets(self, limit=20):
        """Decode the victim's plaintext output: (banner, [payload, ...])."""
        raw = self.victim_bytes()
        nl = raw.find(b"\n")
        if nl < 0:
            return raw, []
        banner, rest = raw[:nl].rstrip(b"\r"), raw[nl + 1:]
        out = []
        while len(rest) >= 5 and len(out) < limit:
            (ln,) = struct.unpack(">I", rest[:4])
            if ln < 1 or ln > len(rest) - 4:
                break
            pad = rest[4]
            out.append(rest[5:4 + ln - pad])
            rest = rest[4 + ln:]
            if out[-1][:1] == b"\x15":  # NEWKEYS: ciphertext follows
                break
        return banner, out
