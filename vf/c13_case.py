"""C13 child side: one case = one blocking API call x one way of losing the
connection x one timing, run against a fresh client/server pair of real
Transports inside its own process (vf.iso.call), judged by the hang rule of
DESIGN 2.4 and reported as a structured result.

    args = dict(call=, loss=, variant=, timing="before"|"during"|"after",
                medium="link"|"proxy"|"tcp", role="client"|"server",
                tmo=None|float, k=None|int, f=None|float, seed=int, window=float)

The *victim* transport V is an unmodified paramiko Transport (client or server
role; ServiceRequestingTransport for the srt_* calls).  The *peer* P is a real
Transport too; the only liberty taken with it is a read hook (the WireTap's
on_read) that parks P's reader thread when it decodes the victim's request, so
that the request stays unanswered ("the peer application is slow") until the
connection is lost.

Verdict of a case (never from wall-clock alone):
  ok            every call returned or raised and V.is_active() is False
  blocked       V inactive, a call still not back, and for >= window seconds:
                its paramiko stack unchanged over all samples, the link drained
                and silent, V's and P's threads finished or parked
  still_active  same quiescence, but V.is_active() is still True after the loss
  unsettled     the watchdog fired without that quiescence (-> inconclusive)
  premature     the call came back before the loss was injected
"""
import errno
import fcntl
import logging
import os
import random
import signal
import socket
import struct
import sys
import termios
import threading
import time
import traceback

import paramiko
from paramiko.message import Message

from vf import keys, net, tap

logging.getLogger("paramiko").addHandler(logging.NullHandler())
logging.getLogger("paramiko").propagate = False

PARAMIKO_ROOT = os.path.dirname(os.path.abspath(paramiko.__file__)) + os.sep
VF_ROOT = os.path.dirname(os.path.abspath(__file__)) + os.sep
RELAY = os.path.join(os.path.dirname(os.path.abspath(__file__)), "c13_relay.py")

MSG_DISCONNECT, MSG_IGNORE, MSG_SERVICE_REQUEST = 1, 2, 5
MSG_KEXINIT, MSG_USERAUTH_REQUEST, MSG_GLOBAL_REQUEST = 20, 50, 80
MSG_CHANNEL_OPEN, MSG_CHANNEL_DATA, MSG_CHANNEL_REQUEST = 90, 94, 98

WINDOW_BYTES = 32768  # smallest window paramiko accepts; lets send() exhaust it cheaply


# --------------------------------------------------------------------------
# peer-side helpers


class Endpoint(net.Endpoint):
    """net.Endpoint + the `_closed` attribute `Transport.stop_thread` reads
    from its socket (sockets and ProxyCommand have it)."""

    fail_send = False  # switch: the send direction is broken (EPIPE) while inbound data is still queued

    @property
    def _closed(self):
        return self.closed

    recv_exc = None  # callable -> exception to raise from recv (None from the callable = EOF from now on)

    def send(self, data):
        if self.fail_send:
            raise (self.fail_send() if callable(self.fail_send) else OSError(errno.EPIPE, "Broken pipe"))
        return super().send(data)

    def recv(self, n):
        f = self.recv_exc
        if f is not None:
            e = f()
            if e is None:
                return b""
            raise e
        return super().recv(n)


class LinkDown(OSError):
    """An application-defined socket error (socket-like objects may raise their own OSError subclasses)."""


def shape_factory(shape):
    """Shapes of the exception a socket-like object may raise when the connection is gone."""
    if shape == "errno2":
        return lambda: OSError(errno.ECONNRESET, "Connection reset by peer")
    if shape == "one_arg":
        return lambda: OSError("boom")
    if shape == "no_args":
        return lambda: OSError()
    if shape == "reset_noargs":
        return lambda: ConnectionResetError()
    if shape == "custom_one_arg":
        return lambda: LinkDown("link down")
    if shape == "two_str":
        return lambda: OSError("down", "really")
    if shape == "timeout_errno":
        # the kernel's ETIMEDOUT surfaces as TimeoutError (== socket.timeout); afterwards the socket reads EOF
        state = {"n": 0}

        def f():
            state["n"] += 1
            return TimeoutError(errno.ETIMEDOUT, "Connection timed out") if state["n"] == 1 else None

        return f
    raise ValueError(shape)


SHAPES_RECV = ("errno2", "one_arg", "no_args", "reset_noargs", "custom_one_arg", "two_str", "timeout_errno")
SHAPES_SEND = ("errno2", "one_arg", "no_args", "reset_noargs", "custom_one_arg", "two_str")


class Stall:
    """Parks the peer's reader thread when it decodes one of `types` (armed)."""

    def __init__(self):
        self.types = ()
        self.armed = False
        self.hit = threading.Event()
        self.go = threading.Event()

    def on_read(self, tapobj, ptype, m):
        if self.armed and ptype in self.types and not self.go.is_set():
            self.hit.set()
            self.go.wait()


class CountingSock:
    """The peer's end of a real TCP connection, with byte counters and a
    one-shot 'flip a bit in the next packet' switch (protocol garbage)."""

    def __init__(self, s):
        self.s = s
        self.sent = 0
        self.rcvd = 0
        self.corrupt = False
        self.is_closed = False

    def send(self, data):
        if self.corrupt and len(data) > 8:
            self.corrupt = False
            data = data[:-1] + bytes([data[-1] ^ 1])
        n = self.s.send(data)
        self.sent += n
        return n

    def recv(self, n):
        d = self.s.recv(n)
        self.rcvd += len(d)
        return d

    def settimeout(self, t):
        self.s.settimeout(t)

    def gettimeout(self):
        return self.s.gettimeout()

    def getpeername(self):
        return self.s.getpeername()

    def close(self):
        self.is_closed = True
        self.s.close()

    def reset(self):
        """Abrupt loss: RST instead of FIN."""
        self.is_closed = True
        try:
            self.s.setsockopt(socket.SOL_SOCKET, socket.SO_LINGER, struct.pack("ii", 1, 0))
        except OSError:
            pass
        self.s.close()

    @property
    def _closed(self):
        return self.is_closed


class Server(paramiko.ServerInterface):
    def get_allowed_auths(self, username):
        return "password,publickey,keyboard-interactive"

    def check_auth_none(self, username):
        return paramiko.AUTH_FAILED

    def check_auth_password(self, username, password):
        return paramiko.AUTH_SUCCESSFUL if (username, password) == ("u", "pw") else paramiko.AUTH_FAILED

    def check_auth_publickey(self, username, key):
        return paramiko.AUTH_SUCCESSFUL

    def check_auth_interactive(self, username, submethods):
        return paramiko.AUTH_FAILED

    def check_channel_request(self, kind, chanid):
        return paramiko.OPEN_SUCCEEDED

    def check_channel_direct_tcpip_request(self, chanid, origin, destination):
        return paramiko.OPEN_SUCCEEDED

    def check_channel_pty_request(self, *a):
        return True

    def check_channel_shell_request(self, channel):
        return True

    def check_channel_exec_request(self, channel, command):
        return True

    def check_channel_env_request(self, channel, name, value):
        return True

    def check_channel_x11_request(self, *a):
        return True

    def check_channel_forward_agent_request(self, channel):
        return True

    def check_port_forward_request(self, address, port):
        return 4022

    def check_global_request(self, kind, msg):
        return False


# --------------------------------------------------------------------------
# the calls under test


def _settmo(w):
    if w.tmo is not None:
        w.vchan.settimeout(w.tmo)


def c_recv(w):
    _settmo(w)
    return w.vchan.recv(100)


def c_recv_stderr(w):
    _settmo(w)
    return w.vchan.recv_stderr(100)


def c_send(w):
    _settmo(w)
    return w.vchan.send(b"s" * 100)


def c_sendall(w):
    _settmo(w)
    return w.vchan.sendall(b"a" * 5000)


def c_exec(w):
    return w.vchan.exec_command("true")


def c_shell(w):
    return w.vchan.invoke_shell()


def c_pty(w):
    return w.vchan.get_pty()


def c_subsystem(w):
    return w.vchan.invoke_subsystem("sftp")


def c_x11(w):
    return w.vchan.request_x11(auth_cookie="00" * 16, handler=lambda *a: None)


def c_file_read(w):
    return w.vchan.makefile("rb").read(10)


def c_exit_status(w):
    return w.vchan.recv_exit_status()


def c_open_session(w):
    return w.V.open_session(timeout=w.tmo)


def c_open_channel(w):
    if w.role == "client":
        return w.V.open_channel("direct-tcpip", ("127.0.0.1", 80), ("127.0.0.1", 4000), timeout=w.tmo)
    return w.V.open_channel("forwarded-tcpip", ("127.0.0.1", 80), ("127.0.0.1", 4000), timeout=w.tmo)


def c_auth_none(w):
    return w.V.auth_none("u")


def c_auth_password(w):
    return w.V.auth_password("u", "pw")


def c_auth_publickey(w):
    return w.V.auth_publickey("u", keys.ecdsa())


def c_auth_interactive(w):
    return w.V.auth_interactive("u", lambda title, instr, prompts: ["pw"] * len(prompts))


def c_accept(w):
    return w.V.accept(w.tmo)


def c_global_request(w):
    return w.V.global_request("probe@vf", wait=True)


def c_port_forward(w):
    return w.V.request_port_forward("127.0.0.1", 4022)


def c_renegotiate(w):
    return w.V.renegotiate_keys()


def c_sftp_stat(w):
    return w.sftp.stat("/nowhere")


def c_sftp_listdir(w):
    return w.sftp.listdir("/")


def c_open_sftp(w):
    return w.V.open_sftp_client()


# name -> spec.  need: state reached before the call; stall: message types on
# which the peer parks (so the call has something to wait for); api: the name
# used in signatures; tmo: True when the API takes/obeys a timeout.
CALLS = {
    "recv": dict(fn=c_recv, need="chan", stall=(), api="Channel.recv", roles=("client", "server"), tmo=True),
    "recv_stderr": dict(fn=c_recv_stderr, need="chan", stall=(), api="Channel.recv_stderr", roles=("client",), tmo=True),
    "file_read": dict(fn=c_file_read, need="chan", stall=(), api="ChannelFile.read", roles=("client",)),
    "send": dict(fn=c_send, need="chanfull", stall=(), api="Channel.send", roles=("client", "server"), tmo=True),
    "sendall": dict(fn=c_sendall, need="chanfull", stall=(), api="Channel.sendall", roles=("client", "server"), tmo=True),
    "exec_command": dict(fn=c_exec, need="chan", stall=(MSG_CHANNEL_REQUEST,), api="Channel.exec_command", roles=("client",)),
    "invoke_shell": dict(fn=c_shell, need="chan", stall=(MSG_CHANNEL_REQUEST,), api="Channel.invoke_shell", roles=("client",)),
    "get_pty": dict(fn=c_pty, need="chan", stall=(MSG_CHANNEL_REQUEST,), api="Channel.get_pty", roles=("client",)),
    "invoke_subsystem": dict(fn=c_subsystem, need="chan", stall=(MSG_CHANNEL_REQUEST,), api="Channel.invoke_subsystem", roles=("client",)),
    "request_x11": dict(fn=c_x11, need="chan", stall=(MSG_CHANNEL_REQUEST,), api="Channel.request_x11", roles=("client",)),
    "recv_exit_status": dict(fn=c_exit_status, need="chan", stall=(), api="Channel.recv_exit_status", roles=("client",)),
    "open_session": dict(fn=c_open_session, need="auth", stall=(MSG_CHANNEL_OPEN,), api="Transport.open_session", roles=("client",), tmo=True),
    "open_channel": dict(fn=c_open_channel, need="auth", stall=(MSG_CHANNEL_OPEN,), api="Transport.open_channel", roles=("client", "server"), tmo=True),
    "auth_none": dict(fn=c_auth_none, need="kex", stall=(MSG_USERAUTH_REQUEST,), api="Transport.auth_none", roles=("client",), auth=True),
    "auth_password": dict(fn=c_auth_password, need="kex", stall=(MSG_USERAUTH_REQUEST,), api="Transport.auth_password", roles=("client",), auth=True, tmo=True),
    "auth_publickey": dict(fn=c_auth_publickey, need="kex", stall=(MSG_USERAUTH_REQUEST,), api="Transport.auth_publickey", roles=("client",), auth=True),
    "auth_interactive": dict(fn=c_auth_interactive, need="kex", stall=(MSG_USERAUTH_REQUEST,), api="Transport.auth_interactive", roles=("client",), auth=True),
    "auth_password_svc": dict(fn=c_auth_password, need="kex", stall=(MSG_SERVICE_REQUEST,), api="Transport.auth_password", roles=("client",), auth=True),
    "srt_auth_password": dict(fn=c_auth_password, need="kex", stall=(MSG_USERAUTH_REQUEST,), api="ServiceRequestingTransport.auth_password", roles=("client",), srt=True, auth=True, tmo=True),
    "srt_auth_publickey": dict(fn=c_auth_publickey, need="kex", stall=(MSG_USERAUTH_REQUEST,), api="ServiceRequestingTransport.auth_publickey", roles=("client",), srt=True, auth=True),
    "srt_auth_interactive": dict(fn=c_auth_interactive, need="kex", stall=(MSG_USERAUTH_REQUEST,), api="ServiceRequestingTransport.auth_interactive", roles=("client",), srt=True, auth=True),
    "srt_auth_none_svc": dict(fn=c_auth_none, need="kex", stall=(MSG_SERVICE_REQUEST,), api="ServiceRequestingTransport.auth_none", roles=("client",), srt=True, auth=True),
    "srt_auth_password_svc": dict(fn=c_auth_password, need="kex", stall=(MSG_SERVICE_REQUEST,), api="ServiceRequestingTransport.auth_password", roles=("client",), srt=True, auth=True),
    "srt_auth_publickey_svc": dict(fn=c_auth_publickey, need="kex", stall=(MSG_SERVICE_REQUEST,), api="ServiceRequestingTransport.auth_publickey", roles=("client",), srt=True, auth=True),
    "srt_auth_interactive_svc": dict(fn=c_auth_interactive, need="kex", stall=(MSG_SERVICE_REQUEST,), api="ServiceRequestingTransport.auth_interactive", roles=("client",), srt=True, auth=True),
    "accept": dict(fn=c_accept, need="auth", stall=(), api="Transport.accept", roles=("server", "client"), tmo=True),
    "accept_x2": dict(fn=c_accept, need="auth", stall=(), api="Transport.accept", roles=("server", "client"), ncallers=2),
    "global_request": dict(fn=c_global_request, need="auth", stall=(MSG_GLOBAL_REQUEST,), api="Transport.global_request", roles=("client", "server")),
    "request_port_forward": dict(fn=c_port_forward, need="auth", stall=(MSG_GLOBAL_REQUEST,), api="Transport.request_port_forward", roles=("client",)),
    "renegotiate_keys": dict(fn=c_renegotiate, need="auth", stall=(MSG_KEXINIT,), api="Transport.renegotiate_keys", roles=("client", "server")),
    "sftp_stat": dict(fn=c_sftp_stat, need="sftp", stall=(MSG_CHANNEL_DATA,), api="SFTPClient.stat", roles=("client",)),
    "sftp_listdir": dict(fn=c_sftp_listdir, need="sftp", stall=(MSG_CHANNEL_DATA,), api="SFTPClient.listdir", roles=("client",)),
    "open_sftp_client": dict(fn=c_open_sftp, need="auth", stall=(MSG_CHANNEL_REQUEST,), api="Transport.open_sftp_client", roles=("client",)),
}


def api_name(call, tmo):
    spec = CALLS[call]
    name = spec["api"]
    if call.startswith("accept"):
        name += "(None)" if tmo is None else "(timeout)"
    if spec.get("ncallers", 1) > 1:
        name += " x%d waiters" % spec["ncallers"]
    if call.endswith("_svc"):
        name += " [awaiting SERVICE_ACCEPT]"
    return name


# --------------------------------------------------------------------------
# the world: victim + peer over a medium


class World:
    def __init__(self, a, rng):
        self.a = a
        self.rng = rng
        self.call = a["call"]
        self.spec = CALLS[self.call]
        self.medium = a.get("medium", "link")
        self.role = a.get("role", "client")
        self.tmo = a.get("tmo")
        self.loss = a.get("loss")
        self.variant = a.get("variant")
        self.link = None
        self.pc = None
        self.ssock = None
        self.stall = Stall()
        self.rec = tap.Recorder()
        self.vchan = self.pchan = self.sftp = None
        self.relay_pid = None
        self.writer = None
        self.pre_seen = None
        self.vchan2 = self.pchan2 = None

    # -- construction -----------------------------------------------------
    def build(self):
        ctap_read = self.stall.on_read if self.role == "server" else None
        stap_read = self.stall.on_read if self.role == "client" else None
        ctap = tap.make_tap(self.rec, "c", None, ctap_read)
        stap = tap.make_tap(self.rec, "s", None, stap_read)
        if self.medium == "link":
            self.link = net.Link(self.rng)
            self.link.a.__class__ = Endpoint
            self.link.b.__class__ = Endpoint
            csock, ssock = self.link.a, self.link.b
        else:
            lst = socket.socket()
            lst.setsockopt(socket.SOL_SOCKET, socket.SO_REUSEADDR, 1)
            lst.bind(("127.0.0.1", 0))
            lst.listen(1)
            port = lst.getsockname()[1]
            if self.medium == "proxy":
                self.pc = paramiko.ProxyCommand("%s -S -E %s %d" % (sys.executable, RELAY, port))
                self.relay_pid = self.pc.process.pid
                csock = self.pc
            else:
                csock = socket.create_connection(("127.0.0.1", port))
                csock.setsockopt(socket.IPPROTO_TCP, socket.TCP_NODELAY, 1)
            lst.settimeout(60)
            conn, _ = lst.accept()
            lst.close()
            conn.setsockopt(socket.IPPROTO_TCP, socket.TCP_NODELAY, 1)
            ssock = self.ssock = CountingSock(conn)
        ccls = paramiko.ServiceRequestingTransport if self.spec.get("srt") else paramiko.Transport
        self.tc = ccls(csock, packetizer_class=ctap, default_window_size=WINDOW_BYTES)
        self.ts = paramiko.Transport(ssock, packetizer_class=stap, default_window_size=WINDOW_BYTES)
        self.ts.add_server_key(keys.ed25519())
        self.ts.set_subsystem_handler("sftp", paramiko.SFTPServer, paramiko.SFTPServerInterface)
        # the auth_* calls must end because the connection ended, not because
        # the 30 s auth timer fired: no auth timer unless the case asks for one
        self.tc.auth_timeout = None
        # the box is shared: the library's 15 s banner/handshake timers must not
        # end a handshake that is merely slow
        for t in (self.tc, self.ts):
            t.banner_timeout = 180
            t.handshake_timeout = 180
        if self.role == "client":
            self.V, self.P = self.tc, self.ts
        else:
            self.V, self.P = self.ts, self.tc

    def prepare(self):
        sev = threading.Event()
        self.ts.start_server(event=sev, server=Server())
        self.tc.start_client(timeout=60)
        if not sev.wait(60) or not (self.ts.is_active() and self.tc.is_active()):
            raise RuntimeError("handshake did not complete")
        need = self.spec["need"]
        if need != "kex":
            self.tc.auth_password("u", "pw")
            if not self.tc.is_authenticated():
                raise RuntimeError("auth failed")
        if need in ("chan", "chanfull", "sftp"):
            cchan = self.tc.open_session(timeout=60)
            schan = self.ts.accept(60)
            if schan is None:
                raise RuntimeError("server never saw the channel")
            self.vchan, self.pchan = (cchan, schan) if self.role == "client" else (schan, cchan)
        if self.a.get("pre") == "peer_close_other":
            c2 = self.tc.open_session(timeout=60)
            s2 = self.ts.accept(60)
            self.vchan2, self.pchan2 = (c2, s2) if self.role == "client" else (s2, c2)
        if need == "chanfull":
            # the peer never reads, so the victim's send window stays exhausted
            self.vchan.sendall(b"f" * self.vchan.out_window_size)
            if self.vchan.out_window_size != 0:
                raise RuntimeError("send window not exhausted")
        if need == "sftp":
            self.vchan.invoke_subsystem("sftp")
            self.sftp = paramiko.SFTPClient(self.vchan)
        if self.spec.get("auth") and self.tmo is not None:
            self.V.auth_timeout = self.tmo
        self.wait_quiet(20)
        self.stall.types = tuple(self.spec["stall"])
        self.stall.armed = True

    # -- link state -------------------------------------------------------
    def activity(self):
        if self.link is not None:
            ab, ba = self.link.ab, self.link.ba
            return (ab.sent_chunks, ba.sent_chunks, ab.delivered, ba.delivered)
        return (self.ssock.sent, self.ssock.rcvd, self.pipe_unread())

    def pipe_unread(self):
        if self.pc is None:
            return 0
        try:
            buf = fcntl.ioctl(self.pc.process.stdout.fileno(), termios.FIONREAD, b"\0\0\0\0")
            return struct.unpack("i", buf)[0]
        except (OSError, ValueError):
            return 0

    def drained(self):
        if self.link is not None:
            psock = self.link.b if self.role == "client" else self.link.a
            for d, reader in ((self.link.ab, self.link.b), (self.link.ba, self.link.a)):
                if d.pending() and not (reader.closed or d.rst):
                    if reader is psock and self.stall.hit.is_set() and not self.stall.go.is_set():
                        continue  # backlog behind the request the harness itself is holding at the peer
                    return False
            return True
        return self.pipe_unread() == 0

    def wait_quiet(self, timeout):
        end = time.monotonic() + timeout
        last, since = None, time.monotonic()
        while time.monotonic() < end:
            cur = self.activity()
            if cur != last:
                last, since = cur, time.monotonic()
            elif time.monotonic() - since >= 0.08 and self.drained():
                return True
            time.sleep(0.02)
        return False

    def relay_gone(self):
        if self.relay_pid is None:
            return None
        try:
            with open("/proc/%d/stat" % self.relay_pid) as f:
                st = f.read()
            return st.rsplit(")", 1)[1].split()[0] in ("Z", "X")
        except OSError:
            return True

    # -- loss injection (always from a thread that is not the caller) -------
    def inject(self):
        loss, var = self.loss, self.variant
        if loss == "peer_close":
            self.P.close()
        elif loss == "link_eof":
            if self.link is not None:
                self.link.eof()
            else:
                self.ssock.s.shutdown(socket.SHUT_RDWR)
        elif loss == "link_abrupt":
            if self.link is not None:
                self.link.abrupt()
            else:
                self.ssock.reset()
        elif loss == "proxy_exit":
            if var == "kill":
                os.kill(self.relay_pid, signal.SIGKILL)
            elif var == "term":
                os.kill(self.relay_pid, signal.SIGTERM)
            elif var == "tcp_close":
                self.ssock.close()
            else:
                os.kill(self.relay_pid, signal.SIGUSR1)
            end = time.monotonic() + 20
            while not self.relay_gone() and time.monotonic() < end:
                time.sleep(0.01)
        elif loss == "local_close":
            self.V.close()
        elif loss == "sock_raises" and var.startswith("recv:"):
            vsock = self.link.a if self.role == "client" else self.link.b
            vsock.recv_exc = shape_factory(var.split(":", 1)[1])
        elif loss in ("send_fails_first", "sock_raises"):
            # the loss is first noticed by a *user thread's write*: V's send direction breaks while
            # inbound messages that need a reply, then FIN, are still queued for V's reader
            d, vsock = (self.link.ba, self.link.a) if self.role == "client" else (self.link.ab, self.link.b)
            d.hold()
            if var == "channel_request" and self.pchan is not None:
                m = Message()
                m.add_byte(bytes([MSG_CHANNEL_REQUEST]))
                m.add_int(self.pchan.remote_chanid)
                m.add_string("probe@vf")
                m.add_boolean(True)
                self.P._send_message(m)
            m = Message()
            m.add_byte(bytes([MSG_GLOBAL_REQUEST]))
            m.add_string("keepalive@vf")
            m.add_boolean(True)
            self.P._send_message(m)
            vsock.fail_send = shape_factory(var.split(":", 1)[1]) if loss == "sock_raises" else True
            self.writer = {"outcome": None}

            def write():
                try:
                    self.V.send_ignore(16)
                    self.writer["outcome"] = "return"
                except BaseException as e:  # noqa
                    self.writer["outcome"] = "raise " + type(e).__name__

            wt = threading.Thread(target=write, daemon=True, name="c13-writer")
            wt.start()
            wt.join(1.5)  # (during a key exchange the write waits for the gate; go on regardless)
            d.release()
            self.link.eof(d.name)
            wt.join()
        elif loss == "garbage":
            if var == "bad_mac":
                if self.link is not None:
                    d = self.link.ba if self.role == "client" else self.link.ab
                    state = {"done": False}

                    def flip(data, idx, state=state):
                        if state["done"] or len(data) < 8:
                            return [data]
                        state["done"] = True
                        return [data[:-1] + bytes([data[-1] ^ 1])]

                    d.filter = flip
                else:
                    self.ssock.corrupt = True
                m = Message()
                m.add_byte(bytes([MSG_IGNORE]))
                m.add_string(b"x" * 32)
                self.P._send_message(m)
            elif var == "disconnect":
                m = Message()
                m.add_byte(bytes([MSG_DISCONNECT]))
                m.add_int(2)
                m.add_string("bye")
                m.add_string("en")
                self.P._send_message(m)
            else:  # unknown_channel
                m = Message()
                m.add_byte(bytes([MSG_CHANNEL_DATA]))
                m.add_int(0xDEAD)
                m.add_string(b"zz")
                self.P._send_message(m)
        else:
            raise ValueError(loss)

    def teardown(self):
        self.stall.go.set()
        for t in (getattr(self, "tc", None), getattr(self, "ts", None)):
            try:
                if t is not None:
                    t.close()
            except Exception:
                pass
        if self.relay_pid is not None:
            try:
                os.kill(self.relay_pid, signal.SIGKILL)
            except OSError:
                pass


# --------------------------------------------------------------------------
# stack sampling


def stack_of(ident, frames):
    f = frames.get(ident)
    out = []
    while f is not None:
        co = f.f_code
        out.append((co.co_filename, getattr(co, "co_qualname", co.co_name), f.f_lineno))
        f = f.f_back
    out.reverse()
    return out


def proj(stack):
    """Qualnames of the paramiko frames, outermost first (no line numbers: a
    0.1 s poll loop keeps the same projection while it makes no progress)."""
    return tuple(q for fn, q, ln in stack if fn.startswith(PARAMIKO_ROOT))


def describe(stack):
    try:
        return _describe(stack)
    except Exception:
        return dict(innermost=None, callee=None, line=None, source=None, paramiko_stack=[], full=[],
                    error=traceback.format_exc()[-600:])


def _describe(stack):
    inner = None
    inner_line = None
    callee = None
    for i, (fn, q, ln) in enumerate(stack):
        if fn.startswith(PARAMIKO_ROOT):
            inner, inner_line = q, (fn, ln)
            callee = stack[-1][1] if i + 1 < len(stack) else None
    text = None
    if inner_line is not None:
        try:
            import linecache

            text = linecache.getline(inner_line[0], inner_line[1] or 0).strip()
        except Exception:
            text = None
    return dict(
        innermost=inner,
        callee=callee,
        line="%s:%s" % (os.path.basename(inner_line[0]), inner_line[1]) if inner_line else None,
        source=text,
        paramiko_stack=list(proj(stack)),
        full=["%s:%s:%s" % (os.path.basename(fn), q, ln) for fn, q, ln in stack][-14:],
    )


PRE_ACTIONS = ("shutdown_read", "shutdown2", "shutdown_write", "set_combine_stderr", "settimeout_none")
# protocol-level events from the peer that name the victim's established, in-use channel before the loss
PEER_MSGS = ("peer_open_failure", "peer_open_confirm_dup", "peer_close_other", "peer_chan_failure", "peer_chan_success")


def send_peer_msg(w, kind):
    rid = w.pchan.remote_chanid  # the victim's own id of the channel under test
    m = Message()
    if kind == "peer_open_failure":  # stray CHANNEL_OPEN_FAILURE for an established channel
        m.add_byte(bytes([92]))
        m.add_int(rid)
        m.add_int(2)
        m.add_string("stray")
        m.add_string("en")
    elif kind == "peer_open_confirm_dup":  # second OPEN_CONFIRMATION (window 0: a full send window stays full)
        m.add_byte(bytes([91]))
        m.add_int(rid)
        m.add_int(w.pchan.chanid)
        m.add_int(0)
        m.add_int(32768)
    elif kind == "peer_chan_failure":  # CHANNEL_FAILURE with nothing pending
        m.add_byte(bytes([100]))
        m.add_int(rid)
    elif kind == "peer_chan_success":  # CHANNEL_SUCCESS with nothing pending
        m.add_byte(bytes([99]))
        m.add_int(rid)
    elif kind == "peer_close_other":  # the peer closes a *different* established channel
        w.pchan2.close()
        return
    else:
        raise ValueError(kind)
    w.P._send_message(m)


def apply_pre(w):
    """A local action of the application on the victim's channel that precedes the loss (a local
    half-close marks EOF *without* the peer having sent one: the reader must still be released)."""
    pre, ch = w.a.get("pre"), w.vchan
    if not pre or pre == "none" or ch is None:
        return
    if pre.startswith("peer_"):
        n0 = len(w.rec.events)
        send_peer_msg(w, pre)
        # until the victim's reader has decoded it
        side = "c" if w.role == "client" else "s"
        end = time.monotonic() + 30
        while time.monotonic() < end:
            if any(e.get("side") == side and e.get("kind") == "msg" and e.get("dir") == "in"
                   and e.get("type") in (91, 92, 97, 99, 100) for e in w.rec.snapshot()[n0:]):
                w.pre_seen = True
                break
            time.sleep(0.02)
        return
    if pre == "shutdown_read":
        ch.shutdown_read()
    elif pre == "shutdown2":
        ch.shutdown(2)
    elif pre == "shutdown_write":
        ch.shutdown_write()
    elif pre == "set_combine_stderr":
        ch.set_combine_stderr(True)
    elif pre == "settimeout_none":
        ch.settimeout(30.0)
        ch.settimeout(None)
    else:
        raise ValueError(pre)


class Tracer:
    """Counts LINE events of paramiko code in the calling thread; at the k-th
    one it parks the caller until the injector has done its work (a single
    preemption of the caller at statement granularity)."""

    def __init__(self, k=None, on_hit=None, at=None):
        self.k = k
        self.at = tuple(at) if at else None  # (qualname, substring of the source line)
        self.on_hit = on_hit
        self.n = 0
        self.hit = False
        self.off = False  # set once the measurement / preemption is over: stop tracing the caller
        self.where = None
        self.times = []

    def glob(self, frame, event, arg):
        if self.off:
            return None
        if frame.f_code.co_filename.startswith(PARAMIKO_ROOT):
            return self.loc
        return None

    def loc(self, frame, event, arg):
        if self.off:
            return None
        if event == "line":
            if len(self.times) < 5000:
                self.times.append(time.monotonic())
            if not self.hit and (
                (self.k is not None and self.n == self.k) or (self.at is not None and self._at(frame))
            ):
                self.hit = True
                self.k = self.n
                co = frame.f_code
                self.where = "%s:%d" % (getattr(co, "co_qualname", co.co_name), frame.f_lineno)
                self.on_hit()
            self.n += 1
        return self.loc

    def _at(self, frame):
        co = frame.f_code
        if getattr(co, "co_qualname", co.co_name) != self.at[0]:
            return False
        import linecache

        return self.at[1] in linecache.getline(co.co_filename, frame.f_lineno)

    def lines_before_first_wait(self):
        t = self.times
        for i in range(len(t) - 1):
            if t[i + 1] - t[i] >= 0.05:
                return i + 1
        return len(t)


class Caller(threading.Thread):
    def __init__(self, w, idx, tracer=None):
        super().__init__(daemon=True, name="c13-caller-%d" % idx)
        self.w = w
        self.tracer = tracer
        self.done = False
        self.outcome = None
        self.exc = None
        self.value = None
        self.t_start = self.t_end = None

    def run(self):
        self.t_start = time.monotonic()
        if self.tracer is not None:
            sys.settrace(self.tracer.glob)
        try:
            self.value = self.w.spec["fn"](self.w)
            self.outcome = "return"
        except BaseException as e:  # noqa
            self.outcome = "raise"
            self.exc = e
        finally:
            sys.settrace(None)
            self.t_end = time.monotonic()
            self.done = True

    def report(self):
        return dict(
            done=self.done,
            outcome=self.outcome,
            exc=(type(self.exc).__name__ + ": " + str(self.exc)[:120]) if self.exc is not None else None,
            value=repr(self.value)[:80] if self.outcome == "return" else None,
        )


def wait_parked(w, callers, timeout=40.0):
    """'blocked' once every caller sits in an unchanged paramiko stack with the
    request (if any) parked at the peer and the link silent; 'premature' if a
    caller came back first."""
    end = time.monotonic() + timeout
    last, since = None, time.monotonic()
    while time.monotonic() < end:
        if any(c.done for c in callers):
            return "premature"
        if w.spec["stall"] and not w.stall.hit.is_set():
            time.sleep(0.02)
            continue
        frames = sys._current_frames()
        key = (tuple(proj(stack_of(c.ident, frames)) for c in callers), w.activity())
        now = time.monotonic()
        if key != last or not all(k for k in key[0]):
            last, since = key, now
        elif now - since >= (0.12 if w.spec["stall"] else 0.25) and w.drained():
            return "blocked"
        time.sleep(0.03)
    return "unsettled"


_TCK = os.sysconf("SC_CLK_TCK") if hasattr(os, "sysconf") else 100


def os_thread_state(t):
    """(scheduler state, CPU seconds) of a Python thread from /proc: a *parked* thread sleeps ('S')
    and burns no CPU; a thread that is merely starved on a loaded box is runnable ('R')."""
    tid = getattr(t, "native_id", None)
    if not tid:
        return None
    try:
        with open("/proc/self/task/%d/stat" % tid) as f:
            f_ = f.read().rsplit(")", 1)[1].split()
        return f_[0], (int(f_[11]) + int(f_[12])) / float(_TCK)
    except (OSError, ValueError, IndexError):
        return None


import re

_BLOCKING_LINE = re.compile(r"\b(wait|acquire|sleep|recv|recv_into|select|poll|join|get|read|accept|_wait_for_tstate_lock)\s*\(")
_NEVER_A_SPIN = ("logging", "traceback", "linecache", "tokenize", "tb_strings", "_log", "importlib")


def at_blocking_primitive(stack):
    """The innermost Python frame sits on a source line that calls a blocking primitive
    (Condition/Event.wait, Lock.acquire, time.sleep, recv/select, join, queue get)."""
    if not stack:
        return False
    import linecache

    fn, q, ln = stack[-1]
    return bool(_BLOCKING_LINE.search(linecache.getline(fn, ln or 0)))


def never_a_spin(stack):
    return any(any(tok in fn or tok in q for tok in _NEVER_A_SPIN) for fn, q, _ in (stack or ()))


def observe(w, callers, window, deadline, extra_threads=()):
    """Sample until everything is over, or until the DESIGN 2.4 quiescence
    holds for `window` seconds.

    A run of samples is quiescent while the *hard* facts do not change: bytes
    moved on the link (none), is_active(), which calls are back, which threads
    are alive.  Within such a run every live thread must be *parked*: the same
    paramiko frames in (nearly) all samples, the OS thread asleep ('S' in
    /proc/self/task/<tid>/stat, which a CPU-starved but runnable thread is not)
    and using no CPU -> "blocked"/"still_active".  Threads that do use CPU
    count only as a livelock, under a stricter rule: at most 6 recurring
    full-stack states (each seen twice or more) over twice the window ->
    "spinning".  Everything else keeps sampling until the watchdog ->
    "unsettled"."""
    t_end = time.monotonic() + deadline
    hard_key, run_start, run_samples = None, None, 0
    states, full_states, osinfo = {}, {}, {}
    vt, pt = w.V, w.P
    last = {}
    while True:
        now = time.monotonic()
        frames = sys._current_frames()
        active = bool(w.V.is_active())
        cstacks = [None if c.done else stack_of(c.ident, frames) for c in callers]
        vstack = stack_of(vt.ident, frames) if vt.is_alive() else None
        pstack = stack_of(pt.ident, frames) if pt.is_alive() else None
        estacks = [stack_of(t.ident, frames) if t.is_alive() else None for t in extra_threads]
        drained = w.drained()
        hard = (
            tuple(s is None for s in cstacks),
            active,
            vstack is None,
            pstack is None,
            tuple(s is None for s in estacks),
            w.activity(),
        )
        everyone = list(cstacks) + [vstack, pstack] + list(estacks)
        soft = tuple(None if s is None else proj(s) for s in everyone)
        full = tuple(None if s is None else tuple(q for fn, q, _ in s if not fn.startswith(VF_ROOT)) for s in everyone)
        last = dict(cstacks=cstacks, vstack=vstack, pstack=pstack, estacks=estacks, active=active, drained=drained)
        if all(c.done for c in callers) and not active and all(s is None for s in estacks):
            return "ok", dict(samples=run_samples, span=0.0), last
        if hard != hard_key:
            hard_key, run_start, run_samples = hard, now, 0
            states, full_states, osinfo = {}, {}, {}
        run_samples += 1
        if soft in states:
            states[soft][0] += 1
        else:
            states[soft] = [1, last]
        full_states[full] = full_states.get(full, 0) + 1
        live = [c for c in callers if not c.done] + [t for t in (vt, pt) if t.is_alive()] + [
            t for t in extra_threads if t.is_alive()]
        for t in live:
            st = os_thread_state(t)
            if st is None:
                continue
            o = osinfo.setdefault(t.name, dict(cpu0=st[1], cpu=st[1], n=0, asleep=0, atprim=0, nospin=0))
            o["cpu"] = st[1]
            o["n"] += 1
            o["asleep"] += 1 if st[0] == "S" else 0
            tstack = stack_of(t.ident, frames)
            o["atprim"] += 1 if at_blocking_primitive(tstack) else 0
            o["nospin"] += 1 if never_a_spin(tstack) else 0
        span = now - run_start
        # (undelivered bytes do not break quiescence: the hard key already demands that not a byte was sent or
        # delivered during the whole run, so whoever should read them is one of the parked threads)
        if span >= window and run_samples >= 8:
            # parked = asleep for the OS, no CPU used, and the innermost frame on a blocking primitive
            # (a 0.1 s poll loop is caught runnable in up to ~20 % of the samples; a starved thread that is
            # doing real work is runnable almost always, is not on a blocking primitive, and accumulates CPU)
            asleep = all(o["asleep"] >= 0.6 * o["n"] and o["atprim"] >= 0.9 * o["n"]
                         and o["cpu"] - o["cpu0"] <= max(0.1, 0.05 * span)
                         for o in osinfo.values()) and len(osinfo) == len(live)
            top = max(n for n, _ in states.values())
            parked = asleep and top >= 0.9 * run_samples
            # a busy loop: the same few full stacks revisited again and again for three windows with the
            # byte counters frozen; logging / traceback / linecache work is never a spin
            recurring = (not asleep and span >= 3 * window and run_samples >= 40 and len(full_states) <= 6
                         and all(n >= 3 for n in full_states.values())
                         and all(o["nospin"] == 0 for o in osinfo.values()))
            if parked or recurring:
                info = dict(samples=run_samples, span=round(span, 2), distinct_stack_states=len(full_states),
                            threads={k: dict(asleep="%d/%d" % (o["asleep"], o["n"]), at_blocking_primitive="%d/%d" % (o["atprim"], o["n"]), cpu=round(o["cpu"] - o["cpu0"], 2))
                                     for k, o in osinfo.items()})
                last = max(states.values(), key=lambda x: x[0])[1]
                if recurring:
                    info["spin_states"] = sorted(
                        set(str(describe(cs)["innermost"]) for _, l in states.values() for cs in l["cstacks"] if cs))
                    info["v_spin_states"] = sorted(
                        set(str(describe(l["vstack"])["innermost"]) for _, l in states.values() if l["vstack"]))
                if any(s is not None for s in last["estacks"]):
                    return "inject_blocked", info, last
                if active:
                    return "still_active", info, last
                return ("blocked" if parked else "spinning"), info, last
        if now >= t_end:
            return "unsettled", dict(samples=run_samples, span=round(span, 2), distinct_stack_states=len(full_states),
                                     threads={k: dict(asleep="%d/%d" % (o["asleep"], o["n"]), at_blocking_primitive="%d/%d" % (o["atprim"], o["n"]), cpu=round(o["cpu"] - o["cpu0"], 2))
                                              for k, o in osinfo.items()}), last
        time.sleep(0.25)


# --------------------------------------------------------------------------


def v_tail(w, start):
    """What the victim's reader saw after the case began (evidence that the
    loss reached it): inbound message types and read errors."""
    side = "c" if w.role == "client" else "s"
    out = []
    for e in w.rec.snapshot()[start:]:
        if e.get("side") != side:
            continue
        if e.get("kind") == "readerr":
            out.append("readerr:%s:%s" % (e.get("exc"), e.get("text", "")[:60]))
        elif e.get("kind") == "msg" and e.get("dir") == "in":
            out.append("in:%s" % e.get("type"))
    return out[-8:]


def dry_count(a, rng):
    """How many paramiko LINE events the caller executes before it first waits
    (measured on a separate, identical pair)."""
    w = World(dict(a, loss=None), rng)
    try:
        w.build()
        w.prepare()
        tr = Tracer()
        c = Caller(w, 0, tr)
        c.start()
        wait_parked(w, [c], 60.0)
        return tr.n
    finally:
        w.teardown()


CRASHES = []


def _excepthook(args):
    """Uncaught exception in any thread of the child (a transport thread that
    dies this way skips its shutdown block)."""
    from vf import core

    try:
        sig = core.exc_signature(args.exc_value)
    except Exception:
        sig = getattr(args.exc_type, "__name__", "?")
    CRASHES.append(dict(thread=getattr(args.thread, "name", "?"), ident=getattr(args.thread, "ident", None), sig=sig,
                        text=str(args.exc_value)[:160]))


def run_case(a):
    threading.excepthook = _excepthook
    rng = random.Random(a.get("seed", 0))
    window = float(a.get("window", 10.0))
    timing = a["timing"]
    res = dict(args=a, status="run", api=api_name(a["call"], a.get("tmo")))
    tmo = a.get("tmo") or 0.0
    k = a.get("k")
    if timing == "during" and k is None and not a.get("at"):
        try:
            n = dry_count(a, rng)
        except Exception:
            return dict(res, status="setup_failed", error=traceback.format_exc()[-1500:])
        res["n_lines"] = n
        k = min(int(a.get("f", 0.5) * n), max(0, n - 1))
    res["k"] = k

    t_begin = time.monotonic()
    phases = res["phases"] = {}
    for attempt in (1, 2, 3):
        w = World(a, rng)
        try:
            w.build()
            phases["build"] = round(time.monotonic() - t_begin, 2)
            w.prepare()
            phases["prepare"] = round(time.monotonic() - t_begin, 2)
            break
        except Exception:
            # nothing has been judged yet: a failed setup is retried on a fresh pair
            w.teardown()
            res["setup_retries"] = attempt
            if attempt == 3:
                return dict(res, status="setup_failed", error=traceback.format_exc()[-1500:])
    res["msgs_before"] = len(w.rec.events)

    ncallers = w.spec.get("ncallers", 1)
    hit_evt, resume_evt = threading.Event(), threading.Event()
    inj = {"error": None, "done": threading.Event()}

    def do_inject():
        try:
            w.inject()
        except Exception:
            inj["error"] = traceback.format_exc()[-800:]
        inj["done"].set()

    injector = threading.Thread(target=do_inject, daemon=True, name="c13-injector")

    def wait_inactive(limit):
        end = time.monotonic() + limit
        while time.monotonic() < end:
            if inj["done"].is_set() and not w.V.is_active():
                return True
            time.sleep(0.02)
        return False

    callers = []
    if timing == "before":
        tr = Tracer() if a.get("count_lines") else None
        callers = [Caller(w, i, tr if i == 0 else None) for i in range(ncallers)]
        for c in callers:
            c.start()
        st = wait_parked(w, callers)
        if tr is not None:
            # lines executed up to the moment the call was seen parked (a poll
            # loop adds a few lines per 0.1 s: those are preemption points too)
            res["n_lines"] = tr.n
            tr.off = True
        res["parked"] = st
        if st == "blocked" and a.get("pre") not in (None, "none"):
            apply_pre(w)
            w.wait_quiet(10)
            st = res["parked_after_pre"] = wait_parked(w, callers)
        if st == "premature":
            # a timeout variant that expired on its own, a pre-loss action that ended the call, or a harness problem
            res["callers"] = [c.report() for c in callers]
            res["pre_seen"] = w.pre_seen
            w.teardown()
            return dict(res, status="done", verdict="premature")
        if st == "unsettled":
            frames = sys._current_frames()
            res["callers"] = [c.report() for c in callers]
            res["stacks"] = [describe(stack_of(c.ident, frames)) for c in callers]
            w.teardown()
            return dict(res, status="done", verdict="unsettled", why="call never parked before the loss")
        injector.start()
    elif timing == "during":

        def on_hit():
            hit_evt.set()
            resume_evt.wait(6.0)

        apply_pre(w)
        tr = Tracer(k, on_hit, a.get("at"))
        callers = [Caller(w, 0, tr)]
        callers[0].start()
        reached = False
        end = time.monotonic() + 40
        parked_since = None
        while time.monotonic() < end:
            if hit_evt.is_set():
                reached = True
                break
            if callers[0].done:
                break
            # the caller went to sleep before executing k lines
            if (not w.spec["stall"] or w.stall.hit.is_set()) and tr.times and time.monotonic() - tr.times[-1] > (1.0 if w.spec["stall"] else 3.0):
                break
            time.sleep(0.02)
        res["k_reached"] = reached
        res["k"] = tr.k
        res["k_where"] = tr.where
        res["active_at_hit"] = bool(w.V.is_active())
        injector.start()
        res["inactive_before_resume"] = wait_inactive(2.0)
        resume_evt.set()
        res["n_lines_seen"] = tr.n
        tr.off = True
    else:  # after
        apply_pre(w)
        w.wait_quiet(10)
        injector.start()
        verdict, info, last = observe(w, [], window, 5 * window + 40, extra_threads=[injector])
        if verdict != "ok":
            res.update(verdict=verdict, window=info, call_made=False, active=last["active"], drained=last["drained"],
                       vthread=describe(last["vstack"]) if last["vstack"] else None,
                       pthread=describe(last["pstack"]) if last["pstack"] else None,
                       injector=describe(last["estacks"][0]) if last["estacks"] and last["estacks"][0] else None,
                       inject_error=inj["error"], relay_gone=w.relay_gone(),
                       v_tail=v_tail(w, res["msgs_before"]), msgs_total=len(w.rec.events), writer=w.writer,
                       crashes=[dict(c, victim=(c["ident"] == w.V.ident)) for c in CRASHES],
                       link_log=None if w.link is None else dict(
                           ab=[len(x) for x in w.link.ab.log[-4:]], ba=[len(x) for x in w.link.ba.log[-4:]],
                           pend=(w.link.ab.pending(), w.link.ba.pending())))
            w.teardown()
            return dict(res, status="done")
        # "calls made afterwards": also after the transport thread itself is gone (bounded wait, not a verdict)
        w.V.join(3.0)
        res["v_thread_done_at_call"] = not w.V.is_alive()
        res["active_at_call"] = bool(w.V.is_active())
        callers = [Caller(w, i) for i in range(ncallers)]
        for c in callers:
            c.start()

    # the peer may go on now: no reply can overtake the loss
    if timing != "after":
        wait_inactive(1.0)
    w.stall.go.set()
    phases["lost"] = round(time.monotonic() - t_begin, 2)
    verdict, info, last = observe(w, callers, window + tmo, 5 * window + 40 + tmo, extra_threads=[injector])
    res.update(
        verdict=verdict,
        window=info,
        call_made=True,
        active=last["active"],
        drained=last["drained"],
        callers=[c.report() for c in callers],
        blocked=[describe(s) for s in last["cstacks"] if s is not None],
        vthread=describe(last["vstack"]) if last["vstack"] else None,
        pthread=describe(last["pstack"]) if last["pstack"] else None,
        injector=describe(last["estacks"][0]) if last["estacks"] and last["estacks"][0] else None,
        inject_error=inj["error"],
        relay_gone=w.relay_gone(),
        msgs_total=len(w.rec.events),
        v_tail=v_tail(w, res["msgs_before"]),
        writer=w.writer,
        pre_seen=w.pre_seen,
        crashes=[dict(c, victim=(c["ident"] == w.V.ident)) for c in CRASHES],
        v_exception=repr(w.V.saved_exception)[:120] if getattr(w.V, "saved_exception", None) else None,
    )
    phases["observed"] = round(time.monotonic() - t_begin, 2)
    w.teardown()
    phases["end"] = round(time.monotonic() - t_begin, 2)
    return dict(res, status="done")
