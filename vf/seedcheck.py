"""Confirm a seeded defect and run the property check against it.

  python -m vf.seedcheck <prop> <dir-with patch.diff demo.py notes.md> [--name slug] [--skip-suite]

Steps (all on a scratch copy of /repo, removed afterwards):
  1. demo.py on the clean tree must print PASS / exit 0
  2. patch applies; package imports
  3. demo.py on the changed tree must exit non-zero
  4. the repository's test suite passes with the change (534 passed)
  5. ./check <prop> quick (then thorough if quick missed) against the changed tree
Writes /verif/seeded/<prop>-<slug>/{patch.diff,demo.py,notes.md,meta.json}.
"""
import argparse
import json
import os
import re
import shutil
import subprocess
import sys
import tempfile
import time

HOME = os.environ.get("VF_HOME") or os.path.dirname(os.path.dirname(os.path.abspath(__file__)))
REPO = "/repo"
PY = "/venv/bin/python"


def sh(cmd, cwd=None, env=None, timeout=3600):
    p = subprocess.run(cmd, cwd=cwd, env=env, capture_output=True, text=True, timeout=timeout)
    return p.returncode, (p.stdout + p.stderr)


def main():
    ap = argparse.ArgumentParser()
    ap.add_argument("prop")
    ap.add_argument("src")
    ap.add_argument("--name")
    ap.add_argument("--skip-suite", action="store_true")
    ap.add_argument("--needs", default="")
    a = ap.parse_args()
    prop = a.prop.upper()
    slug = a.name or os.path.basename(os.path.abspath(a.src))
    dest = os.path.join(HOME, "seeded", "%s-%s" % (prop, slug))
    os.makedirs(dest, exist_ok=True)
    for f in ("patch.diff", "demo.py", "notes.md"):
        if os.path.exists(os.path.join(a.src, f)) and os.path.abspath(a.src) != dest:
            shutil.copy(os.path.join(a.src, f), os.path.join(dest, f))
    meta_path = os.path.join(dest, "meta.json")
    meta = json.load(open(meta_path)) if os.path.exists(meta_path) else {}
    meta.update(property=prop, name=slug)
    needs_file = os.path.join(HOME, "seeded", "needs.json")
    if os.path.exists(needs_file):
        nd = json.load(open(needs_file)).get("%s-%s" % (prop, slug))
        if nd:
            meta["needs_to_manifest"] = nd
    if a.needs:
        meta["needs_to_manifest"] = a.needs
    d = tempfile.mkdtemp(prefix="vf-seed-")
    tree = os.path.join(d, "tree")
    shutil.copytree(REPO, tree, ignore=shutil.ignore_patterns(".git", "__pycache__", "*.pyc", "sites", "images"))
    env = dict(os.environ, PYTHONPATH=tree, PYTHONDONTWRITEBYTECODE="1")
    ran = {}
    prev_suite = meta.get("what_i_ran", {}).get("suite_changed")
    if a.skip_suite and prev_suite:
        ran["suite_changed"] = prev_suite  # confirmed in an earlier run of this tool
    try:
        demo = os.path.join(dest, "demo.py")
        # the demo may refer to its own worktree path; run it from the scratch tree
        src = open(demo).read()
        src2 = re.sub(r"/tmp/seed\d?/C\d+[a-z]?", tree, src)
        # keep the demo where its author ran it (<worktree>/seed_out/<n>/demo.py): some
        # demos locate the repository relative to their own path
        os.makedirs(os.path.join(tree, "seed_out", "x"), exist_ok=True)
        demo_run = os.path.join(tree, "seed_out", "x", "demo.py")
        open(demo_run, "w").write(src2)
        rc, out = sh([PY, "-B", demo_run], cwd=tree, env=env, timeout=600)
        ran["demo_clean"] = dict(rc=rc, tail=out[-300:])
        rc, out = sh(["patch", "-p1", "-s", "-i", os.path.join(dest, "patch.diff")], cwd=tree)
        ran["patch_applies"] = dict(rc=rc, tail=out[-300:])
        rc, out = sh([PY, "-B", "-c", "import paramiko"], cwd=tree, env=env)
        ran["imports"] = dict(rc=rc, tail=out[-200:])
        rc, out = sh([PY, "-B", demo_run], cwd=tree, env=env, timeout=600)
        ran["demo_changed"] = dict(rc=rc, tail=out[-400:])
        if not a.skip_suite:
            t0 = time.time()
            rc, out = sh([PY, "-m", "pytest", "-q", "-p", "no:cacheprovider", "--timeout=900", "-x"], cwd=tree, env=env,
                         timeout=3000)
            m = re.search(r"(\d+) passed", out)
            ran["suite_changed"] = dict(rc=rc, passed=int(m.group(1)) if m else None, wall=round(time.time() - t0),
                                        tail=out[-300:] if rc else "")
        checks = {}
        for tier in ("quick", "thorough"):
            t0 = time.time()
            rc, out = sh([os.path.join(HOME, "check"), prop, "--tier", tier, "--no-evidence"],
                         env=dict(os.environ, VF_TREE=tree), timeout=3600)
            sigs = [ln.strip()[len("signature: "):] for ln in out.splitlines() if ln.strip().startswith("signature:")]
            checks[tier] = dict(rc=rc, caught=(rc == 1 and "VIOLATION property=%s" % prop in out),
                                signatures=sigs[:6], wall=round(time.time() - t0),
                                tail="" if rc == 1 else out[-600:])
            if checks[tier]["caught"]:
                break
        ran["check"] = checks
    finally:
        shutil.rmtree(d, ignore_errors=True)
    ok_seed = (ran.get("demo_clean", {}).get("rc") == 0 and ran.get("patch_applies", {}).get("rc") == 0
               and ran.get("imports", {}).get("rc") == 0 and ran.get("demo_changed", {}).get("rc") not in (0, None)
               and ((a.skip_suite and not prev_suite) or (ran.get("suite_changed", {}).get("rc") == 0)))
    meta["confirmed"] = bool(ok_seed)
    meta["what_i_ran"] = ran
    meta["repo_head"] = sh(["git", "-C", REPO, "rev-parse", "--short", "HEAD"])[1].strip()
    caught = any(v.get("caught") for v in ran.get("check", {}).values())
    meta["caught_by_check"] = caught
    json.dump(meta, open(meta_path, "w"), indent=1)
    print("%s-%s confirmed=%s caught=%s %s" % (prop, slug, ok_seed, caught,
                                              {k: (v.get("rc"), v.get("passed")) if isinstance(v, dict) and "rc" in v else "" for k, v in ran.items() if k != "check"}))
    for tier, v in ran.get("check", {}).items():
        print("   ", tier, "caught" if v["caught"] else "NOT caught (rc=%s)" % v["rc"], v["signatures"][:3], "%ss" % v["wall"])


if __name__ == "__main__":
    main()
