"""Fork server for the C13 cases.

Every C13 case must run in a process of its own (a hung call, or a transport
thread spinning in ProxyCommand.recv, must not disturb the next case), but a
fresh interpreter + `import paramiko` per case costs more CPU than the case
itself.  The zygote is a single-threaded process that imports everything once
and then forks one child per request; the child behaves like `vf.iso`'s child
(faulthandler, watchdog timer that dumps all thread stacks, JSON result file).

Parent side:

    z = Zygote()
    res = z.call("vf.c13_case:run_case", args, timeout)   # same shape as iso.call
    z.close()

`call` may be used from several threads at once.
"""
import itertools
import json
import os
import select
import shutil
import signal
import subprocess
import sys
import tempfile
import threading

from vf import core


class Zygote:
    def __init__(self):
        self.tmp = tempfile.mkdtemp(prefix="vf-c13-")
        self.errp = os.path.join(self.tmp, "zygote.err")
        self.errf = open(self.errp, "wb")
        self.p = subprocess.Popen([sys.executable, "-B", "-m", "vf.c13_zygote"], stdin=subprocess.PIPE,
                                  stdout=subprocess.PIPE, stderr=self.errf, cwd=core.HOME)
        self.wlock = threading.Lock()
        self.slots = {}
        self.ids = itertools.count()
        self.dead = False
        line = self.p.stdout.readline()
        if b"ready" not in line:
            self.dead = True
        self.reader = threading.Thread(target=self._read, daemon=True)
        self.reader.start()

    def _read(self):
        while True:
            line = self.p.stdout.readline()
            if not line:
                break
            try:
                msg = json.loads(line)
            except ValueError:
                continue
            slot = self.slots.get(msg.get("id"))
            if slot is None:
                continue
            if "pid" in msg:
                slot["pid"] = msg["pid"]
            if "rc" in msg:
                slot["cpu"] = msg.get("cpu")
                slot["rc"] = msg["rc"]
                slot["ev"].set()
        self.dead = True
        for slot in list(self.slots.values()):
            slot["ev"].set()

    def call(self, target, args, timeout=60):
        i = next(self.ids)
        out = os.path.join(self.tmp, "%d.json" % i)
        err = os.path.join(self.tmp, "%d.err" % i)
        slot = self.slots[i] = dict(ev=threading.Event(), pid=None, rc=None)
        if self.dead:
            return dict(status="died", rc="zygote", stderr=self._tail(self.errp), emitted=[])
        req = json.dumps(dict(id=i, target=target, args=args, out=out, err=err, timeout=timeout)) + "\n"
        try:
            with self.wlock:
                self.p.stdin.write(req.encode())
                self.p.stdin.flush()
        except OSError:
            return dict(status="died", rc="zygote", stderr=self._tail(self.errp), emitted=[])
        if not slot["ev"].wait(timeout + 20):
            if slot["pid"]:
                try:
                    os.kill(slot["pid"], signal.SIGKILL)
                except OSError:
                    pass
            slot["rc"] = "killed"
        res = None
        if os.path.exists(out):
            try:
                with open(out) as f:
                    res = json.load(f)
            except ValueError:
                res = None
        if res is None:
            if slot["rc"] == "killed":
                res = dict(status="timeout", stacks=self._tail(err, 6000))
            else:
                res = dict(status="died", rc=slot["rc"], stderr=self._tail(err) + self._tail(self.errp, 500))
        if res.get("status") == "timeout" and "stacks" not in res:
            res["stacks"] = self._tail(err, 6000)
        res["emitted"] = []
        res["cpu"] = slot.get("cpu")
        for p in (out, err):
            try:
                os.unlink(p)
            except OSError:
                pass
        self.slots.pop(i, None)
        return res

    @staticmethod
    def _tail(path, n=3000):
        try:
            with open(path, "rb") as f:
                return f.read()[-n:].decode("utf-8", "replace")
        except OSError:
            return ""

    def close(self):
        try:
            self.p.stdin.close()
        except OSError:
            pass
        try:
            self.p.wait(5)
        except subprocess.TimeoutExpired:
            self.p.kill()
        self.errf.close()
        shutil.rmtree(self.tmp, ignore_errors=True)


# --------------------------------------------------------------------------
# zygote process


def _child(req):
    import faulthandler
    import importlib
    import traceback

    out = req["out"]
    ef = os.open(req["err"], os.O_WRONLY | os.O_CREAT | os.O_TRUNC, 0o600)
    os.dup2(ef, 1)
    os.dup2(ef, 2)
    os.close(ef)
    devnull = os.open(os.devnull, os.O_RDONLY)
    os.dup2(devnull, 0)
    os.close(devnull)
    os.setpgid(0, 0)
    faulthandler.enable()

    def write(res):
        with open(out + ".tmp", "w") as f:
            json.dump(res, f)
        os.replace(out + ".tmp", out)

    def on_timeout():
        faulthandler.dump_traceback(all_threads=True)
        write(dict(status="timeout"))
        os._exit(0)

    t = threading.Timer(float(req["timeout"]), on_timeout)
    t.daemon = True
    t.start()
    try:
        modname, fn = req["target"].split(":")
        mod = importlib.import_module(modname)
        val = getattr(mod, fn)(req["args"])
        res = dict(status="ok", value=core.jsonable(val))
    except BaseException:
        res = dict(status="error", error=traceback.format_exc()[-3000:])
    t.cancel()
    write(res)
    os._exit(0)


def main():
    # warm up: everything a case imports, and the key files it loads
    import paramiko  # noqa
    from vf import c13_case, keys

    keys.ed25519()
    keys.ecdsa()
    # paramiko formats a traceback (util.tb_strings) before shutting a transport down after a protocol
    # error: have the sources in linecache so that this costs milliseconds, not file reads on a loaded box
    import glob
    import linecache

    for f in glob.glob(os.path.join(os.path.dirname(paramiko.__file__), "*.py")) + [c13_case.__file__]:
        linecache.getlines(f)
    rd = sys.stdin.buffer
    wr = sys.stdout.buffer
    wr.write(b'{"ready": true}\n')
    wr.flush()
    kids = {}
    buf = b""
    eof = False
    while not eof or kids:
        if not eof:
            r, _, _ = select.select([rd.fileno()], [], [], 0.05)
            if r:
                data = os.read(rd.fileno(), 65536)
                if not data:
                    eof = True
                buf += data
                while b"\n" in buf:
                    line, buf = buf.split(b"\n", 1)
                    if not line.strip():
                        continue
                    req = json.loads(line)
                    pid = os.fork()
                    if pid == 0:
                        try:
                            _child(req)
                        finally:
                            os._exit(1)
                    kids[pid] = req["id"]
                    wr.write(json.dumps(dict(id=req["id"], pid=pid)).encode() + b"\n")
                    wr.flush()
        else:
            import time

            time.sleep(0.05)
        while kids:
            try:
                pid, st, ru = os.wait4(-1, os.WNOHANG)
            except ChildProcessError:
                break
            if pid == 0:
                break
            i = kids.pop(pid, None)
            if i is not None:
                rc = os.waitstatus_to_exitcode(st)
                wr.write(json.dumps(dict(id=i, rc=rc, cpu=[round(ru.ru_utime, 3), round(ru.ru_stime, 3)])).encode() + b"\n")
                wr.flush()
    # parent went away: take remaining children down
    for pid in kids:
        try:
            os.kill(pid, signal.SIGKILL)
        except OSError:
            pass


if __name__ == "__main__":
    main()
