"""Preemption engine (DESIGN §2.1.5) built on sys.monitoring (Python 3.12).

LINE events are enabled with ``set_local_events`` on the code objects under
study only, so the rest of the process runs at full speed.  A LINE event fires
at the start of a source statement, in the thread that is about to execute it,
i.e. exactly at the points at which CPython may switch threads.

What it offers
--------------
* ``Engine.execute(workers, Plan(...))`` runs a small multi-threaded workload
  (``workers`` = ``[(role, callable)]``) under a *plan*:

  - ``Plan(order=[roles])``                       serial schedule: threads are started one
    after the other, each only when every thread started before is finished or blocked;
  - ``Plan(order, park=(role, k))``               single preemption: as above, but ``role``
    is parked at its k-th LINE event (k counts from 0) until every other worker has
    finished or is itself blocked, then released;
  - ``Plan(order=None, perturb=dict(seed, prob))`` random perturbation: all workers start
    together, every LINE event sleeps 0..300 us with a seeded per-thread probability.

* ``Engine.sweep_plans(roles, counts)`` enumerates *all* single-preemption plans
  from the per-role LINE counts measured by the serial runs.
* trace of ``(role, qualname, line)``; ``Run.iid`` = hash of the trace = the
  interleaving id.
* probes: ``engine.add_probe(func, text, fn)`` puts ``fn(frame, line)`` on every source
  line of ``func`` that contains ``text`` (the raise-site probe: RAISE cannot be
  enabled per code object, a LINE event on the line holding the ``raise`` fires
  in the raising thread before the raise executes, with the object's own lock
  still held).  Probes fire for every thread, registered worker or not.

Workers run on a pool of persistent daemon threads (an OS thread start costs
milliseconds on a loaded box).  Blocked detection ("finished or itself blocked")
is a bounded wait on thread state: no LINE event and an unchanged innermost
frame for a window that is short when the source line that frame is executing
can block (``acquire``/``wait``/``os.read``/``with``) and long otherwise.  A misjudgement only changes *which* schedule was explored
(the run still ends at a real quiescent point); it can never produce a verdict.
A *hang* (every unfinished worker blocked in an untimed call, nothing parked)
is reported through ``Run.hung`` after a much longer window; the caller may
rescue the threads through ``on_hang``.
"""
import hashlib
import inspect
import linecache
import random
import re
import sys
import threading
import time

mon = sys.monitoring
LINE = mon.events.LINE
INSTRUCTION = mon.events.INSTRUCTION

_BLOCKING = re.compile(r"\.acquire\(|\.wait\(|os\.read\(|^\s*with\s|\.join\(|\.recv\(|select\(")


class Plan:
    __slots__ = ("order", "park", "perturb")

    def __init__(self, order=None, park=None, perturb=None):
        self.order = list(order) if order is not None else None
        self.park = tuple(park) if park is not None else None
        self.perturb = perturb

    def kind(self):
        if self.perturb is not None:
            return "random"
        return "preempt" if self.park is not None else "serial"

    def describe(self):
        return dict(kind=self.kind(), order=self.order, park=list(self.park) if self.park else None,
                    perturb=self.perturb)

    @classmethod
    def from_json(cls, d):
        return cls(order=d.get("order"), park=d.get("park"), perturb=d.get("perturb"))


class _W:
    """Per-worker state."""

    def __init__(self, role, fn):
        self.role = role
        self.fn = fn
        self.thread = None
        self.ident = None
        self.n = 0  # LINE events seen
        self.last_t = 0.0
        self.last_blocking = False
        self.not_before = 0.0  # a timed wait is not "blocked" before this moment
        self.started = False
        self.done = False
        self.parked = False
        self.was_parked = False
        self.park_at = None  # (qualname, line)
        self.release = threading.Event()
        self.result = None
        self.exc = None
        self.rng = None
        self.prob = 0.0


class Run:
    def __init__(self, plan):
        self.plan = plan
        self.trace = []
        self.counts = {}
        self.results = {}
        self.excs = {}
        self.park_reached = False
        self.park_at = None
        self.during_park = []  # trace slice produced by the others while the thread was parked
        self.hung = []  # [(role, [frames...])]
        self.leaked = False
        self.settle_timeouts = 0
        self.harness_errors = []

    @property
    def iid(self):
        h = hashlib.blake2b(digest_size=8)
        for r, q, l in self.trace:
            h.update(("%s|%s|%d;" % (r, q, l)).encode())
        return h.hexdigest()


def functions_of(*objs):
    """All plain functions defined by the given classes / modules (unwrapping
    functools.wraps decorators), as a list."""
    out = []
    seen = set()

    def add(f):
        while hasattr(f, "__wrapped__"):
            f = f.__wrapped__
        if inspect.isfunction(f) and id(f.__code__) not in seen:
            seen.add(id(f.__code__))
            out.append(f)

    for o in objs:
        if inspect.isfunction(o) or inspect.ismethod(o):
            add(o)
        elif inspect.isclass(o):
            for v in vars(o).values():
                if isinstance(v, (staticmethod, classmethod)):
                    v = v.__func__
                if isinstance(v, property):
                    v = v.fget
                if inspect.isfunction(v):
                    add(v)
        elif inspect.ismodule(o):
            for v in vars(o).values():
                if inspect.isclass(v) and v.__module__ == o.__name__:
                    out.extend(f for f in functions_of(v) if id(f.__code__) not in seen and not seen.add(id(f.__code__)))
                elif inspect.isfunction(v) and v.__module__ == o.__name__:
                    add(v)
    return out


def lines_containing(func, text):
    """Absolute line numbers of the source lines of ``func`` containing ``text``."""
    while hasattr(func, "__wrapped__"):
        func = func.__wrapped__
    src, first = inspect.getsourcelines(func)
    return [first + i for i, ln in enumerate(src) if text in ln.split("#")[0]]


class Engine:
    SHORT = 0.003  # s without progress on a statement that can block -> blocked
    LONG = 0.060  # s without progress elsewhere -> treated as blocked (descheduled harness code)
    POLL = 0.001
    SETTLE_CAP = 5.0  # give up waiting for "finished or blocked" (coverage only)
    HANG = 1.5  # s: every unfinished worker blocked, nothing parked -> hang
    JOIN_CAP = 60.0

    def __init__(self, funcs, name="vf.sched", instr_funcs=()):
        """instr_funcs: functions (a subset of funcs or not) that are additionally traced at
        INSTRUCTION granularity: every bytecode of theirs is a preemption point (CPython may switch
        threads inside a statement, e.g. after a call), so unlocked multi-step conditions written on
        one source line are split too.  Their trace entries carry the negative instruction offset."""
        self.funcs = list(funcs)
        self.codes = []
        for f in self.funcs:
            while hasattr(f, "__wrapped__"):
                f = f.__wrapped__
            self.codes.append(f.__code__)
        self.icodes = []
        for f in instr_funcs:
            while hasattr(f, "__wrapped__"):
                f = f.__wrapped__
            self.icodes.append(f.__code__)
            if f.__code__ not in self.codes:
                self.codes.append(f.__code__)
        self.name = name
        self.tool = None
        self._by_ident = {}
        self._run = None
        self._plan_role = None
        self._plan_k = -1
        self._perturb = False
        self._probes = {}  # (code, line) -> [fn]
        self._blockline = {}
        self._wake = threading.Event()
        self._pool = []
        self._idle = []
        self.stats = dict(line_events=0, probe_hits=0, parks=0, runs=0)

    # -- installation -----------------------------------------------------
    def __enter__(self):
        for tid in (3, 4, 2, 1, 0):
            try:
                mon.use_tool_id(tid, self.name)
                self.tool = tid
                break
            except ValueError:
                continue
        if self.tool is None:
            raise RuntimeError("no free sys.monitoring tool id")
        mon.register_callback(self.tool, LINE, self._on_line)
        if self.icodes:
            mon.register_callback(self.tool, INSTRUCTION, self._on_instr)
        for c in self.codes:
            mon.set_local_events(self.tool, c, LINE | INSTRUCTION if c in self.icodes else LINE)
        return self

    def __exit__(self, *a):
        for pt in self._idle:
            pt["q"].put(None)
        self._idle = []
        if self.tool is not None:
            for c in self.codes:
                try:
                    mon.set_local_events(self.tool, c, 0)
                except Exception:
                    pass
            mon.register_callback(self.tool, LINE, None)
            if self.icodes:
                mon.register_callback(self.tool, INSTRUCTION, None)
            mon.free_tool_id(self.tool)
            self.tool = None
        return False

    def add_probe(self, func, text, fn):
        """fn(frame, line) is called on every source line of func containing text."""
        while hasattr(func, "__wrapped__"):
            func = func.__wrapped__
        lines = lines_containing(func, text)
        if func.__code__ not in self.codes:
            self.codes.append(func.__code__)
            if self.tool is not None:
                mon.set_local_events(self.tool, func.__code__, LINE)
        for ln in lines:
            self._probes.setdefault((func.__code__, ln), []).append(fn)
        return lines

    # -- the callback -------------------------------------------------------
    def _is_blocking_line(self, code, line):
        key = (code.co_filename, line)
        v = self._blockline.get(key)
        if v is None:
            txt = linecache.getline(code.co_filename, line)
            v = bool(_BLOCKING.search(txt))
            self._blockline[key] = v
        return v

    def _on_instr(self, code, offset):
        return self._on_line(code, -1 - offset, False)

    def _on_line(self, code, line, probes=True):
        try:
            if probes and self._probes:
                fns = self._probes.get((code, line))
                if fns:
                    fr = sys._getframe(1)
                    self.stats["probe_hits"] += 1
                    for fn in fns:
                        fn(fr, line)
            w = self._by_ident.get(threading.get_ident())
            if w is None:
                return None
            run = self._run
            k = w.n
            w.n = k + 1
            w.last_t = time.monotonic()
            run.trace.append((w.role, code.co_qualname, line))
            if w.role == self._plan_role and k == self._plan_k:
                w.park_at = (code.co_qualname, line)
                w.was_parked = True
                w.parked = True
                self._wake.set()
                t_end = time.monotonic() + self.JOIN_CAP
                while not w.release.wait(0.25):  # releases the GIL
                    if time.monotonic() > t_end:
                        run.harness_errors.append("parked thread never released")
                        break
                w.parked = False
                w.last_t = time.monotonic()
            elif self._perturb and w.prob and w.rng.random() < w.prob:
                d = w.rng.random() * 300e-6
                time.sleep(d if w.rng.random() < 0.8 else 0)
        except BaseException as e:  # never let the monitor disturb the code under study
            r = self._run
            if r is not None and len(r.harness_errors) < 5:
                r.harness_errors.append("callback: %r" % (e,))
        return None

    # -- helpers for workloads ------------------------------------------------
    def expect_wait(self, seconds):
        """Called by a worker just before an operation that may legitimately wait up to
        ``seconds`` (timed read): it is not considered blocked before that has passed."""
        w = self._by_ident.get(threading.get_ident())
        if w is not None:
            w.not_before = time.monotonic() + seconds * 1.5 + 0.01

    # -- thread bodies --------------------------------------------------------
    # Workers run on a pool of persistent daemon threads: creating an OS thread costs
    # milliseconds on a loaded box, waking an idle one does not.  A thread that never
    # comes back (hang) is simply abandoned.
    def _pool_main(self, pt):
        while True:
            job = pt["q"].get()
            if job is None:
                return
            w, gate = job
            w.last_t = time.monotonic()
            if gate is not None:
                gate.wait()
            try:
                w.result = w.fn()
            except BaseException as e:
                w.exc = e
            finally:
                self._by_ident.pop(pt["ident"], None)
                w.done = True
                self._idle.append(pt)
                self._wake.set()

    def _start(self, w, gate=None):
        import queue

        if self._idle:
            pt = self._idle.pop()
        else:
            pt = dict(q=queue.SimpleQueue(), ident=None)
            ready = threading.Event()

            def boot():
                pt["ident"] = threading.get_ident()
                ready.set()
                self._pool_main(pt)

            th = threading.Thread(target=boot, daemon=True, name="vf-sched-%d" % len(self._pool))
            pt["thread"] = th
            self._pool.append(pt)
            th.start()
            ready.wait()
        w.thread = pt["thread"]
        w.ident = pt["ident"]
        w.started = True
        w.last_t = time.monotonic()
        self._by_ident[w.ident] = w
        pt["q"].put((w, gate))

    def _look(self, w, frames, now, seen, timed_ok=False):
        """True when w has made no progress (no LINE event, same top frame and instruction)
        for the window appropriate to what its innermost Python frame is executing: SHORT
        if that source line can block (acquire/wait/os.read/with ...), LONG otherwise.
        ``seen`` maps role -> (key, since)."""
        fr = frames.get(w.ident)
        if fr is None:
            seen.pop(w.role, None)
            return False
        key = (w.n, id(fr), fr.f_lasti)
        prev = seen.get(w.role)
        if prev is None or prev[0] != key:
            seen[w.role] = (key, now, self._is_blocking_line(fr.f_code, fr.f_lineno))
            return False
        if now < w.not_before and not timed_ok:
            return False
        return now - prev[1] >= (self.SHORT if prev[2] else self.LONG)

    def _settle(self, ws, run, seen, final=True):
        """Wait until every started worker in ws is done, parked or blocked.  A worker inside
        an announced timed wait counts as blocked for starting the next thread (final=False)
        but not for releasing the parked one (final=True): there we let the wait expire."""
        t0 = time.monotonic()
        while True:
            now = time.monotonic()
            frames = None
            allok = True
            for w in ws:
                if w.done or w.parked:
                    continue
                if w.ident is None:
                    allok = False
                    continue
                if frames is None:
                    frames = sys._current_frames()
                if not self._look(w, frames, now, seen, timed_ok=not final):
                    allok = False
            if allok:
                return True
            if now - t0 > self.SETTLE_CAP:
                run.settle_timeouts += 1
                return False
            self._wake.clear()
            self._wake.wait(self.POLL)

    def _stacks(self, w):
        fr = sys._current_frames().get(w.ident)
        out = []
        while fr is not None and len(out) < 8:
            out.append("%s:%d %s" % (fr.f_code.co_filename.rsplit("/", 1)[-1], fr.f_lineno, fr.f_code.co_qualname))
            fr = fr.f_back
        return out

    def _join(self, ws, run, on_hang):
        """Join all; a hang = every unfinished worker without progress for HANG seconds in a
        statement that can block (and past any timed wait it announced)."""
        t0 = time.monotonic()
        seen = {}
        rescued = False
        while True:
            live = [w for w in ws if not w.done]
            if not live:
                return
            now = time.monotonic()
            frames = sys._current_frames()
            stuck = True
            for w in live:
                self._look(w, frames, now, seen)
                s = seen.get(w.role)
                if w.parked or s is None or not s[2] or now - s[1] < self.HANG or now < w.not_before + self.HANG:
                    stuck = False  # (a worker still inside the engine's own park loop is never "hung")
            if stuck:
                if not rescued:
                    run.hung = [(w.role, self._stacks(w)) for w in live]
                    rescued = True
                    if on_hang is not None:
                        try:
                            on_hang(run, [w.role for w in live])
                        except Exception as e:
                            run.harness_errors.append("on_hang: %r" % (e,))
                    seen.clear()
                    continue
                run.leaked = True
                return
            if now - t0 > self.JOIN_CAP:
                run.leaked = True
                if not run.hung:
                    run.harness_errors.append("join cap reached without a stable hang: "
                                              + repr([(w.role, self._stacks(w)) for w in live]))
                return
            self._wake.clear()
            self._wake.wait(0.001 if now - t0 < 0.1 else 0.02)

    # -- running a plan ---------------------------------------------------------
    def execute(self, workers, plan, on_hang=None):
        """workers: [(role, callable)].  Returns a Run; the caller judges the state at
        quiescence (all workers joined) - unless run.hung / run.leaked say otherwise."""
        if self.tool is None:
            raise RuntimeError("engine not installed (use `with Engine(...)`) ")
        run = Run(plan)
        ws = [_W(r, f) for r, f in workers]
        byrole = {w.role: w for w in ws}
        self._run = run
        self._by_ident.clear()
        self.stats["runs"] += 1
        self._plan_role, self._plan_k = (plan.park if plan.park is not None else (None, -1))
        self._perturb = plan.perturb is not None
        try:
            if plan.perturb is not None:
                seed = plan.perturb.get("seed", 0)
                probs = plan.perturb.get("prob", {})
                gate = threading.Event()
                for w in ws:
                    w.rng = random.Random("%s/%s" % (seed, w.role))
                    w.prob = probs.get(w.role, 0.3) if isinstance(probs, dict) else float(probs)
                order = list(ws)
                random.Random("%s/order" % seed).shuffle(order)
                for w in order:
                    self._start(w, gate)
                gate.set()
                self._join(ws, run, on_hang)
            else:
                order = [byrole[r] for r in (plan.order or [w.role for w in ws])]
                started = []
                mark = None
                seen = {}
                for i, w in enumerate(order):
                    self._start(w)
                    started.append(w)
                    self._settle(started, run, seen, final=(i == len(order) - 1))
                    if mark is None and plan.park is not None and byrole[plan.park[0]].parked:
                        mark = len(run.trace)
                pw = byrole.get(plan.park[0]) if plan.park is not None else None
                if pw is not None:
                    if pw.parked:
                        run.park_reached = True
                        run.park_at = pw.park_at
                        self.stats["parks"] += 1
                        if mark is None:
                            mark = len(run.trace)
                        run.during_park = list(run.trace[mark:])
                    pw.release.set()
                self._join(ws, run, on_hang)
                if pw is not None and pw.was_parked and not run.park_reached:
                    # reached its k-th event only after the others had settled
                    run.park_at = pw.park_at
        finally:
            for w in ws:
                w.release.set()
            self._plan_role, self._plan_k = None, -1
            self._perturb = False
        for w in ws:
            run.counts[w.role] = w.n
            run.results[w.role] = w.result
            if w.exc is not None:
                run.excs[w.role] = w.exc
        self.stats["line_events"] += len(run.trace)
        self._run = None
        self._by_ident.clear()
        return run

    # -- enumeration --------------------------------------------------------------
    @staticmethod
    def serial_plans(roles):
        import itertools

        return [Plan(order=list(p)) for p in itertools.permutations(roles)]

    @staticmethod
    def sweep_plans(order, counts):
        """All single-preemption plans for one start order: every role that is not last
        in the order, parked at each of its LINE events as counted by the serial run of
        the same order."""
        out = []
        for pos, role in enumerate(order[:-1]):
            for k in range(counts.get(role, 0)):
                out.append(Plan(order=order, park=(role, k)))
        return out
