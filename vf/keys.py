"""Key material for the harness (generated once per process, cached)."""
import functools
import io
import os

import paramiko

from vf.core import TREE

SUPPORT = os.path.join(TREE, "tests", "_support")
TESTS = os.path.join(TREE, "tests")


@functools.lru_cache(None)
def rsa(bits=2048, idx=0):
    if bits == 2048 and idx == 0:
        return paramiko.RSAKey.from_private_key_file(os.path.join(SUPPORT, "rsa.key"))
    return paramiko.RSAKey.generate(bits)


@functools.lru_cache(None)
def ecdsa(bits=256, idx=0):
    if bits == 256 and idx == 0:
        return paramiko.ECDSAKey.from_private_key_file(os.path.join(SUPPORT, "ecdsa-256.key"))
    return paramiko.ECDSAKey.generate(bits=bits)


def ed25519_pem(idx=0):
    """OpenSSH-format private key text for a fresh Ed25519 key (via cryptography)."""
    from cryptography.hazmat.primitives import serialization
    from cryptography.hazmat.primitives.asymmetric.ed25519 import Ed25519PrivateKey

    k = Ed25519PrivateKey.generate()
    return k.private_bytes(
        serialization.Encoding.PEM,
        serialization.PrivateFormat.OpenSSH,
        serialization.NoEncryption(),
    ).decode()


@functools.lru_cache(None)
def ed25519(idx=0):
    if idx == 0:
        return paramiko.Ed25519Key.from_private_key_file(os.path.join(SUPPORT, "ed25519.key"))
    return paramiko.Ed25519Key.from_private_key(io.StringIO(ed25519_pem(idx)))


def hostkey_for(name, idx=0):
    """A private key object able to act as host key for algorithm `name`."""
    if name.startswith("rsa-") or name.startswith("ssh-rsa"):
        return rsa(2048, idx)
    if name.startswith("ecdsa-sha2-nistp"):
        return ecdsa(int(name[len("ecdsa-sha2-nistp"):][:3]), idx)
    if name.startswith("ssh-ed25519"):
        return ed25519(idx)
    raise ValueError(name)


ALL_HOSTKEY_ALGS = (
    "ssh-ed25519",
    "ecdsa-sha2-nistp256",
    "ecdsa-sha2-nistp384",
    "ecdsa-sha2-nistp521",
    "rsa-sha2-512",
    "rsa-sha2-256",
    "ssh-rsa",
)
