"""Validate MANIFEST.json and every evidence file against the harness schemas.
Run with a python that has jsonschema (python3-vt):  python3-vt -m vf.validate"""
import glob
import json
import os
import sys

import jsonschema

HOME = os.path.dirname(os.path.dirname(os.path.abspath(__file__)))


def main():
    bad = 0
    man = json.load(open(os.path.join(HOME, "MANIFEST.json")))
    jsonschema.validate(man, json.load(open("/root/.vp/MANIFEST.schema.json")))
    sch = json.load(open("/root/.vp/EVIDENCE.schema.json"))
    claimed = {c["property_id"]: c for c in man["checks"]}
    for pid, c in sorted(claimed.items()):
        p = os.path.join(HOME, c["evidence_file"])
        if not os.path.exists(p):
            print("MISSING evidence", pid)
            bad += 1
            continue
        ev = json.load(open(p))
        try:
            jsonschema.validate(ev, sch)
        except jsonschema.ValidationError as e:
            print("INVALID", pid, e.message[:200])
            bad += 1
            continue
        if ev["level"] != c["level_claimed"]["category"]:
            print("LEVEL MISMATCH", pid, ev["level"], c["level_claimed"]["category"])
            bad += 1
        if ev.get("violations"):
            print("VIOLATIONS recorded in evidence", pid, ev["coverage"].get("violation_signatures"))
            bad += 1
        if ev["coverage"].get("inconclusive"):
            print("INCONCLUSIVE recorded in evidence", pid, ev["coverage"]["inconclusive"][:1])
            bad += 1
    props = [json.loads(l)["id"] for l in open(os.path.join(HOME, "properties.jsonl")) if l.strip()]
    na = {x["property_id"] for x in man.get("not_applicable", [])}
    for pid in props:
        if pid not in claimed and pid not in na:
            print("UNACCOUNTED", pid)
            bad += 1
    print("manifest ok; %d claimed, %d not_applicable, %d problems" % (len(claimed), len(na), bad))
    return 1 if bad else 0


if __name__ == "__main__":
    sys.exit(main())
