"""C27 differential engine: random file-operation programs executed on a real
local binary file (two twins: unbuffered FileIO and default-buffered) and on a
real `SFTPFile` served by a real `SFTPServer` (vf.sftpbench).

The program is *generated while running on the local twins* (so offsets are
chosen relative to the true size/position, and no op is generated that the
local file would refuse); then the same op list is replayed on the remote
file.  Verdict facts: return value of each call, exception where the local
file returned, final bytes after close().  Localisation facts (used only to
name the mechanism): the real object's state before the op, the server-side
file bytes after the op, and the READ/WRITE requests the op put on the wire.
"""
import os
import time

MODES = ["r", "r+", "w", "w+", "a", "a+", "x"]
READ_MODES = {"r", "r+", "w+", "a+"}
WRITE_MODES = {"r+", "w", "w+", "a", "a+", "x"}
NEEDS_FILE = {"r", "r+"}
ALPHA = b"abcdefghijklmnopqrstuvwxyz0123456789"


# --------------------------------------------------------------------------
# generation
# --------------------------------------------------------------------------
def rand_bytes(rng, n):
    """Bytes with a newline every so often (readline must see lines)."""
    if n == 0:
        return b""
    style = rng.random()
    if style < 0.15:
        return bytes(rng.getrandbits(8) for _ in range(n)) if n < 4096 else rng.randbytes(n)
    nl = rng.choice([3, 7, 20, 80, 700])
    out = bytearray(rng.choice(ALPHA) for _ in range(min(n, 64)))
    while len(out) < n:
        out += out[: n - len(out)]
    for i in range(len(out)):
        if rng.random() * nl < 1:
            out[i] = 10
    if n > 64:
        # make positions distinguishable: stamp a counter every 16 bytes
        for i in range(0, n - 4, 16):
            out[i:i + 4] = b"%04x" % (i // 16 & 0xFFFF)
    return bytes(out)


def pick_size(rng, big):
    r = rng.random()
    if r < 0.1:
        return 0
    if r < 0.6:
        return rng.randint(1, 40)
    if r < 0.9 or not big:
        return rng.randint(1, 600)
    return rng.choice([rng.randint(600, 20000), 32767, 32768, 32769, rng.randint(32768, 90000)])


BUFSIZES = [-1, 0, 1, 2, 3, 4, 5, 8, 16, 64, 1024, 8192, 32768, 65536]


def pick_bufsize(rng):
    r = rng.random()
    if r < 0.75:
        return rng.choice(BUFSIZES)
    return rng.randint(2, 65536) if r < 0.9 else rng.randint(2, 40)


class Twins:
    """The two local reference files, run in lockstep."""

    def __init__(self, dir_a, dir_b, name, mode, init):
        self.pa = os.path.join(dir_a, name)
        self.pb = os.path.join(dir_b, name)
        for p in (self.pa, self.pb):
            if os.path.exists(p):
                os.remove(p)
            if init is not None:
                with open(p, "wb") as f:
                    f.write(init)
        self.a = open(self.pa, mode + "b", buffering=0)
        self.b = open(self.pb, mode + "b")
        self.ambiguous = False

    def do(self, op):
        ra = apply_op(self.a, op, local=True)
        rb = apply_op(self.b, op, local=True)
        if ra != rb:
            self.ambiguous = True
        return ra

    def size(self):
        # twin a is unbuffered: its bytes are on disk
        return os.path.getsize(self.pa)

    def final(self):
        for f in (self.a, self.b):
            if not f.closed:
                f.close()
        with open(self.pa, "rb") as f:
            ca = f.read()
        with open(self.pb, "rb") as f:
            cb = f.read()
        if ca != cb:
            self.ambiguous = True
        return ca


def apply_op(f, op, local=False):
    """Run one op; returns ("ok", value) or ("raise", ExcTypeName, text).
    For mutators only the *effect* is compared (paramiko's write/seek/truncate
    return None by design, io's return counts) so their value is dropped."""
    k = op[0]
    try:
        if k == "read":
            v = f.read() if op[1] is None else f.read(op[1])
        elif k == "readline":
            v = f.readline() if op[1] is None else f.readline(op[1])
        elif k == "readlines":
            v = f.readlines() if op[1] is None else f.readlines(op[1])
        elif k == "write":
            f.write(op[1])
            v = None
        elif k == "seek":
            f.seek(op[1], op[2])
            v = None
        elif k == "tell":
            v = f.tell()
        elif k == "flush":
            f.flush()
            v = None
        elif k == "truncate":
            f.truncate(op[1])
            v = None
        elif k == "close":
            f.close()
            v = None
        elif k == "prefetch":
            # remote-only hint; a local file has nothing to do
            if not local:
                f.prefetch()
            v = None
        else:
            raise AssertionError(k)
    except Exception as e:  # noqa
        return ("raise", type(e).__name__, str(e)[:120], e)
    if local and k in ("read", "readline") and v is None:
        v = b""
    return ("ok", v)


def gen_program(rng, tw, mode, nsteps, big, clean=False):
    """Generate (and run on the twins) a program of <= nsteps ops + close.
    Returns (ops, local_results) or None if a twin raised (not judged).
    `clean=True` produces the stratum that cannot reach a known-defect state:
    a flush before every read*/tell/truncate that follows a write, a
    seek(0, CUR) before every write that follows a read*, reads never after a
    write in a+, no truncate in append modes."""
    can_r = mode in READ_MODES
    can_w = mode in WRITE_MODES
    app = mode in ("a", "a+")
    ops, res = [], []
    pool = {0}  # offsets worth coming back to (positions seen, ends of writes)
    dirty_w = False  # a write happened since the last flush/seek
    dirty_r = False  # a read happened since the last seek
    wrote = False

    def emit(op):
        r = tw.do(op)
        ops.append(op)
        res.append(r[:3])
        return r[0] == "ok"

    for _ in range(nsteps):
        size = tw.size()
        r = tw.a.tell()
        kinds = ["seek", "seek", "tell", "flush"]
        if can_r and not (clean and app and wrote):
            kinds += ["read", "read", "readline", "readline", "readlines", "readall"]
        if can_w:
            kinds += ["write", "write", "write"]
            if not (clean and app):
                kinds += ["truncate"]
        k = rng.choice(kinds)
        pool.add(r)
        if k == "seek":
            wh = rng.choice([0, 0, 1, 2])
            if wh == 0:
                off = rng.choice([0, rng.randint(0, size + 3), rng.randint(0, max(size, 1)), size,
                                  rng.choice(sorted(pool)), rng.choice(sorted(pool))])
            elif wh == 1:
                off = rng.randint(-r, max(size - r, 0) + 3)
            else:
                off = rng.randint(-size, 3)
            op = ("seek", off, wh)
            dirty_w = dirty_r = False
        elif k == "tell":
            if clean and dirty_w:
                if not emit(("flush",)):
                    return None
                dirty_w = False
            op = ("tell",)
        elif k == "flush":
            op = ("flush",)
            dirty_w = False
        elif k in ("read", "readline", "readlines", "readall"):
            if clean and dirty_w:
                if not emit(("flush",)):
                    return None
                dirty_w = False
            left = max(size - r, 0)
            if k == "read":
                n = rng.choice([0, 1, 2, 3, rng.randint(0, 20), rng.randint(0, left + 2), pick_size(rng, big)])
                op = ("read", n)
            elif k == "readall":
                op = ("read", rng.choice([None, -1]))
            elif k == "readline":
                op = ("readline", rng.choice([None, None, -1, 0, 1, 2, rng.randint(0, 30), pick_size(rng, big)]))
            else:
                op = ("readlines", rng.choice([None, None, 1, rng.randint(1, 50), pick_size(rng, big) + 1]))
            dirty_r = True
        elif k == "write":
            if clean and dirty_r:
                if not emit(("seek", 0, 1)):
                    return None
                dirty_r = False
            op = ("write", rand_bytes(rng, pick_size(rng, big)))
            pool.add(r + len(op[1]))
            dirty_w = True
            wrote = True
        elif k == "truncate":
            if clean and dirty_w:
                if not emit(("flush",)):
                    return None
                dirty_w = False
            if clean and dirty_r:
                if not emit(("seek", 0, 1)):
                    return None
                dirty_r = False
            op = ("truncate", rng.choice([0, size, rng.randint(0, size + 5), rng.randint(0, max(size, 1)), r]))
        if not emit(op):
            return None
    if not emit(("close",)):
        return None
    return ops, res


# --------------------------------------------------------------------------
# directed stratum: single reads that need more than one 32768-byte request
# --------------------------------------------------------------------------
BIG_MODES = ["r", "r+", "w+", "a+"]
BIG_BUFSIZES = [8192, -1, 65536, 40000, 0, 2, 32768, 1]
MAXREQ = 32768


def draw_bigread_case(rng, k, name):
    """k walks the product mode x bufsize class x prefetch deterministically."""
    mode = BIG_MODES[k % 4]
    bufsize = BIG_BUFSIZES[(k // 4) % len(BIG_BUFSIZES)]
    prefetch = bool((k // 2 + k // 8) & 1)
    size = rng.choice([65537, 70000, 98304, 131072, rng.randint(65537, 220000)])
    # few newlines: readline()/readlines() then also need several requests per call
    body = bytearray(b"".join(b"%07x|" % i for i in range(size // 8 + 1))[:size])
    for _ in range(rng.choice([0, 1, 3])):
        body[rng.randrange(size)] = 10
    short = rng.choice([None, None, ["fixed", rng.randint(9000, 32767)], ["cycle", [rng.randint(5000, 32768) for _ in range(3)]]])
    return dict(mode=mode, bufsize=bufsize, pipelined=rng.random() < 0.3, big=True, clean=True, name=name, bigread=True,
                prefetch=prefetch, short=short, nsteps=0, content=bytes(body),
                init=None if mode == "w+" else bytes(body))


def gen_bigread_program(rng, tw, case):
    ops, res = [], []
    size = len(case["content"])

    def emit(op):
        r = tw.do(op)
        ops.append(op)
        res.append(r[:3])
        return r[0] == "ok"

    if case["mode"] == "w+":
        cut = rng.choice([size, size // 2, 40000])
        for part in (case["content"][:cut], case["content"][cut:]):
            if part and not emit(("write", part)):
                return None
    if case["mode"] in ("w+", "a+") or rng.random() < 0.3:
        if not emit(("seek", rng.choice([0, 0, rng.randint(0, 5000)]), 0)):
            return None
    if case["prefetch"]:
        emit(("prefetch",))
    for _ in range(rng.randint(2, 4)):
        left = max(size - tw.a.tell(), 0)
        c = rng.random()
        if c < 0.5:
            op = ("read", rng.choice([MAXREQ + 1, 40000, 65536, 65537, rng.randint(MAXREQ + 1, 200000), max(left - 1, MAXREQ + 1)]))
        elif c < 0.7:
            op = ("read", rng.choice([None, -1]))
        elif c < 0.8 and not (1 < case["bufsize"] < 1024):  # readline() fetches bufsize bytes per request
            op = ("readline", rng.choice([None, rng.randint(MAXREQ + 1, 150000)]))
        elif c < 0.87:
            op = ("readlines", None)
        else:
            op = ("seek", rng.randint(0, max(size - MAXREQ - 2, 0)), 0)
        if not emit(op):
            return None
        if op[0] != "seek" and tw.a.tell() >= size and rng.random() < 0.7:
            if not emit(("seek", rng.randint(0, max(size - MAXREQ - 2, 0)), 0)):
                return None
    if not emit(("tell",)) or not emit(("close",)):
        return None
    return ops, res


def result_len(r):
    if r[0] != "ok" or r[1] is None:
        return 0
    if isinstance(r[1], list):
        return max([len(x) for x in r[1]] or [0])
    return len(r[1]) if isinstance(r[1], (bytes, bytearray)) else 0


# --------------------------------------------------------------------------
# remote execution with localisation facts
# --------------------------------------------------------------------------
READ_OPS = ("read", "readline", "readlines")
F_READ, F_WRITE, F_APPEND, F_BUFFERED, F_LINEBUF = 0x1, 0x2, 0x4, 0x20, 0x40


def snap(f):
    return dict(
        flags=f._flags,
        wbuf=f._wbuffer.tell(),
        rbuf=len(f._rbuffer),
        pos=f._pos,
        realpos=f._realpos,
        size=f._size,
    )


def wait_wire_quiet(wire, cap=60.0):
    """All requests answered (needed before looking at the server's disk when
    writes are pipelined).  Returns False if the cap expired."""
    end = time.monotonic() + cap
    while True:
        if len(wire.requests()) <= len(wire.responses()):
            return True
        if time.monotonic() > end:
            return False
        time.sleep(0.0005)


def _rw_events(wire, n0):
    """READ/WRITE requests put on the wire since packet index n0, READs with
    the server's answer (bytes, or the status code)."""
    with wire.plock:
        pk = list(wire.packets[n0:])
    replies = {p["id"]: p for p in pk if p["dir"] == "s2c" and p["id"] is not None}
    evs = []
    for p in pk:
        if p["dir"] != "c2s" or p["type"] not in (5, 6):
            continue
        body = p["body"]
        hl = int.from_bytes(body[4:8], "big")
        off = int.from_bytes(body[8 + hl:16 + hl], "big")
        ln = int.from_bytes(body[16 + hl:20 + hl], "big")
        if p["type"] == 6:
            evs.append(("WRITE", off, ln))
            continue
        rep = replies.get(p["id"])
        ans = None
        if rep is not None:
            if rep["type"] == 103:  # DATA
                dl = int.from_bytes(rep["body"][4:8], "big")
                ans = rep["body"][8:8 + dl]
            elif rep["type"] == 101:  # STATUS
                ans = int.from_bytes(rep["body"][4:8], "big")
        evs.append(("READ", off, ln, ans))
    return evs


def run_remote(bench, name, mode, bufsize, pipelined, ops, repair=False, disk=True):
    """Replay ops on a remote file.  Returns (steps, final_bytes, err).
    steps[i] = dict(op, pre, post, res, wire, disk); `disk` = the server-side
    file bytes after the step when the object holds no pending writes.
    With `repair=True` the harness inserts, on the remote side only, the calls
    that are no-ops for a local file but neutralise the buffer-state defects:
    flush() before read*/tell/truncate when the write buffer is non-empty and
    seek(0, CUR) before write/truncate when read-ahead is buffered."""
    path = os.path.join(bench.root, name)
    steps = []
    wire = getattr(bench, "wire", None)
    try:
        f = bench.client.open("/" + name, mode + "b", bufsize)
    except Exception as e:  # noqa
        return steps, None, ("open", type(e).__name__, str(e)[:120], e)
    if pipelined:
        f.set_pipelined(True)
    for i, op in enumerate(ops):
        if repair:
            s0 = snap(f)
            if s0["wbuf"] and (op[0] in READ_OPS or op[0] in ("tell", "truncate")):
                f.flush()
            if s0["rbuf"] and op[0] in ("write", "truncate"):
                f.seek(0, 1)
        pre = snap(f)
        n0 = len(wire.packets) if wire is not None else 0
        r = apply_op(f, op)
        post = snap(f)
        evs = _rw_events(wire, n0) if wire is not None else []
        dsk = None
        if disk and (wire is not None or not pipelined) and post["wbuf"] == 0:
            if wire is not None and not wait_wire_quiet(wire):
                return steps, None, ("stall", "wire", "requests unanswered after %r" % (op[0],), None)
            try:
                with open(path, "rb") as fh:
                    dsk = fh.read()
            except OSError:
                dsk = None
        steps.append(dict(op=op, pre=pre, post=post, res=r, wire=evs, disk=dsk))
        if r[0] == "raise":
            break
    try:
        f.close()
    except Exception:
        pass
    if wire is not None and not wait_wire_quiet(wire):
        return steps, None, ("stall", "wire", "requests unanswered after close", None)
    try:
        with open(path, "rb") as fh:
            final = fh.read()
    except OSError:
        final = None
    return steps, final, None


def short(v, n=24):
    if isinstance(v, (bytes, bytearray)):
        return "%dB:%r" % (len(v), bytes(v[:n]))
    if isinstance(v, list):
        return "[%d lines] %s" % (len(v), [short(x, 12) for x in v[:3]])
    if isinstance(v, tuple):
        return [short(x, n) for x in v[:4]]
    return repr(v)


def op_desc(op):
    if op[0] == "write":
        return ["write", "%dB" % len(op[1]), op[1][:16].hex()]
    return list(op)


def results_equal(local, remote):
    """local/remote = ("ok", v) | ("raise", type, text[, exc])"""
    if local[0] != remote[0]:
        return False
    if local[0] == "ok":
        return local[1] == remote[1]
    return True


def first_divergence(lres, lsnaps, steps, final_local, final_remote):
    """Index and kind of the first observable difference.
    kind: "value" (return value), "raise" (remote raised, local returned),
    "disk" (server bytes differ from the local twin's bytes at a point where
    the remote object held no pending writes), "final" (only the bytes after
    close differ).  lsnaps[i] = local bytes on disk after step i.
    Verdict facts are value/raise/final; "disk" only localises a later
    final-content difference (a program cut there and closed shows it)."""
    for i, st in enumerate(steps):
        lo, re_ = lres[i], st["res"]
        if not results_equal(lo, re_):
            return i, ("raise" if re_[0] == "raise" else "value")
        if st["disk"] is not None and lsnaps[i] is not None and st["disk"] != lsnaps[i]:
            return i, "disk"
    if final_local != final_remote:
        return len(steps) - 1, "final"
    return None, None


def verdict_divergence(lres, steps, final_local, final_remote):
    """Only what the statement speaks about: return values / exceptions where
    the local file returned / final contents."""
    for i, st in enumerate(steps):
        if not results_equal(lres[i], st["res"]):
            return i, ("raise" if st["res"][0] == "raise" else "value")
    if final_local != final_remote:
        return len(steps) - 1, "final"
    return None, None


def readlines_ambiguous(op, res):
    """CPython's C readlines(hint) stops when the total *exceeds* hint, _pyio
    (and paramiko, and the docs' "approximately") when it *reaches* it.  A
    program in which the two readings differ is not judged."""
    if op[0] != "readlines" or op[1] is None or res[0] != "ok":
        return False
    tot = 0
    for ln in res[1][:-1]:
        tot += len(ln)
        if tot >= op[1]:
            return True
    return False


# --------------------------------------------------------------------------
# mechanism classifier
# --------------------------------------------------------------------------
def mode_class(flags):
    s = ("r" if flags & F_READ else "") + ("w" if flags & F_WRITE else "")
    if flags & F_APPEND:
        s += "+append"
    return s or "none"


def buffer_taint(step):
    """Known buffer-state mechanisms, named from the op kind and the real
    object's state before the call.  None if the step is not in such a state."""
    k, pre = step["op"][0], step["pre"]
    if k == "tell" and pre["wbuf"]:
        return "tell() ignores bytes pending in the write buffer"
    if k in READ_OPS and pre["wbuf"]:
        return "read with writes pending in the write buffer (not flushed first; they land at the post-read offset)"
    if k == "write" and pre["rbuf"]:
        return "write issued with read-ahead buffered lands at _realpos, not at the user position"
    if k == "truncate" and pre["wbuf"]:
        return "truncate() does not flush pending buffered writes first"
    if k == "truncate" and pre["rbuf"]:
        return "truncate() keeps stale read-ahead"
    return None


def generic_sig(step, kind):
    pre = step["pre"]
    r = step["res"]
    what = "raises %s" % r[1] if r[0] == "raise" else {"value": "returns a different value", "disk": "leaves different bytes on the server", "final": "final contents differ"}[kind]
    return "unclassified: %s() %s [mode=%s %s wbuf%s rbuf%s]" % (
        step["op"][0], what, mode_class(pre["flags"]),
        "linebuf" if pre["flags"] & F_LINEBUF else "buffered" if pre["flags"] & F_BUFFERED else "unbuffered",
        ">0" if pre["wbuf"] else "=0", ">0" if pre["rbuf"] else "=0")


def read_reply_mismatch(step):
    """A READ request answered with bytes other than the file's bytes at that
    offset (judged for read-class steps that wrote nothing: disk is stable)."""
    if step["op"][0] not in READ_OPS or step["pre"]["wbuf"] or step["disk"] is None:
        return None
    d = step["disk"]
    for ev in step["wire"]:
        if ev[0] != "READ" or ev[3] is None:
            continue
        _, off, ln, ans = ev
        want = d[off:off + ln]
        if isinstance(ans, (bytes, bytearray)):
            if not want.startswith(bytes(ans)) or (len(ans) == 0):
                return ev
        elif ans == 1 and len(want) > 0:  # SFTP_EOF although bytes exist there
            return ev
    return None


def c31_wipe(steps, lsnaps, upto):
    """A truncate step after which the server file is all zero bytes of the
    right length while the local twin kept its contents."""
    for j in range(upto + 1):
        s = steps[j]
        if s["op"][0] == "truncate" and s["disk"] is not None and lsnaps[j] is not None \
                and s["disk"] != lsnaps[j] and len(s["disk"]) == len(lsnaps[j]) \
                and s["disk"].count(0) == len(s["disk"]):
            return j
    return None


C31_SIG = "truncate(size) zero-fills the file (server set_file_attr reopens with w+, see C31)"


def classify(case, lres, lsnaps, steps, final_local, final_remote, rerun, c31_present=False):
    """Name the mechanism behind a diverging program.  `rerun(True)` replays
    the program with the neutralising calls inserted -> (steps, final, err).
    Returns (signature, step index, kind, extra, steps used)."""
    i, kind = first_divergence(lres, lsnaps, steps, final_local, final_remote)
    st = steps[i]
    # 1. plain 'x': the file object has no write access at all
    if case["mode"] == "x" and st["res"][0] == "raise" and st["op"][0] in ("write", "truncate") \
            and not (st["pre"]["flags"] & F_WRITE):
        return "mode 'x' opens the remote file without write access", i, kind, None, steps
    # 2. truncate that wiped the contents (server-side set_file_attr, C31)
    j = c31_wipe(steps, lsnaps, i)
    if j is not None:
        return C31_SIG, j, "disk", None, steps
    # 3. does the difference vanish when flush()/seek(0,CUR) are inserted?
    taint = None
    for j in range(i + 1):
        taint = buffer_taint(steps[j])
        if taint:
            tj = j
            break
    r_steps, r_final, r_err = rerun(True)
    if r_err is None:
        i2, kind2 = first_divergence(lres, lsnaps, r_steps, final_local, r_final)
        if i2 is None:
            if taint and taint.startswith("tell()"):
                # exact prediction of this mechanism: the value is short by the pending byte count
                t_st = steps[tj]
                if not (t_st["pre"]["flags"] & F_APPEND) and t_st["res"][0] == "ok" and lres[tj][0] == "ok" \
                        and t_st["res"][1] != lres[tj][1] - t_st["pre"]["wbuf"]:
                    taint = "unclassified: tell() with pending writes is off by something other than the pending byte count"
            if taint:
                return taint, tj, kind, None, steps
            return ("unclassified: vanishes when flush()/seek(0,CUR) are inserted, no buffer state seen; "
                    + generic_sig(st, kind)), i, kind, None, steps
        steps, st, i, kind = r_steps, r_steps[i2], i2, kind2
        j = c31_wipe(steps, lsnaps, i)
        if j is not None:
            return C31_SIG, j, "disk", None, steps
    # 4. mechanisms that no client-side call neutralises
    for j in range(i + 1):
        ev = read_reply_mismatch(steps[j])
        if ev is not None:
            app = " on an O_APPEND handle" if steps[j]["pre"]["flags"] & F_APPEND else ""
            return ("server answers READ with bytes that are not the file's bytes at that offset%s "
                    "(SFTPHandle offset cache)" % app), j, "value", dict(read=short(ev)), steps
    if st["pre"]["flags"] & F_APPEND:
        for j in range(i + 1):
            s = steps[j]
            if s["op"][0] == "truncate" and s["res"][0] == "ok":
                return "append mode: size/position bookkeeping stale after truncate()", j, kind, None, steps
    if c31_present:
        # the wipe itself was not observable (no server-bytes snapshot at that
        # step: pipelined over ssh, or truncate(0)) but the tree has the defect
        for j in range(i + 1):
            if steps[j]["op"][0] == "truncate" and steps[j]["res"][0] == "ok":
                return C31_SIG, j, kind, dict(inferred_from_probe=True), steps
    return generic_sig(st, kind), i, kind, dict(repaired=r_err is None), steps


def probe_c31(tmpdir):
    """Direct observation of the tree's SFTPServer.set_file_attr: does a size
    change keep the leading bytes?"""
    from paramiko import SFTPAttributes, SFTPServer

    p = os.path.join(tmpdir, "c31probe")
    with open(p, "wb") as f:
        f.write(b"abcdef")
    a = SFTPAttributes()
    a.st_size = 3
    a._flags = a.FLAG_SIZE
    SFTPServer.set_file_attr(p, a)
    with open(p, "rb") as f:
        got = f.read()
    os.remove(p)
    return got == b"\0\0\0"


# --------------------------------------------------------------------------
# one case = generate on the twins, replay remotely, judge
# --------------------------------------------------------------------------
def draw_case(rng, idx, clean):
    mode = MODES[idx % len(MODES)] if rng.random() < 0.5 else rng.choice(MODES)
    big = rng.random() < 0.12
    init = None
    if mode in NEEDS_FILE or (mode != "x" and rng.random() < 0.8):
        init = rand_bytes(rng, pick_size(rng, big))
    return dict(mode=mode, bufsize=pick_bufsize(rng), pipelined=rng.random() < 0.4, big=big, init=init,
                nsteps=rng.randint(1, 40), clean=clean, name="f%d" % idx)


class LocalRun:
    """Generates the program on the twins, keeping the unbuffered twin's disk
    bytes after every step."""

    def __init__(self, rng, dir_a, dir_b, case):
        self.snaps = []
        tw = Twins(dir_a, dir_b, case["name"], case["mode"], case["init"])
        inner = tw.do

        def do(op):
            r = inner(op)
            try:
                with open(tw.pa, "rb") as fh:
                    self.snaps.append(fh.read())
            except OSError:
                self.snaps.append(None)
            return r

        tw.do = do
        if case.get("bigread"):
            g = gen_bigread_program(rng, tw, case)
        else:
            g = gen_program(rng, tw, case["mode"], case["nsteps"], case["big"], clean=case["clean"])
        self.final = tw.final()
        self.ok = g is not None
        self.ambiguous = tw.ambiguous
        self.ops, self.res = g if g else ([], [])
        if self.ok and any(readlines_ambiguous(o, r) for o, r in zip(self.ops, self.res)):
            self.ambiguous = True
        for p in (tw.pa, tw.pb):
            try:
                os.remove(p)
            except OSError:
                pass


def prepare_remote(root, case):
    rp = os.path.join(root, case["name"])
    if os.path.exists(rp):
        os.remove(rp)
    if case["init"] is not None:
        with open(rp, "wb") as fh:
            fh.write(case["init"])
    return rp


def witness(case, ops, lres, steps, i, kind, extra=None):
    st = steps[i] if steps and i is not None and i < len(steps) else None
    w = dict(mode=case["mode"], bufsize=case["bufsize"], pipelined=case["pipelined"], clean_stratum=case["clean"],
             init=case["init"], ops=[op_desc(o) for o in ops[: (i or 0) + 1]], diverging_step=i, kind=kind)
    if st is not None:
        w.update(local=short(lres[i][:3], 48), remote=short(st["res"][:3], 48), state_before=st["pre"],
                 wire=[short(e) for e in st["wire"][:6]])
    if extra:
        w.update(extra)
    return w
