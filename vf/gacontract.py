"""Contract plumbing for the pure-function checks (C33, C34, C43).

icontract (from /verif/.deps) is used when importable; otherwise an equivalent
minimal decorator is used, so no check depends on the install.  House idiom:
every condition is a *named function*, every contract has an explicit
`error=` producing a `Breach` that carries the condition name (the name is what
ends up in the violation signature, never the values).

    wrapped = ensure_all(fn, [cond_a, cond_b], snapshots={"before": lambda msg: ...})

Conditions take any subset of the function's argument names plus `result` and
`OLD` (exactly icontract's convention).
"""
import functools
import inspect

try:
    import icontract
except Exception:  # pragma: no cover - fallback path
    icontract = None


class Breach(Exception):
    """A postcondition of a monitored paramiko function did not hold."""

    def __init__(self, condition, detail=None):
        Exception.__init__(self, condition)
        self.condition = condition
        self.detail = detail


def _argnames(fn):
    return list(inspect.signature(fn).parameters)


class _Old:
    pass


def _fallback(fn, conds, snapshots):
    sig = inspect.signature(fn)

    @functools.wraps(fn)
    def wrapper(*a, **kw):
        bound = sig.bind(*a, **kw)
        bound.apply_defaults()
        env = dict(bound.arguments)
        old = _Old()
        for name, cap in snapshots.items():
            setattr(old, name, cap(**{k: env[k] for k in _argnames(cap)}))
        result = fn(*a, **kw)
        env["result"] = result
        env["OLD"] = old
        for c in conds:
            if not c(**{k: env[k] for k in _argnames(c)}):
                raise Breach(c.__name__)
        return result

    return wrapper


def ensure_all(fn, conds, snapshots=None, force_fallback=False):
    """Return `fn` wrapped so that every condition in `conds` is checked after
    each call; a failing condition raises Breach(<condition name>)."""
    snapshots = snapshots or {}
    if icontract is None or force_fallback:
        return _fallback(fn, conds, snapshots)
    wrapped = fn
    for c in reversed(conds):
        wrapped = icontract.ensure(c, error=_mk_breach(c.__name__))(wrapped)
    # icontract wants snapshots stacked above (applied after) the postconditions
    for name, cap in snapshots.items():
        wrapped = icontract.snapshot(cap, name=name)(wrapped)
    return wrapped


def _mk_breach(name):
    def error():
        return Breach(name)

    return error


BACKEND = "icontract %s" % getattr(icontract, "__version__", "?") if icontract else "builtin fallback"
