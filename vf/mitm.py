"""Plaintext man-in-the-middle for `vf.net.Link`.

`Packetizer.write_all` hands exactly one SSH packet to one `send`, and the
identification line is a separate `send`, so the link's per-direction
`filter(bytes, index)` sees whole packets.  Before NEWKEYS a packet is
plaintext (RFC 4253 §6: uint32 packet_length, byte padding_length, payload,
padding) and this module parses and re-frames it, so packets can be injected,
deleted or rewritten at chosen positions of either direction.  After the
NEWKEYS of a direction the bytes are ciphertext; the MITM still knows the
packet boundaries, so whole encrypted packets can be dropped (or replayed).

Directions are named like the link's: "ab" = what the client end (`link.a`)
sends, "ba" = what the server end sends.  Packet positions are 0-based and
do not count the identification line.

The MITM keeps its own log (`events`) of what it saw and did; verdicts are
never taken from it, only from the victim's tap.
"""
import os
import struct
import threading

MSG_NEWKEYS = 21


def parse_plain(chunk):
    """payload bytes of one plaintext SSH packet (raises ValueError if the
    chunk is not exactly one well-formed plaintext packet)."""
    if len(chunk) < 8:
        raise ValueError("short packet")
    (plen,) = struct.unpack(">I", chunk[:4])
    if plen + 4 != len(chunk):
        raise ValueError("not one plaintext packet (length field %d, chunk %d)" % (plen, len(chunk)))
    pad = chunk[4]
    if pad + 1 > plen:
        raise ValueError("bad padding length")
    return chunk[5:4 + plen - pad]


def frame(payload, block=8, pad_byte=None):
    """Plaintext wire image of one packet carrying `payload`."""
    pad = block - ((len(payload) + 5) % block)
    if pad < 4:
        pad += block
    padding = os.urandom(pad) if pad_byte is None else bytes([pad_byte]) * pad
    return struct.pack(">IB", len(payload) + pad + 1, pad) + payload + padding


def ssh_string(b):
    if isinstance(b, str):
        b = b.encode()
    return struct.pack(">I", len(b)) + b


def ignore_payload(data=b""):
    return b"\x02" + ssh_string(data)


def debug_payload(text=b"vf"):
    return b"\x04\x00" + ssh_string(text) + ssh_string(b"")


def unimplemented_payload(seq=0):
    return b"\x03" + struct.pack(">I", seq)


def unknown_payload(ptype=192):
    return bytes([ptype]) + b"\x00\x00\x00\x00"


class _Side:
    def __init__(self, name):
        self.name = name
        self.idx = 0  # next plaintext packet position (banner excluded)
        self.banner = None
        self.encrypted = False  # NEWKEYS of this direction has passed
        self.enc_idx = 0  # next ciphertext packet position after NEWKEYS
        self.rules = []
        self.seen = []  # (kind, position, msg type or None, length)


class Mitm:
    """Attach with `Mitm(link)`; then register edits before traffic starts.

    inject(d, k, payloads, where="before")  put plaintext packets next to the
                                     k-th plaintext packet of direction d
                                     (payload bytes, or callable(original
                                     payload) -> list of payloads)
    drop(d, k)                       delete the k-th plaintext packet
    alter(d, fn, k=None, ptype=None) rewrite the first plaintext packet that
                                     matches position k and/or message type;
                                     fn(payload) -> payload | None (None=drop)
    drop_enc(d, j)                   delete the j-th ciphertext packet that
                                     follows this direction's NEWKEYS
    """

    def __init__(self, link):
        self.link = link
        self.lock = threading.Lock()
        self.sides = {"ab": _Side("ab"), "ba": _Side("ba")}
        self.events = []
        link.ab.filter = lambda data, i: self._filter("ab", data)
        link.ba.filter = lambda data, i: self._filter("ba", data)

    # -- registration -----------------------------------------------------
    def inject(self, d, k, payloads, where="before"):
        self.sides[d].rules.append(dict(op="inject", k=k, payloads=payloads, where=where, fired=False))

    def drop(self, d, k):
        self.sides[d].rules.append(dict(op="drop", k=k, fired=False))

    def alter(self, d, fn, k=None, ptype=None):
        self.sides[d].rules.append(dict(op="alter", k=k, ptype=ptype, fn=fn, fired=False))

    def drop_enc(self, d, j):
        self.sides[d].rules.append(dict(op="drop_enc", j=j, fired=False))

    def fired(self, op=None):
        out = []
        for s in self.sides.values():
            for r in s.rules:
                if r["fired"] and (op is None or r["op"] == op):
                    out.append(r)
        return out

    def all_fired(self):
        return all(r["fired"] for s in self.sides.values() for r in s.rules)

    # -- the filter -------------------------------------------------------
    def _note(self, **kw):
        self.events.append(kw)

    def _filter(self, d, data):
        with self.lock:
            s = self.sides[d]
            if s.banner is None and data.startswith(b"SSH-"):
                s.banner = data
                s.seen.append(("banner", None, None, len(data)))
                return [data]
            if s.encrypted:
                j = s.enc_idx
                s.enc_idx += 1
                s.seen.append(("enc", j, None, len(data)))
                for r in s.rules:
                    if r["op"] == "drop_enc" and r["j"] == j and not r["fired"]:
                        r["fired"] = True
                        self._note(d=d, op="drop_enc", j=j, length=len(data))
                        return []
                return [data]
            try:
                payload = parse_plain(data)
            except ValueError as e:
                # not a single plaintext packet: pass through untouched
                s.seen.append(("opaque", s.idx, None, len(data)))
                self._note(d=d, op="opaque", why=str(e))
                s.idx += 1
                return [data]
            k = s.idx
            s.idx += 1
            ptype = payload[0] if payload else None
            s.seen.append(("plain", k, ptype, len(data)))
            out_before, out_after = [], []
            cur = payload
            changed = False
            for r in s.rules:
                if r["fired"]:
                    continue
                if r["op"] == "inject" and r["k"] == k:
                    r["fired"] = True
                    pl = r["payloads"]
                    pl = pl(payload) if callable(pl) else pl
                    if isinstance(pl, (bytes, bytearray)):
                        pl = [pl]
                    (out_before if r["where"] == "before" else out_after).extend(pl)
                    self._note(d=d, op="inject", k=k, where=r["where"], types=[p[0] for p in pl])
                elif r["op"] == "drop" and r["k"] == k:
                    r["fired"] = True
                    cur = None
                    self._note(d=d, op="drop", k=k, type=ptype)
                elif r["op"] == "alter" and (r["k"] is None or r["k"] == k) and (
                    r["ptype"] is None or r["ptype"] == ptype
                ):
                    r["fired"] = True
                    if cur is not None:
                        new = r["fn"](cur)
                        changed = changed or new != cur
                        r["changed"] = new != cur
                        cur = new
                    self._note(d=d, op="alter", k=k, type=ptype, changed=r.get("changed"))
            if ptype == MSG_NEWKEYS and cur is not None:
                s.encrypted = True
            chunks = [frame(p) for p in out_before]
            if cur is not None:
                chunks.append(data if not changed else frame(cur))
            chunks.extend(frame(p) for p in out_after)
            return chunks

    # -- inspection ---------------------------------------------------------
    def plain_types(self, d):
        return [t for kind, k, t, n in self.sides[d].seen if kind == "plain"]

    def banner(self, d):
        b = self.sides[d].banner
        return None if b is None else b.rstrip(b"\r\n")
