"""Monitor self-test: apply a deliberate break to a scratch copy of the tree
(never /repo) and confirm the check fires.

  python -m vf.selftest C39 --patch mutants/C39/zero.diff
  python -m vf.selftest C39 --edit 'paramiko/message.py:::if z != 0 else bytes():::'
  python -m vf.selftest --all            # every mutants/<ID>/*.diff and seeded/<ID>/patch.diff

Exit 0 when every mutant was caught (check exited 1 with a VIOLATION line).
"""
import argparse
import glob
import json
import os
import shutil
import subprocess
import sys
import tempfile
import time

HOME = os.environ.get("VF_HOME") or os.path.dirname(os.path.dirname(os.path.abspath(__file__)))
REPO = os.environ.get("VF_BASE_TREE", "/repo")


def scratch():
    d = tempfile.mkdtemp(prefix="vf-mut-")
    tree = os.path.join(d, "tree")
    shutil.copytree(REPO, tree, ignore=shutil.ignore_patterns(".git", "__pycache__", "*.pyc", "sites", "images"))
    return d, tree


def run_check(prop, tree, tier, seed, timeout=1800):
    env = dict(os.environ, VF_TREE=tree)
    t0 = time.time()
    p = subprocess.run([os.path.join(HOME, "check"), prop, "--tier", tier, "--seed", str(seed), "--no-evidence"],
                       capture_output=True, text=True, env=env, timeout=timeout)
    return p.returncode, p.stdout + p.stderr, time.time() - t0


def one(prop, patch=None, edit=None, tier="quick", seed=0, verbose=False):
    d, tree = scratch()
    try:
        if patch:
            r = subprocess.run(["patch", "-p1", "-s", "-d", tree, "-i", os.path.abspath(patch)],
                               capture_output=True, text=True)
            if r.returncode != 0:
                return dict(prop=prop, mutant=patch, status="patch-failed", out=r.stdout + r.stderr)
        if edit:
            path, old, new = edit.split(":::")
            fp = os.path.join(tree, path)
            src = open(fp).read()
            if src.count(old) != 1:
                return dict(prop=prop, mutant=edit, status="edit-not-unique(%d)" % src.count(old))
            open(fp, "w").write(src.replace(old, new))
        r = subprocess.run([sys.executable, "-B", "-c", "import paramiko"], env=dict(os.environ, PYTHONPATH=tree),
                           capture_output=True, text=True)
        if r.returncode != 0:
            return dict(prop=prop, mutant=patch or edit, status="does-not-import", out=r.stderr[-500:])
        rc, out, wall = run_check(prop, tree, tier, seed)
        sigs = [ln.strip() for ln in out.splitlines() if ln.strip().startswith("signature:")]
        status = "caught" if rc == 1 and "VIOLATION property=%s" % prop in out else (
            "inconclusive" if rc == 2 else "MISSED")
        res = dict(prop=prop, mutant=patch or edit, status=status, rc=rc, wall=round(wall, 1), signatures=sigs[:4])
        if verbose or status != "caught":
            res["out"] = out[-1500:]
        return res
    finally:
        shutil.rmtree(d, ignore_errors=True)


def main():
    ap = argparse.ArgumentParser()
    ap.add_argument("prop", nargs="?")
    ap.add_argument("--patch")
    ap.add_argument("--edit")
    ap.add_argument("--tier", default="quick")
    ap.add_argument("--seed", type=int, default=0)
    ap.add_argument("--all", action="store_true")
    ap.add_argument("-v", action="store_true")
    a = ap.parse_args()
    results = []
    if a.all:
        todo = []
        for p in sorted(glob.glob(os.path.join(HOME, "mutants", "*", "*.diff"))):
            todo.append((os.path.basename(os.path.dirname(p)), p))
        for p in sorted(glob.glob(os.path.join(HOME, "seeded", "*", "patch.diff"))):
            meta = os.path.join(os.path.dirname(p), "meta.json")
            prop = json.load(open(meta))["property"] if os.path.exists(meta) else os.path.basename(os.path.dirname(p))[:3]
            todo.append((prop, p))
        if a.prop:
            todo = [t for t in todo if t[0] == a.prop.upper()]
        for prop, p in todo:
            r = one(prop, patch=p, tier=a.tier, seed=a.seed, verbose=a.v)
            results.append(r)
            print(json.dumps(r))
            sys.stdout.flush()
    else:
        r = one(a.prop.upper(), patch=a.patch, edit=a.edit, tier=a.tier, seed=a.seed, verbose=a.v)
        results.append(r)
        print(json.dumps(r, indent=1))
    bad = [r for r in results if r["status"] != "caught"]
    print("%d mutants, %d caught, %d not" % (len(results), len(results) - len(bad), len(bad)))
    sys.exit(1 if bad else 0)


if __name__ == "__main__":
    main()
