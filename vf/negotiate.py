"""Independent oracle for SSH algorithm negotiation (RFC 4253 §7.1) and a
KEXINIT codec that does not use paramiko (struct only).

`expect(client_kexinit, server_kexinit)` gives, per category, the first name in
the client's advertised list that the server also advertises (None when the
intersection is empty).  Marker pseudo-algorithms (``ext-info-*``,
``kex-strict-*``) are not algorithms and never take part.
"""
import struct

FIELDS = (
    "kex", "key",
    "c2s_cipher", "s2c_cipher",
    "c2s_mac", "s2c_mac",
    "c2s_comp", "s2c_comp",
    "c2s_lang", "s2c_lang",
)
CATS = FIELDS[:8]
MARKER_PREFIXES = ("ext-info-", "kex-strict-")

# which Transport attribute holds the agreed value of a category, per role
ATTR = {
    "client": dict(key="host_key_type",
                   c2s_cipher="local_cipher", s2c_cipher="remote_cipher",
                   c2s_mac="local_mac", s2c_mac="remote_mac",
                   c2s_comp="local_compression", s2c_comp="remote_compression"),
    "server": dict(key="host_key_type",
                   c2s_cipher="remote_cipher", s2c_cipher="local_cipher",
                   c2s_mac="remote_mac", s2c_mac="local_mac",
                   c2s_comp="remote_compression", s2c_comp="local_compression"),
}
# which disabled_algorithms / _preferred_* key governs a category
KIND = dict(kex="kex", key="keys", c2s_cipher="ciphers", s2c_cipher="ciphers",
            c2s_mac="macs", s2c_mac="macs", c2s_comp="compression", s2c_comp="compression")


def is_marker(name):
    return name.startswith(MARKER_PREFIXES)


def parse_kexinit(raw):
    """raw = payload including the type byte (20). Returns {field: [names]}."""
    if raw[0] != 20:
        raise ValueError("not a KEXINIT")
    off = 17
    out = {}
    for f in FIELDS:
        (n,) = struct.unpack_from(">I", raw, off)
        off += 4
        s = raw[off:off + n]
        if len(s) != n:
            raise ValueError("truncated name-list")
        off += n
        text = s.decode("ascii")
        out[f] = text.split(",") if text else []
    out["follows"] = raw[off] != 0
    return out


def build_kexinit(lists, cookie=b"\0" * 16, follows=False, trailing=b""):
    """lists = {field: [names]} (missing fields are empty)."""
    parts = [b"\x14", cookie]
    for f in FIELDS:
        s = ",".join(lists.get(f, [])).encode("ascii")
        parts.append(struct.pack(">I", len(s)) + s)
    parts.append(b"\x01" if follows else b"\x00")
    parts.append(b"\0\0\0\0")
    parts.append(trailing)
    return b"".join(parts)


def expect(client, server):
    """client/server = parsed KEXINITs as advertised. -> {category: name|None}"""
    out = {}
    for cat in CATS:
        cl, sl = client[cat], server[cat]
        if cat == "kex":
            cl = [n for n in cl if not is_marker(n)]
            sl = [n for n in sl if not is_marker(n)]
        offered = set(sl)
        out[cat] = next((c for c in cl if c and c in offered), None)
    return out


def server_first(client, server):
    """What a (wrong) server-preference rule would select."""
    out = {}
    for cat in CATS:
        cl, sl = client[cat], server[cat]
        if cat == "kex":
            cl = [n for n in cl if not is_marker(n)]
            sl = [n for n in sl if not is_marker(n)]
        offered = set(cl)
        out[cat] = next((s for s in sl if s and s in offered), None)
    return out
