"""Scripted attacker: a real paramiko Transport used as a *tool* on the hostile
side.  It performs a genuine key exchange (and optionally authentication) with
an unmodified victim Transport; then `takeover()` replaces its dispatch tables
with catch-all mappings that only record what the victim sends, so arbitrary
crafted messages can be emitted with `send()` without the attacker reacting.

Verdicts are never read from the attacker's own behaviour: the victim's
WireTap, its ServerInterface callbacks and its API results decide.
"""
import threading
import time

import paramiko
from paramiko.common import MSG_KEXINIT, MSG_NEWKEYS
from paramiko.message import Message

from vf import keys, net, tap
from vf.pair import LogServer


def build(ptype, *fields):
    """Message builder. Field encodings: int->uint32, bool->boolean,
    bytes/str->string, list->name-list, ('mpint',n) ('byte',n) ('int64',n)
    ('raw',bytes)."""
    m = Message()
    m.add_byte(bytes([ptype]))
    for f in fields:
        if isinstance(f, bool):
            m.add_boolean(f)
        elif isinstance(f, int):
            m.add_int(f & 0xFFFFFFFF)
        elif isinstance(f, (bytes, str)):
            m.add_string(f)
        elif isinstance(f, list):
            m.add_list(f)
        elif isinstance(f, tuple):
            k, v = f
            if k == "mpint":
                m.add_mpint(v)
            elif k == "byte":
                m.add_byte(bytes([v]))
            elif k == "int64":
                m.add_int64(v)
            elif k == "raw":
                m.add_bytes(v)
            else:
                raise ValueError(k)
        else:
            raise TypeError(f)
    return m


class _CatchAll(dict):
    """Dispatch table that claims to handle everything (except what `keep`
    still routes to the real handlers, i.e. re-key traffic)."""

    def __init__(self, real, keep, sink, channel_style=False):
        super().__init__()
        self.real = dict(real)
        self.keep = set(keep)
        self.sink = sink
        self.channel_style = channel_style

    def __contains__(self, k):
        if self.channel_style:
            return False
        return True

    def __getitem__(self, k):
        if k in self.keep and k in self.real:
            return self.real[k]
        return lambda m, _k=k: self.sink(_k, m)


class Attacker:
    """role='client': attacker is the SSH client, victim is a server Transport.
    role='server': attacker is the SSH server, victim is a client Transport."""

    def __init__(self, role, rng=None, victim_kw=None, attacker_kw=None, victim_server=None,
                 host_keys=None, recorder=None, link=None, victim_cls=paramiko.Transport):
        self.role = role
        self.rec = recorder or tap.Recorder()
        self.link = link or net.Link(rng)
        vkw = dict(victim_kw or {})
        akw = dict(attacker_kw or {})
        vkw.setdefault("packetizer_class", tap.make_tap(self.rec, "v"))
        akw.setdefault("packetizer_class", tap.make_tap(self.rec, "a"))
        self.inbox = []
        self.inbox_cv = threading.Condition()
        self.host_keys = host_keys or [keys.rsa()]
        if role == "client":
            self.att = paramiko.Transport(self.link.a, **akw)
            self.victim = victim_cls(self.link.b, **vkw)
            self.vserver = victim_server or LogServer(self.rec)
            for k in self.host_keys:
                self.victim.add_server_key(k)
        else:
            self.victim = victim_cls(self.link.a, **vkw)
            self.att = paramiko.Transport(self.link.b, **akw)
            self.aserver = LogServer(self.rec)
            for k in self.host_keys:
                self.att.add_server_key(k)
        self.victim_exc = None
        self.taken = False

    # ------------------------------------------------------------------
    def start(self, auth=True, timeout=20):
        """Real handshake (+ real password auth). True on success."""
        ev = threading.Event()
        if self.role == "client":
            self.victim.start_server(event=ev, server=self.vserver)
            try:
                self.att.start_client(timeout=timeout)
            except Exception as e:
                self.att_exc = e
                return False
            ev.wait(timeout)
            if auth:
                try:
                    self.att.auth_password("u", "pw")
                except Exception as e:
                    self.att_exc = e
                    return False
                return self.att.is_authenticated() and self.victim.is_active()
            return self.victim.is_active()
        else:
            self.att.start_server(event=ev, server=self.aserver)
            try:
                self.victim.start_client(timeout=timeout)
            except Exception as e:
                self.victim_exc = e
                return False
            ev.wait(timeout)
            if auth:
                try:
                    self.victim.auth_password("u", "pw")
                except Exception as e:
                    self.victim_exc = e
                    return False
                return self.victim.is_authenticated()
            return self.att.is_active()

    def _sink(self, ptype, m):
        with self.inbox_cv:
            self.inbox.append(dict(type=ptype, payload=m.asbytes(), seq=getattr(m, "seqno", None),
                                   t=time.monotonic()))
            self.inbox_cv.notify_all()

    def takeover(self, keep=(MSG_KEXINIT, MSG_NEWKEYS)):
        """From now on the attacker records instead of reacting (re-key traffic
        still reaches the real handlers so the victim may rekey)."""
        a = self.att
        a._handler_table = _CatchAll(a._handler_table, keep, self._sink)
        a._channel_handler_table = _CatchAll({}, (), self._sink, channel_style=True)
        a._ensure_authed = lambda ptype, message: None
        self.taken = True

    # ------------------------------------------------------------------
    def send(self, ptype, *fields):
        return self.send_msg(build(ptype, *fields))

    def send_msg(self, m):
        """Send a crafted message; returns the sequence number it went out with."""
        before = len(self.rec.events)
        self.att._send_message(m)
        for e in self.rec.snapshot()[before:]:
            if e.get("kind") == "msg" and e["side"] == "a" and e["dir"] == "out":
                return e["seq"]
        return None

    def wait_inbox(self, pred, timeout=3.0, start=0):
        end = time.monotonic() + timeout
        with self.inbox_cv:
            while True:
                for i in range(start, len(self.inbox)):
                    if pred(self.inbox[i]):
                        return self.inbox[i]
                left = end - time.monotonic()
                if left <= 0:
                    return None
                self.inbox_cv.wait(left)

    def inbox_mark(self):
        with self.inbox_cv:
            return len(self.inbox)

    def victim_msgs(self, direction="out", types=None, since=0):
        out = []
        for e in self.rec.snapshot():
            if e.get("kind") == "msg" and e["side"] == "v" and e["dir"] == direction and e["n"] >= since:
                if types is None or e["type"] in types:
                    out.append(e)
        return out

    def mark(self):
        with self.rec.lock:
            return len(self.rec.events) and self.rec.events[-1]["n"] + 1 or 0

    def probe_alive(self, timeout=3.0):
        """Liveness probe: send an unanswerable-by-table global request with
        want_reply; a live victim answers REQUEST_FAILURE/SUCCESS (80-82)."""
        start = self.inbox_mark()
        try:
            self.send(80, "vf-probe@verif", True)
        except Exception:
            return False
        r = self.wait_inbox(lambda e: e["type"] in (81, 82), timeout, start)
        return r is not None and self.victim.is_active()

    def close(self):
        for t in (self.att, self.victim):
            try:
                t.close()
            except Exception:
                pass
