"""Exception sanitizer for the "no internal error escapes" properties (C38).

Observation only:

* `watched(cls)` returns a Transport subclass whose `saved_exception`
  attribute is a recording property: every non-None value the library stores
  there (what `get_exception()` would hand to the application at that moment)
  is kept in `._vf_seen`, so that an API call consuming it with
  `get_exception()` (which clears it) cannot hide it.  No behaviour changes.
* `api(...)` runs one public call in the calling thread and returns
  `(result, exception)`.
* `classify(exc)` -> allowed?  `signature(exc)` -> mechanism string
  `ExcType@module.function[->callee][<-module.parser][<-module.handler]` built
  from the innermost frames inside `paramiko/` (core.exc_signature), extended
  with the nearest enclosing *parser* frame when the raise site is a shared
  decoding helper (`message.py`, `util.py`), and with the protocol handler when
  that parser is one of the key classes (shared by kex and userauth): the
  helper is where it raises, the outer frames say which peer field was trusted
  by whom.  Never contains values, lengths or seeds.
"""
import os
import re
import socket
import threading
import traceback

import paramiko

from vf import core

HELPER_MODULES = ("message", "util")  # decoding helpers
KEY_MODULES = ("pkey", "rsakey", "ecdsakey", "ed25519key", "dsskey")  # blob parsers shared by kex and userauth
_VF_ROOT = os.path.dirname(os.path.abspath(__file__)) + os.sep

ALLOWED = (paramiko.SSHException, EOFError, OSError, socket.error)


def allowed(exc):
    return isinstance(exc, ALLOWED)


def _frames(exc):
    tb = exc.__traceback__
    return traceback.extract_tb(tb) if tb is not None else []


def harness_fault(exc):
    """True when the raise site is harness code (vf/...), i.e. not a verdict."""
    fr = _frames(exc)
    return bool(fr) and fr[-1].filename.startswith(_VF_ROOT)


_IDENT = re.compile(r"'([A-Za-z_][A-Za-z0-9_.]*)'")


def _named(exc):
    """For exceptions whose message names a program identifier (not data), keep
    it: `origin_addr` vs `reason` in the same function are different defects."""
    if isinstance(exc, (UnboundLocalError, NameError)):
        m = _IDENT.findall(str(exc))
        return "[%s]" % m[-1] if m else ""
    if isinstance(exc, AttributeError):
        m = _IDENT.findall(str(exc))
        return "[%s]" % ".".join(m[-2:]) if m else ""
    return ""


def signature(exc, tree=None):
    base = core.exc_signature(exc, tree)
    if "->" in base:
        head, callee = base.split("->", 1)
        base = head + _named(exc) + "->" + callee
    else:
        base += _named(exc)
    root = os.path.join(tree or core.TREE, "paramiko") + os.sep
    pf = [f for f in _frames(exc) if f.filename.startswith(root)]
    if not pf:
        return base
    mods = [os.path.basename(f.filename)[:-3] for f in pf]
    sig = base
    i = len(pf) - 1
    if mods[i] in HELPER_MODULES:
        # which parser handed peer bytes to the decoding helper
        while i >= 0 and mods[i] in HELPER_MODULES:
            i -= 1
        if i < 0:
            return sig
        sig += "<-%s.%s" % (mods[i], pf[i].name)
    if mods[i] in KEY_MODULES:
        # which protocol handler handed a peer blob to the key classes
        while i >= 0 and mods[i] in KEY_MODULES + HELPER_MODULES:
            i -= 1
        if i >= 0:
            sig += "<-%s.%s" % (mods[i], pf[i].name)
    return sig


def describe(exc):
    return "%s: %s" % (type(exc).__name__, str(exc)[:160])


def tb_excerpt(exc, n=6):
    out = []
    for f in _frames(exc)[-n:]:
        out.append("%s:%d %s" % (os.path.basename(f.filename), f.lineno, f.name))
    return out


def watched(cls=paramiko.Transport):
    class Watched(cls):
        @property
        def saved_exception(self):
            return self.__dict__.get("_vf_saved")

        @saved_exception.setter
        def saved_exception(self, v):
            self.__dict__["_vf_saved"] = v
            if v is not None:
                seen = self.__dict__.setdefault("_vf_seen", [])
                if not any(v is s for s in seen):
                    seen.append(v)

    Watched.__name__ = "Watched" + cls.__name__
    return Watched


def seen(transport):
    """Every exception object ever stored in saved_exception (recording
    subclass) plus whatever is there now."""
    out = list(transport.__dict__.get("_vf_seen", []))
    cur = transport.saved_exception
    if cur is not None and not any(cur is s for s in out):
        out.append(cur)
    return out


def api(fn, *a, **kw):
    """Run a public call in this thread. Returns (result, exc)."""
    try:
        return fn(*a, **kw), None
    except Exception as e:  # noqa: the sanitizer's whole point
        return None, e


class ApiThread(threading.Thread):
    """Public API call on its own application thread (the victim's caller),
    so the driver can answer it as the hostile peer meanwhile."""

    def __init__(self, name, fn, *a, **kw):
        super().__init__(daemon=True, name="vf-api-" + name)
        self.api_name = name
        self.fn, self.a, self.kw = fn, a, kw
        self.result = None
        self.exc = None
        self.done = threading.Event()
        self.start()

    def run(self):
        try:
            self.result = self.fn(*self.a, **self.kw)
        except Exception as e:  # noqa
            self.exc = e
        finally:
            self.done.set()
