"""A small grammar of the SSH transport / userauth / connection messages and a
per-field mutation engine (used by the C38 protocol fuzzer).

A template is `T(name, ptype, [F(field_name, kind, value), ...])`.  Kinds:

  byte bool u32 count chan   fixed-size integers (`count` drives a loop in the
                             parser, `chan` is a recipient channel number)
  str                        RFC 4251 string holding opaque bytes
  text                       RFC 4251 string the parser decodes as UTF-8
  list                       name-list
  mpint                      multiple precision integer (value = int)
  raw                        bytes copied as they are (cookie, nested encodings)

`mutants(tmpl, rng)` enumerates labelled byte strings (payload including the
type byte).  The *set of labels* is a function of the template only; the rng
only fills in random content (tails, random integers), so labels can be used
as case fingerprints and in witnesses.
"""
import struct


class F:
    __slots__ = ("name", "kind", "value")

    def __init__(self, name, kind, value):
        self.name, self.kind, self.value = name, kind, value


class T:
    __slots__ = ("name", "ptype", "fields", "tags")

    def __init__(self, name, ptype, fields, tags=()):
        self.name, self.ptype, self.fields, self.tags = name, ptype, list(fields), tuple(tags)


def _b(v):
    return v.encode("utf-8") if isinstance(v, str) else bytes(v)


def u32(n):
    return struct.pack(">I", n & 0xFFFFFFFF)


def sstr(v):
    v = _b(v)
    return u32(len(v)) + v


def mpint_bytes(n):
    if n == 0:
        return b""
    if n > 0:
        return n.to_bytes(n.bit_length() // 8 + 1, "big", signed=True)
    return n.to_bytes((~n).bit_length() // 8 + 1, "big", signed=True)


def enc(kind, value):
    if kind == "byte":
        return bytes([value & 0xFF])
    if kind == "bool":
        return b"\x01" if value else b"\x00"
    if kind in ("u32", "count", "chan"):
        return u32(value)
    if kind in ("str", "text"):
        return sstr(value)
    if kind == "list":
        return sstr(",".join(value))
    if kind == "mpint":
        return sstr(mpint_bytes(value))
    if kind == "raw":
        return _b(value)
    raise ValueError(kind)


def build(ptype, fields):
    return bytes([ptype]) + b"".join(enc(f.kind, f.value) for f in fields)


def payload(tmpl):
    return build(tmpl.ptype, tmpl.fields)


BAD_UTF8 = (
    b"\xff",
    b"\xc3\x28",
    b"abc\x80",
    b"\xed\xa0\x80",
    b"\xf8\x88\x80\x80\x80",
    b"ssh-\xfe\xff,none",
)
STRINGY = ("str", "text", "list", "mpint")
INT_EDGES = (0, 1, 2, 0x7FFFFFFF, 0x80000000, 0xFFFFFFFE, 0xFFFFFFFF)
# a `count` drives a parser loop: keep it bounded (a 2^32 loop is a CPU-time
# problem, not an exception-type problem, and would wedge the shard)
COUNT_EDGES = (0, 1, 2, 3, 255, 4000, 70000)


def _enc_parts(tmpl):
    return [enc(f.kind, f.value) for f in tmpl.fields]


def mutants(tmpl, rng, rich=True):
    """-> list of (label, payload bytes). First entry is the valid message."""
    tb = bytes([tmpl.ptype])
    parts = _enc_parts(tmpl)
    n = len(parts)
    out = []

    def put(op, i, body):
        fname = tmpl.fields[i].name if i is not None and i < n else "end"
        label = "%s/%s" % (tmpl.name, op) if i is None else "%s/%s@%d:%s" % (tmpl.name, op, i, fname)
        out.append((label, tb + body))

    def splice(i, repl):
        return b"".join(parts[:i]) + repl + b"".join(parts[i + 1:])

    put("valid", None, b"".join(parts))
    # truncation at every field boundary
    for i in range(n):
        put("cut", i, b"".join(parts[:i]))
    # random tail after a valid message
    put("tail", None, b"".join(parts) + rng.randbytes(rng.choice((1, 3, 4, 5, 17, 64))))
    put("tail-string", None, b"".join(parts) + sstr(b"\xff\xfeextra"))
    for i, f in enumerate(tmpl.fields):
        k = f.kind
        p = parts[i]
        if k in STRINGY:
            data = p[4:]
            # cut inside the length prefix / inside the data
            put("cut-in-len", i, b"".join(parts[:i]) + p[:2])
            if len(data) >= 2:
                put("cut-in-data", i, b"".join(parts[:i]) + p[: 4 + len(data) // 2])
            put("empty", i, splice(i, sstr(b"")))
            # length prefix lies: claims more than there is
            put("len+1", i, splice(i, u32(len(data) + 1) + data))
            put("len=2^20", i, splice(i, u32(1 << 20) + data))
            put("len=2^31", i, splice(i, u32(1 << 31) + data))
            put("len=max", i, splice(i, u32(0xFFFFFFFF) + data))
            put("len-short", i, splice(i, u32(max(0, len(data) - 1)) + data))
            # invalid UTF-8 wherever a parser may decode
            for j, bad in enumerate(BAD_UTF8 if (rich or k != "str") else BAD_UTF8[:2]):
                if k == "mpint" and j > 1:
                    break
                put("badutf8.%d" % j, i, splice(i, sstr(bad)))
            if k != "mpint":
                put("badutf8-suffix", i, splice(i, sstr(data + b"\xc0")))
                put("nul", i, splice(i, sstr(data[:1] + b"\x00" + data[1:])))
            put("long", i, splice(i, sstr(bytes(b & 0x7F or 0x41 for b in rng.randbytes(9000)))))
            put("random", i, splice(i, sstr(rng.randbytes(rng.choice((1, 4, 7, 32, 300))))))
            # wrong type: an integer / boolean where a string is expected
            put("as-u32", i, splice(i, u32(rng.getrandbits(32))))
            put("as-bool", i, splice(i, b"\x01"))
        if k == "list":
            put("list-empty-names", i, splice(i, sstr(b",,,")))
            put("list-huge", i, splice(i, sstr(",".join("alg%d@x" % z for z in range(6000)))))
            put("list-one-long", i, splice(i, sstr("a" * 70000)))
            put("list-trailing-comma", i, splice(i, sstr(p[4:] + b",")))
        if k == "mpint":
            put("mpint-zero", i, splice(i, sstr(b"")))
            put("mpint-zero-noncanon", i, splice(i, sstr(b"\x00")))
            put("mpint-one", i, splice(i, sstr(b"\x01")))
            put("mpint-neg", i, splice(i, sstr(b"\x80" + p[5:] if len(p) > 5 else b"\xff")))
            put("mpint-minus1", i, splice(i, sstr(b"\xff")))
            put("mpint-leading-zeros", i, splice(i, sstr(b"\x00\x00\x00" + p[4:])))
            put("mpint-huge", i, splice(i, sstr(b"\x7f" + rng.randbytes(1100))))
        if k in ("u32", "chan"):
            for e in INT_EDGES:
                put("int=%#x" % e, i, splice(i, u32(e)))
            put("int=random", i, splice(i, u32(rng.getrandbits(32))))
            put("as-string", i, splice(i, sstr(b"abc")))
            put("as-byte", i, splice(i, b"\x07"))
        if k == "count":
            for e in COUNT_EDGES:
                put("count=%d" % e, i, splice(i, u32(e)))
            put("as-string", i, splice(i, sstr(b"abc")))
        if k == "bool":
            for e in (0, 1, 2, 0xFF):
                put("bool=%d" % e, i, splice(i, bytes([e])))
            put("as-string", i, splice(i, sstr(b"true")))
            put("as-u32", i, splice(i, u32(1)))
        if k == "byte":
            for e in (0, 1, 0x7F, 0x80, 0xFF):
                put("byte=%d" % e, i, splice(i, bytes([e])))
        if k == "raw":
            if len(p) > 1:
                put("raw-short", i, splice(i, p[: len(p) // 2]))
            put("raw-random", i, splice(i, rng.randbytes(len(p))))
        # structural: drop / duplicate the field
        put("drop", i, splice(i, b""))
        put("dup", i, splice(i, p + p))
    put("random-body", None, rng.randbytes(rng.choice((1, 2, 5, 8, 23, 90))))
    put("type-only", None, b"")
    return out


def sweep_bodies(rng):
    """Bodies for the message-type sweep (every type number)."""
    return [
        ("empty", b""),
        ("u32", u32(rng.getrandbits(32))),
        ("string", sstr(b"vf") + b"\x01"),
        ("badutf8-string", sstr(b"\xff\xfe") + b"\x01" + u32(0)),
        ("random", rng.randbytes(rng.choice((3, 9, 40)))),
        ("zeros", b"\x00" * 24),
    ]


def frame(payload_bytes, block=8, padlen=None, length=None, padbyte=0, extra_pad=0):
    """Plaintext RFC 4253 binary packet. `padlen`/`length` override the honest
    values (degenerate framing)."""
    honest_pad = 3 + block - ((len(payload_bytes) + 8) % block) + extra_pad * block
    pad = honest_pad if padlen is None else padlen
    body = bytes([pad & 0xFF]) + payload_bytes + bytes([padbyte]) * honest_pad
    ln = len(body) if length is None else length
    return u32(ln) + body


# ---------------------------------------------------------------------------
# Message catalogue.  `env` supplies the session-dependent values:
#   rc   recipient channel (the victim's local channel number)
#   sc   sender channel (ours)
#   user, pk_alg, pk_blob, pk_sig (bytes; publickey request)

CHANNEL_KINDS = ("session", "direct-tcpip", "forwarded-tcpip", "x11", "auth-agent@openssh.com", "bogus@vf")
GLOBAL_KINDS = ("tcpip-forward", "cancel-tcpip-forward", "keepalive@openssh.com", "hostkeys-00@openssh.com")
AUTH_METHODS = ("none", "password", "publickey", "keyboard-interactive", "hostbased", "gssapi-with-mic",
                "gssapi-keyex", "bogus")


def t_transport_generic():
    return [
        T("disconnect", 1, [F("code", "u32", 11), F("desc", "text", "bye"), F("lang", "text", "en")]),
        T("ignore", 2, [F("data", "str", b"xyz")]),
        T("unimplemented", 3, [F("seq", "u32", 3)]),
        T("debug", 4, [F("display", "bool", True), F("msg", "text", "dbg"), F("lang", "text", "en")]),
        T("newkeys", 21, []),
    ]


def t_ext_info():
    return [
        T("ext-info", 7, [F("n", "count", 2), F("name0", "text", "server-sig-algs"),
                          F("val0", "str", "ssh-ed25519,rsa-sha2-512,rsa-sha2-256,ssh-rsa"),
                          F("name1", "text", "no-flow-control"), F("val1", "str", "p")]),
    ]


def t_service(kind):
    ptype = 5 if kind == "request" else 6
    return [T("service-%s:%s" % (kind, s), ptype, [F("service", "text", s)])
            for s in ("ssh-userauth", "ssh-connection", "bogus")]


def t_userauth_requests(env):
    user = env.get("user", "u")
    out = []
    for m in AUTH_METHODS:
        fs = [F("user", "text", user), F("service", "text", "ssh-connection"), F("method", "text", m)]
        if m == "password":
            fs += [F("change", "bool", False), F("password", "str", "wrong-pw")]
        elif m == "publickey":
            # one template per user key type when the caller supplies several
            for alg, blob, sig in env.get("pks", ()):
                out.append(T("userauth-request:publickey-" + alg, 50, fs + [
                    F("has_sig", "bool", True), F("alg", "text", alg), F("blob", "str", blob), F("sig", "str", sig)]))
            fs += [F("has_sig", "bool", True), F("alg", "text", env["pk_alg"]), F("blob", "str", env["pk_blob"]),
                   F("sig", "str", env["pk_sig"])]
        elif m == "keyboard-interactive":
            fs += [F("lang", "str", ""), F("submethods", "str", "pam")]
        elif m == "hostbased":
            fs += [F("alg", "text", env["pk_alg"]), F("blob", "str", env["pk_blob"]), F("host", "text", "h.example"),
                   F("luser", "text", "root"), F("sig", "str", env["pk_sig"])]
        elif m == "gssapi-with-mic":
            fs += [F("n", "count", 1), F("oid", "str", b"\x06\x09\x2a\x86\x48\x86\xf7\x12\x01\x02\x02")]
        elif m == "gssapi-keyex":
            fs += [F("mic", "str", b"\x01\x02\x03")]
        out.append(T("userauth-request:" + m, 50, fs))
    # variants that steer into other branches
    out.append(T("userauth-request:password-change", 50, [
        F("user", "text", user), F("service", "text", "ssh-connection"), F("method", "text", "password"),
        F("change", "bool", True), F("password", "str", "old"), F("newpassword", "str", "new")]))
    out.append(T("userauth-request:publickey-query", 50, [
        F("user", "text", user), F("service", "text", "ssh-connection"), F("method", "text", "publickey"),
        F("has_sig", "bool", False), F("alg", "text", env["pk_alg"]), F("blob", "str", env["pk_blob"])]))
    out.append(T("userauth-request:other-service", 50, [
        F("user", "text", user), F("service", "text", "ssh-bogus"), F("method", "text", "none")]))
    return out


def t_userauth_server_side_extra():
    return [
        T("userauth-info-response", 61, [F("n", "count", 2), F("r0", "text", "answer"), F("r1", "text", "42")]),
        T("userauth-gssapi-token", 61, [F("token", "str", b"\x60\x06token")]),
        T("userauth-gssapi-mic", 66, [F("mic", "str", b"\x01\x02")]),
        T("userauth-gssapi-exchange-complete", 63, []),
        T("userauth-gssapi-error", 64, [F("maj", "u32", 1), F("min", "u32", 2), F("msg", "text", "err"),
                                        F("lang", "text", "en")]),
        T("userauth-gssapi-errtok", 65, [F("token", "str", b"\x01")]),
    ]


def t_userauth_replies(env):
    return [
        T("userauth-failure", 51, [F("methods", "list", ["publickey", "password", "keyboard-interactive"]),
                                   F("partial", "bool", False)]),
        T("userauth-failure:partial", 51, [F("methods", "list", ["password"]), F("partial", "bool", True)]),
        T("userauth-failure:other", 51, [F("methods", "list", ["hostbased"]), F("partial", "bool", False)]),
        T("userauth-success", 52, []),
        T("userauth-banner", 53, [F("msg", "text", "welcome\n"), F("lang", "text", "en")]),
        T("userauth-info-request", 60, [F("name", "text", "title"), F("instructions", "text", "do it"),
                                        F("lang", "str", ""), F("n", "count", 2),
                                        F("prompt0", "text", "Password: "), F("echo0", "bool", False),
                                        F("prompt1", "text", "OTP: "), F("echo1", "bool", True)]),
        T("userauth-pk-ok", 60, [F("alg", "text", env["pk_alg"]), F("blob", "str", env["pk_blob"])]),
    ]


def t_global(env):
    out = []
    for k in GLOBAL_KINDS + ("bogus@vf",):
        fs = [F("kind", "text", k), F("want_reply", "bool", True)]
        if k in ("tcpip-forward", "cancel-tcpip-forward"):
            fs += [F("address", "text", "127.0.0.1"), F("port", "u32", 0)]
        out.append(T("global-request:" + k, 80, fs))
    out.append(T("request-success", 81, [F("port", "u32", 4022)]))
    out.append(T("request-success:empty", 81, []))
    out.append(T("request-failure", 82, []))
    return out


def t_channel_open(env):
    out = []
    for k in CHANNEL_KINDS:
        fs = [F("kind", "text", k), F("sender", "u32", env.get("sc", 7)), F("window", "u32", 2097152),
              F("maxpacket", "u32", 32768)]
        if k in ("direct-tcpip", "forwarded-tcpip"):
            fs += [F("addr1", "text", "127.0.0.1"), F("port1", "u32", 80), F("addr2", "text", "10.0.0.1"),
                   F("port2", "u32", 50000)]
        elif k == "x11":
            fs += [F("origin", "text", "10.0.0.2"), F("port", "u32", 6010)]
        out.append(T("channel-open:" + k, 90, fs))
    return out


def t_channel_open_replies(env):
    rc = env.get("rc", 0)
    return [
        T("channel-open-confirmation", 91, [F("rc", "chan", rc), F("sender", "u32", env.get("sc", 7)),
                                            F("window", "u32", 2097152), F("maxpacket", "u32", 32768)]),
        T("channel-open-failure", 92, [F("rc", "chan", rc), F("reason", "u32", 1), F("desc", "text", "no"),
                                       F("lang", "text", "en")]),
    ]


CHANNEL_REQUESTS = ("pty-req", "x11-req", "env", "shell", "exec", "subsystem", "window-change", "xon-xoff",
                    "signal", "exit-status", "exit-signal", "auth-agent-req@openssh.com", "break",
                    "eow@openssh.com", "bogus@vf")


def t_channel(env):
    rc = env.get("rc", 0)
    out = [
        T("channel-window-adjust", 93, [F("rc", "chan", rc), F("bytes", "u32", 1000)]),
        T("channel-data", 94, [F("rc", "chan", rc), F("data", "str", b"hello")]),
        T("channel-extended-data", 95, [F("rc", "chan", rc), F("code", "u32", 1), F("data", "str", b"oops")]),
        T("channel-eof", 96, [F("rc", "chan", rc)]),
        T("channel-close", 97, [F("rc", "chan", rc)]),
        T("channel-success", 99, [F("rc", "chan", rc)]),
        T("channel-failure", 100, [F("rc", "chan", rc)]),
    ]
    for name in CHANNEL_REQUESTS:
        fs = [F("rc", "chan", rc), F("request", "text", name), F("want_reply", "bool", True)]
        if name == "pty-req":
            fs += [F("term", "str", "vt100"), F("cols", "u32", 80), F("rows", "u32", 24), F("w", "u32", 0),
                   F("h", "u32", 0), F("modes", "str", b"\x00")]
        elif name == "x11-req":
            fs += [F("single", "bool", False), F("proto", "text", "MIT-MAGIC-COOKIE-1"),
                   F("cookie", "str", "0123456789abcdef"), F("screen", "u32", 0)]
        elif name == "env":
            fs += [F("name", "str", "LANG"), F("value", "str", "C")]
        elif name == "exec":
            fs += [F("command", "str", "true")]
        elif name == "subsystem":
            fs += [F("name", "text", "sftp")]
        elif name == "window-change":
            fs += [F("cols", "u32", 100), F("rows", "u32", 30), F("w", "u32", 0), F("h", "u32", 0)]
        elif name == "xon-xoff":
            fs += [F("can_do", "bool", True)]
        elif name == "signal":
            fs += [F("signame", "text", "TERM")]
        elif name == "exit-status":
            fs += [F("status", "u32", 3)]
        elif name == "exit-signal":
            fs += [F("signame", "text", "KILL"), F("core", "bool", False), F("msg", "text", "killed"),
                   F("lang", "text", "en")]
        elif name == "break":
            fs += [F("ms", "u32", 500)]
        out.append(T("channel-request:" + name, 98, fs))
    return out
