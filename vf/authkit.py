"""Group G toolkit for the scripted-attacker auth checks (C14, C15, C16, C18).

* `Rd`            — independent wire reader (struct only, no paramiko.Message)
* `verify_sig`    — independent public-key signature check (cryptography only)
* `session_blob`  — RFC 4252 §7 signed data, built with struct
* `Sess`          — an Attacker in client role with exact fences: every crafted message is
                    followed by SSH_MSG_IGNORE and the helper waits until the *victim's tap*
                    shows the IGNORE was read.  The victim handles packets on one thread, so
                    at that moment the crafted message has been processed completely; no sleeps.
* `episodes`      — cut the victim's history (tap + callback log) into one episode per inbound
                    message: [read of message i, read of message i+1).
"""
import struct
import time

from vf import attacker, tap
from vf.pair import LogServer

AUTH_SUCCESSFUL, AUTH_PARTIALLY_SUCCESSFUL, AUTH_FAILED = 0, 1, 2
RESULT_NAMES = {0: "AUTH_SUCCESSFUL", 1: "AUTH_PARTIALLY_SUCCESSFUL", 2: "AUTH_FAILED"}

MSG_DISCONNECT = 1
MSG_IGNORE = 2
MSG_SERVICE_REQUEST = 5
MSG_SERVICE_ACCEPT = 6
MSG_USERAUTH_REQUEST = 50
MSG_USERAUTH_FAILURE = 51
MSG_USERAUTH_SUCCESS = 52
MSG_USERAUTH_PK_OK = 60
MSG_USERAUTH_INFO_RESPONSE = 61
MSG_USERAUTH_GSSAPI_MIC = 66


# ---------------------------------------------------------------------------
# wire helpers (independent of paramiko.Message)

def u32(n):
    return struct.pack(">I", n & 0xFFFFFFFF)


def sstr(x):
    if isinstance(x, str):
        x = x.encode("utf-8")
    return u32(len(x)) + bytes(x)


def mpint(n):
    if n == 0:
        return u32(0)
    b = n.to_bytes(n.bit_length() // 8 + 1, "big", signed=True)
    return sstr(b)


class Short(Exception):
    pass


class Rd:
    """lenient: False = strict; "clamp" = a length field that promises more bytes than are left yields the
    bytes that are left; "pad" = such a short read is filled up with zero bytes (up to 1 MiB).  The lenient
    modes exist so that framing damage does not turn a cryptographically valid value into an 'invalid' one."""

    def __init__(self, data, pos=0, lenient=False):
        self.d = bytes(data)
        self.p = pos
        self.lenient = lenient

    def take(self, n, soft=False):
        if soft and self.lenient and n >= 0 and self.p + n > len(self.d):
            left = self.d[self.p:]
            self.p = len(self.d)
            if self.lenient == "pad" and n < (1 << 20):
                return left + bytes(n - len(left))
            return left
        if n < 0 or self.p + n > len(self.d):
            raise Short()
        b = self.d[self.p:self.p + n]
        self.p += n
        return b

    def byte(self):
        return self.take(1)[0]

    def boolean(self):
        return self.take(1) != b"\x00"

    def u32(self):
        return struct.unpack(">I", self.take(4))[0]

    def string(self):
        return self.take(self.u32(), soft=True)

    def mpint(self):
        return int.from_bytes(self.string(), "big", signed=True)

    def rest(self):
        return self.d[self.p:]

    def done(self):
        return self.p >= len(self.d)


def session_blob(sid, user, service, alg, keyblob):
    return (sstr(sid) + bytes([MSG_USERAUTH_REQUEST]) + sstr(user) + sstr(service) + sstr("publickey")
            + b"\x01" + sstr(alg) + sstr(keyblob))


def verify_sig(keyblob, sigfield, data):
    """True iff `sigfield` (string format-name, string blob) carries a signature value that verifies under
    the public key encoded in `keyblob` over `data`.  cryptography only.  Validity means cryptographic
    validity of the values carried: besides the strict reading, framing is also read leniently (over-long
    length fields clamped to the bytes present, or the short read zero-filled; trailing bytes ignored) and
    the signature counts as valid if any reading verifies."""
    return any(_verify_sig(keyblob, sigfield, data, mode) for mode in (False, "clamp", "pad"))


CERT_SUFFIX = b"-cert-v01@openssh.com"


def _verify_sig(keyblob, sigfield, data, mode):
    from cryptography.exceptions import InvalidSignature
    from cryptography.hazmat.primitives import hashes
    from cryptography.hazmat.primitives.asymmetric import ec, ed25519, padding, rsa
    from cryptography.hazmat.primitives.asymmetric.utils import encode_dss_signature

    try:
        k = Rd(keyblob, lenient=mode)
        ktype = k.string()
        if ktype.endswith(CERT_SUFFIX):
            # OpenSSH certificate (PROTOCOL.certkeys): string type, string nonce, then the public key fields of the
            # base type.  The certificate is not validated here (paramiko leaves that to the application); what is
            # checked is that the signature was made by the key the certificate carries.
            ktype = ktype[:-len(CERT_SUFFIX)]
            k.string()
        s = Rd(sigfield, lenient=mode)
        sname = s.string()
        if sname.endswith(CERT_SUFFIX):
            # a signature labelled with a certificate algorithm name is read as its base algorithm (lenient: the
            # label does not make a cryptographically valid value invalid for this oracle)
            sname = sname[:-len(CERT_SUFFIX)]
        sblob = s.string()
        if ktype == b"ssh-rsa":
            e = k.mpint()
            n = k.mpint()
            if e <= 0 or n <= 0:
                return False
            h = {b"ssh-rsa": hashes.SHA1, b"rsa-sha2-256": hashes.SHA256, b"rsa-sha2-512": hashes.SHA512}.get(sname)
            if h is None:
                return False
            pub = rsa.RSAPublicNumbers(e, n).public_key()
            pub.verify(sblob, data, padding.PKCS1v15(), h())
            return True
        if ktype.startswith(b"ecdsa-sha2-nistp"):
            curve_name = k.string()
            point = k.string()
            if sname != ktype or ktype != b"ecdsa-sha2-" + curve_name:
                return False
            curve, h = {b"nistp256": (ec.SECP256R1, hashes.SHA256), b"nistp384": (ec.SECP384R1, hashes.SHA384),
                        b"nistp521": (ec.SECP521R1, hashes.SHA512)}[curve_name]
            pub = ec.EllipticCurvePublicKey.from_encoded_point(curve(), point)
            rs = Rd(sblob, lenient=mode)
            r = rs.mpint()
            sv = rs.mpint()
            if r <= 0 or sv <= 0:
                return False
            pub.verify(encode_dss_signature(r, sv), data, ec.ECDSA(h()))
            return True
        if ktype == b"ssh-ed25519":
            raw = k.string()
            if sname != b"ssh-ed25519" or len(raw) != 32 or len(sblob) != 64:
                return False
            ed25519.Ed25519PublicKey.from_public_bytes(raw).verify(sblob, data)
            return True
        return False
    except (InvalidSignature, Short, ValueError, KeyError, TypeError, OverflowError):
        return False


def parse_userauth_request(payload):
    """payload includes the type byte. Returns dict(user, service, method, rest=Rd) or None."""
    try:
        r = Rd(payload, 1)
        return dict(user=r.string(), service=r.string(), method=r.string(), rd=r)
    except Short:
        return None


# ---------------------------------------------------------------------------
# a scripted client session with exact fences

class FenceTimeout(Exception):
    pass


class Sess:
    def __init__(self, rng, policy=None, users=None, host_keys=None, victim_kw=None, role="client", setup=None,
                 attacker_kw=None):
        self.rec = tap.Recorder()
        self.role = role
        self.server = LogServer(self.rec, policy=dict(policy or {}), users=users)
        if callable(attacker_kw):
            attacker_kw = attacker_kw(self.rec)
        if callable(victim_kw):
            victim_kw = victim_kw(self.rec)
        if role == "client":
            self.att = attacker.Attacker("client", rng=rng, recorder=self.rec, victim_server=self.server,
                                         host_keys=host_keys, victim_kw=victim_kw, attacker_kw=attacker_kw)
        else:
            self.att = attacker.Attacker("server", rng=rng, recorder=self.rec, host_keys=host_keys,
                                         victim_kw=victim_kw, attacker_kw=attacker_kw)
        self.victim = self.att.victim
        if setup is not None:
            setup(self)
        self.ok = False

    def start(self, auth=False, timeout=60):
        self.ok = bool(self.att.start(auth=auth, timeout=timeout))
        if self.ok:
            self.att.takeover()
        return self.ok

    # -- sending -------------------------------------------------------
    def raw(self, ptype, body=b""):
        """Send type byte + raw body. Returns the outbound sequence number (or None if the link is gone)."""
        try:
            return self.att.send_msg(attacker.build(ptype, ("raw", bytes(body))))
        except Exception:
            return None

    def victim_read_seq(self, seq, since=0):
        for e in self.rec.snapshot():
            if e.get("kind") == "msg" and e["side"] == "v" and e["dir"] == "in" and e["seq"] == seq and e["n"] >= since:
                return e
        return None

    def fence(self, limit=60.0):
        """IGNORE fence. Returns 'ok' (victim read the fence: everything sent before it is fully
        processed), 'dead' (victim transport ended) — raises FenceTimeout otherwise."""
        since = self.att.mark()
        fseq = self.raw(MSG_IGNORE, sstr(b""))
        end = time.monotonic() + limit
        while time.monotonic() < end:
            if fseq is not None and self.victim_read_seq(fseq, since) is not None:
                return "ok"
            if not self.victim.is_active():
                # the transport thread may still be finishing; wait for it so the history is complete
                self.victim.join(10)
                return "dead"
            time.sleep(0.002)
        raise FenceTimeout("victim neither read the fence nor ended within %.0f s" % limit)

    def step(self, ptype, body=b""):
        """Send one crafted message and wait until the victim has processed it (or died).
        Returns (seq, state)."""
        seq = self.raw(ptype, body)
        return seq, self.fence()

    def service_request(self, name="ssh-userauth"):
        return self.step(MSG_SERVICE_REQUEST, sstr(name))

    def close(self):
        self.att.close()

    # -- reading the victim's history -----------------------------------
    def vmsgs(self, direction="out", types=None, since=0):
        return self.att.victim_msgs(direction, types, since)

    def callbacks(self, since=0):
        return [e for e in self.rec.snapshot() if e.get("kind") == "cb" and e["n"] >= since]


def started(factory, start=None, attempts=3):
    """Build a session with `factory()` and run its handshake; a failed handshake (e.g. paramiko's own
    15 s banner/handshake timers on an overloaded box) is retried with a fresh session.
    Returns the started session or None."""
    last = None
    for _ in range(attempts):
        sess = factory()
        ok = start(sess) if start is not None else sess.start()
        if ok:
            return sess
        last = sess
        sess.close()
    return None


def episodes(rec, since=0):
    """One episode per message the victim read: dict(msg=<in event>, cbs=[...], out=[...]), in order.
    Events before the first read (handshake) are dropped; IGNORE reads close an episode but do not
    open one of their own (they are the harness fences)."""
    eps = []
    cur = None
    for e in rec.snapshot():
        if e["n"] < since:
            continue
        k = e.get("kind")
        if k == "msg" and e["side"] == "v" and e["dir"] == "in":
            if e["type"] == MSG_IGNORE:
                cur = None
                continue
            cur = dict(msg=e, cbs=[], out=[], other=[])
            eps.append(cur)
        elif cur is not None:
            if k == "cb":
                cur["cbs"].append(e)
            elif k == "msg" and e["side"] == "v" and e["dir"] == "out":
                cur["out"].append(e)
            elif k not in ("msg",):
                cur["other"].append(e)
    return eps


def res_name(v):
    if isinstance(v, int) and not isinstance(v, bool) and v in RESULT_NAMES:
        return RESULT_NAMES[v]
    return type(v).__name__
