"""Regenerate MANIFEST.json from the property modules' META (python -m vf.manifest)."""
import importlib
import json
import os
import sys

from vf import core

NA_REASONS = {}


def main():
    props = []
    with open(os.path.join(core.HOME, "properties.jsonl")) as f:
        for ln in f:
            if ln.strip():
                props.append(json.loads(ln))
    checks = []
    na = []
    for p in props:
        pid = p["id"]
        path = os.path.join(core.HOME, "vf", "props", pid.lower() + ".py")
        ready = set(open(os.path.join(core.HOME, "vf", "READY")).read().split())
        if not os.path.exists(path) or pid not in ready:
            na.append(dict(property_id=pid, reason=NA_REASONS.get(
                pid, "no check registered yet (runtime monitoring applies; check under construction)")))
            continue
        mod = importlib.import_module("vf.props." + pid.lower())
        m = mod.META
        if m.get("disabled"):
            na.append(dict(property_id=pid, reason=m["disabled"]))
            continue
        checks.append(dict(
            property_id=pid,
            quick_cmd="./check %s --tier quick" % pid,
            thorough_cmd="./check %s --tier thorough" % pid,
            evidence_file="evidence/%s.json" % pid,
            replay_cmd_template="./check %s --replay {path}" % pid,
            engine="vf",
            level_claimed=dict(category=m["level"], text=m["text"], design_ref=m.get("design_ref", "DESIGN.md §3")),
            level_note=m["note"],
            technique=m["technique"],
        ))
    fixes = []
    try:
        import subprocess

        out = subprocess.run(["git", "-C", core.TREE, "log", "--format=%h %s"], capture_output=True, text=True).stdout
        hooks = [ln.split()[0] for ln in out.splitlines() if ln.split(" ", 1)[1].startswith("verif-hook:")]
    except Exception:
        hooks = []
    man = dict(
        version=1,
        setup_cmd="./setup.sh",
        hooks=dict(
            guard="PARAMIKO_VERIF",
            enable="none needed: every observation point is applied from the harness (Transport(packetizer_class=), "
                   "wrappers installed at run time, sys.monitoring, audit hooks); ./check exports PARAMIKO_VERIF=1 "
                   "but the source tree does not read it",
            baseline_off_cmd="cd /repo && /venv/bin/python -m pytest -ra -q -p no:cacheprovider --timeout=900 "
                             "--continue-on-collection-errors",
            source_commits=hooks,
            add_only=True,
        ),
        engines=[dict(
            name="vf",
            path="vf/",
            serves_properties=[c["property_id"] for c in checks],
            kind_free_text="runtime monitoring: real paramiko code driven by hostile/stress workloads under wire taps, "
                           "API recorders, reference-model oracles, an exception sanitizer and a sys.monitoring "
                           "preemption engine",
        )],
        checks=checks,
        not_applicable=na,
        notes="See DESIGN.md. Known findings: known_findings.json. Exit codes: 0 held, 1 violation, 2 inconclusive.",
    )
    with open(os.path.join(core.HOME, "MANIFEST.json"), "w") as f:
        json.dump(man, f, indent=1)
    print("MANIFEST.json: %d checks, %d not_applicable" % (len(checks), len(na)))
    try:
        import jsonschema

        with open("/root/.vp/MANIFEST.schema.json") as f:
            jsonschema.validate(man, json.load(f))
        print("schema ok")
    except ImportError:
        pass


if __name__ == "__main__":
    sys.exit(main())
