"""Round-3 additions for the group G checks (C14, C15, C16).

* `make_cert`      — hand-built OpenSSH user certificate (PROTOCOL.certkeys) around a public key, signed by a CA key
* `Ctl` / `hooked_tap` — attacker-side packetizer with (a) one-shot "before my own message of type T goes out"
                     hooks, so that crafted messages can be placed at an exact position *inside* the attacker
                     tool's own key re-exchange, and (b) a switch that drops connection-layer replies / UNIMPLEMENTED
                     read while the tool itself is inside the exchange (it would abort on them otherwise; they stay
                     recorded by the tap)
* `RekeySess`      — authkit.Sess + the above + re-key drivers (peer-initiated, victim API, victim packet threshold)
                     that wait for the exchange to complete on *both* sides (judged from the victim's tap).
"""
import struct
import threading
import time

from vf import tap
from vf.authkit import MSG_IGNORE, FenceTimeout, Rd, Sess, sstr, u32

CERT = "-cert-v01@openssh.com"
MSG_KEXINIT = 20
MSG_NEWKEYS = 21


# ---------------------------------------------------------------------------
# certificates

def key_fields(plain_blob):
    """The public-key fields of a plain public key blob (everything after the type string)."""
    r = Rd(plain_blob)
    r.string()
    return r.rest()


def make_cert(rng, key, ca, principals=("u",), serial=1):
    """OpenSSH user certificate blob for `key` (a paramiko PKey), signed by `ca` (an Ed25519 PKey).
    Layout: type, nonce, <key fields>, serial, type=1 (user), key id, principals, valid after/before,
    critical options, extensions, reserved, signature key, signature."""
    plain = key.asbytes()
    name = Rd(plain).string()
    body = sstr(name + CERT.encode()) + sstr(rng.randbytes(32)) + key_fields(plain)
    body += struct.pack(">Q", serial) + u32(1) + sstr("vf-cert") + sstr(b"".join(sstr(p) for p in principals))
    body += struct.pack(">Q", 0) + struct.pack(">Q", (1 << 64) - 1)
    body += sstr(b"") + sstr(sstr("permit-pty") + sstr(b"")) + sstr(b"")
    body += sstr(ca.asbytes())
    return body + sstr(ca.sign_ssh_data(body).asbytes())


# ---------------------------------------------------------------------------
# attacker-side packetizer with hooks

class Ctl:
    """Shared between the harness thread and the attacker tool's packetizer."""

    def __init__(self):
        self.before = {}  # ptype (or "kex" = any of 30..41) -> callable, one-shot
        self.busy = False
        self.swallow = False
        self.swallowed = []
        self.errors = []
        self.fired = threading.Event()

    def arm(self, ptype, fn):
        self.fired.clear()
        self.before[ptype] = fn

    def on_send(self, tp, ptype, raw):
        if self.busy or ptype is None:
            return
        key = ptype if ptype in self.before else ("kex" if 30 <= ptype <= 41 and "kex" in self.before else None)
        if key is None:
            return
        fn = self.before.pop(key)
        self.busy = True
        try:
            fn()
        except Exception as e:  # harness trouble: reported by the caller as inconclusive
            self.errors.append(e)
        finally:
            self.busy = False
            self.fired.set()


SWALLOW_TYPES = frozenset([3] + list(range(80, 101)))


def hooked_tap(rec, ctl):
    base = tap.make_tap(rec, "a", on_send=ctl.on_send)

    class Hooked(base):
        def read_message(self):
            while True:
                ptype, m = super().read_message()
                if ctl.swallow and ptype in SWALLOW_TYPES:
                    ctl.swallowed.append(ptype)
                    continue
                return ptype, m

    Hooked.__name__ = "Hooked_a"
    return Hooked


class ParkCtl:
    """Parks the victim's reader thread right after read_message() returned a message of an armed type, i.e.
    after the message was read and before the transport dispatches it."""

    def __init__(self):
        self.types = ()
        self.armed = False
        self.parked = threading.Event()
        self.release = threading.Event()
        self.resumed = False

    def arm(self, types):
        self.types = tuple(types)
        self.parked.clear()
        self.release.clear()
        self.resumed = False
        self.armed = True


def parking_tap(rec, ctl, side="v"):
    def on_read(tp, ptype, m):
        if ctl.armed and ptype in ctl.types:
            ctl.armed = False
            ctl.parked.set()
            ctl.release.wait(180)
            ctl.resumed = True

    return tap.make_tap(rec, side, on_read=on_read)


def wait_until(cond, limit):
    end = time.monotonic() + limit
    while time.monotonic() < end:
        if cond():
            return True
        time.sleep(0.003)
    return bool(cond())


class RekeyTrouble(Exception):
    pass


class RekeySess(Sess):
    def __init__(self, rng, **kw):
        self.ctl = Ctl()
        super().__init__(rng, attacker_kw=lambda rec: dict(packetizer_class=hooked_tap(rec, self.ctl)), **kw)
        self.threads = []

    # -- victim history helpers ------------------------------------------
    def v_in(self, types, since=0):
        return self.att.victim_msgs("in", types, since)

    def v_out(self, types, since=0):
        return self.att.victim_msgs("out", types, since)

    def a_keys_out(self, since=0):
        return [e for e in self.rec.snapshot() if e.get("kind") == "keys" and e["side"] == "a" and e["dir"] == "out"
                and e["n"] >= since]

    # -- starting a re-key -------------------------------------------------
    def start_rekey(self, initiator):
        """Start a key re-exchange; returns the recorder mark taken just before. Does not wait."""
        v = self.victim
        mark = self.att.mark()
        if initiator == "peer":
            th = threading.Thread(target=self._quiet, args=(self.att.att.renegotiate_keys,), daemon=True)
            th.start()
            self.threads.append(th)
        elif initiator == "server_api":
            th = threading.Thread(target=self._quiet, args=(v.renegotiate_keys,), daemon=True)
            th.start()
            self.threads.append(th)
        elif initiator == "server_threshold":
            v.packetizer.REKEY_PACKETS = 1  # instance attribute: the next packet read crosses the threshold
            try:
                self.raw(MSG_IGNORE, sstr(b""))
                ok = wait_until(lambda: self.v_out((MSG_KEXINIT,), mark) or not v.is_active(), 60)
            finally:
                try:
                    del v.packetizer.REKEY_PACKETS
                except AttributeError:
                    pass
            if not ok:
                raise RekeyTrouble("victim did not start a re-key at the packet threshold")
        else:
            raise ValueError(initiator)
        return mark

    @staticmethod
    def _quiet(fn):
        try:
            fn()
        except Exception:
            pass

    def rekey_done(self, mark):
        """Both sides switched keys in both directions (victim's tap: NEWKEYS out and in; attacker's: keys out)."""
        return bool(self.v_in((MSG_NEWKEYS,), mark)) and bool(self.v_out((MSG_NEWKEYS,), mark)) \
            and bool(self.a_keys_out(mark)) and not self.victim.in_kex and not self.att.att.in_kex

    def wait_rekey(self, mark, limit=90):
        """'done' | 'dead' (victim ended) | 'attacker-dead'; raises FenceTimeout otherwise."""
        v, a = self.victim, self.att.att
        ok = wait_until(lambda: self.rekey_done(mark) or not v.is_active() or not a.is_active(), limit)
        if self.rekey_done(mark) and v.is_active():
            return "done"
        if not v.is_active():
            v.join(10)
            return "dead"
        if not a.is_active():
            return "attacker-dead"
        if not ok:
            raise FenceTimeout("re-key neither completed nor ended the victim within %.0f s" % limit)
        return "done"

    def rekey(self, initiator, limit=90):
        """A complete re-key between two requests. Returns 'done' | 'dead' | 'attacker-dead'."""
        self.ctl.swallow = True
        try:
            mark = self.start_rekey(initiator)
            return self.wait_rekey(mark, limit)
        finally:
            self.ctl.swallow = False
