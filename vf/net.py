"""NetSim: an in-memory duplex link with the socket-like contract
`Transport.__init__` documents, plus the knobs the monitors need: latency,
read fragmentation, hold/release gates, a per-direction MITM filter, FIN
semantics (bytes sent before a close stay readable), abrupt loss, and a raw
byte log per direction (one entry per `send` call = one SSH packet, because
`Packetizer.write_all` hands one packet to one `send`).
"""
import socket
import threading
import time


class _Dir:
    """One direction of the link (writer -> reader)."""

    def __init__(self, link, name):
        self.link = link
        self.name = name
        self.cv = threading.Condition(threading.Lock())
        self.q = []  # [deliver_at, bytes]
        self.held = []  # chunks waiting behind a gate
        self.gate = False
        self.fin = False  # writer closed gracefully
        self.rst = False  # abrupt loss
        self.latency = 0.0
        self.jitter = 0.0
        self.frag = None  # callable(n_requested, n_available) -> n
        self.filter = None  # callable(bytes, index) -> list[bytes]
        self.log = []  # every chunk handed to send() (before the filter)
        self.delivered = 0
        self.sent_chunks = 0
        self.last_activity = time.monotonic()
        self._last_at = 0.0
        self.stutter = None  # (probability, delay_seconds)
        self.stutters = 0

    def push(self, data):
        with self.cv:
            if self.fin or self.rst:
                raise EOFError()
            idx = self.sent_chunks
            self.sent_chunks += 1
            self.log.append(bytes(data))
            self.last_activity = time.monotonic()
        chunks = [bytes(data)]
        if self.filter is not None:
            chunks = list(self.filter(bytes(data), idx))
        with self.cv:
            for c in chunks:
                if not c:
                    continue
                if self.gate:
                    self.held.append(c)
                else:
                    self._enqueue(c)
            self.cv.notify_all()
        return len(data)

    def _enqueue(self, c):
        at = time.monotonic() + self.latency
        if self.jitter:
            at += self.link.rng.random() * self.jitter
        at = max(at, self._last_at)  # FIFO
        st = self.stutter
        if st and len(c) > 1 and self.link.rng.random() < st[0]:
            # TCP-like segmentation with a pause: the first few bytes of this write
            # arrive now, the rest only after `delay` (longer than the reader's poll
            # timeout), so a reader sees a packet header in two pieces with a timeout
            # in between
            k = self.link.rng.randint(1, min(len(c) - 1, 15))
            self.q.append([at, c[:k]])
            at += st[1]
            c = c[k:]
            self.stutters += 1
        self._last_at = at
        self.q.append([at, c])

    def inject(self, data):
        """Bytes that appear on the wire without the writer having sent them."""
        with self.cv:
            self._enqueue(bytes(data))
            self.cv.notify_all()

    def hold(self):
        with self.cv:
            self.gate = True

    def release(self, n=None):
        with self.cv:
            k = len(self.held) if n is None else min(n, len(self.held))
            for c in self.held[:k]:
                self._enqueue(c)
            del self.held[:k]
            if n is None:
                self.gate = False
            self.cv.notify_all()

    def pull(self, n, timeout):
        end = None if timeout is None else time.monotonic() + timeout
        with self.cv:
            while True:
                if self.rst:
                    raise ConnectionResetError(104, "Connection reset by peer")
                now = time.monotonic()
                if self.q and self.q[0][0] <= now:
                    at, c = self.q[0]
                    k = min(n, len(c))
                    if self.frag is not None:
                        k = max(1, min(k, self.frag(n, len(c))))
                    out, rest = c[:k], c[k:]
                    if rest:
                        self.q[0][1] = rest
                    else:
                        self.q.pop(0)
                    self.delivered += len(out)
                    self.last_activity = time.monotonic()
                    return out
                if not self.q and not self.held and self.fin:
                    return b""
                wait = None
                if self.q:
                    wait = self.q[0][0] - now
                if end is not None:
                    left = end - now
                    if left <= 0:
                        raise socket.timeout("timed out")
                    wait = left if wait is None else min(wait, left)
                self.cv.wait(wait)

    def pending(self):
        with self.cv:
            return sum(len(c) for _, c in self.q) + sum(len(c) for c in self.held)


class Endpoint:
    def __init__(self, link, rd, wr, name):
        self.link = link
        self._rd = rd
        self._wr = wr
        self.name = name
        self._timeout = None
        self.closed = False

    @property
    def _closed(self):
        # Transport.stop_thread() looks at sock._closed (as on real sockets)
        return self.closed

    def settimeout(self, t):
        self._timeout = t

    def gettimeout(self):
        return self._timeout

    def send(self, data):
        if self.closed:
            raise OSError(9, "Bad file descriptor")
        return self._wr.push(data)

    def sendall(self, data):
        self.send(data)

    def recv(self, n):
        if self.closed:
            return b""
        return self._rd.pull(n, self._timeout)

    def close(self):
        if self.closed:
            return
        self.closed = True
        with self._wr.cv:
            self._wr.fin = True
            self._wr.cv.notify_all()
        with self._rd.cv:
            # local reader gone: wake it up
            self._rd.fin = True
            self._rd.cv.notify_all()

    def shutdown(self, how=None):
        self.close()

    def getpeername(self):
        return ("netsim-" + self.name, 22)

    def fileno(self):
        raise OSError("netsim endpoint has no descriptor")


class Link:
    """`a` is conventionally the client end, `b` the server end.
    Direction "ab" carries what a sends."""

    def __init__(self, rng=None):
        import random

        self.rng = rng or random.Random(0)
        self.ab = _Dir(self, "ab")
        self.ba = _Dir(self, "ba")
        self.a = Endpoint(self, self.ba, self.ab, "a")
        self.b = Endpoint(self, self.ab, self.ba, "b")

    def set_latency(self, ab=0.0, ba=None, jitter=0.0):
        self.ab.latency = ab
        self.ba.latency = ab if ba is None else ba
        self.ab.jitter = self.ba.jitter = jitter

    def set_frag(self, policy):
        self.ab.frag = self.ba.frag = policy

    def abrupt(self):
        for d in (self.ab, self.ba):
            with d.cv:
                d.rst = True
                d.cv.notify_all()

    def eof(self, direction="both"):
        for d in (self.ab, self.ba):
            if direction in ("both", d.name):
                with d.cv:
                    d.fin = True
                    d.cv.notify_all()

    def in_flight(self):
        return self.ab.pending() + self.ba.pending()

    def idle_for(self):
        return time.monotonic() - max(self.ab.last_activity, self.ba.last_activity)

    def quiescent(self, idle=0.3):
        return self.in_flight() == 0 and self.idle_for() >= idle


def frag_policy(rng, kind):
    """Seeded read-fragmentation policies."""
    if kind == "whole":
        return None
    if kind == "byte":
        return lambda n, avail: 1
    if kind == "small":
        return lambda n, avail: rng.randint(1, 7)
    if kind == "random":
        return lambda n, avail: rng.randint(1, max(1, min(n, avail)))
    raise ValueError(kind)
