"""Threadless packet bench.

Two real `paramiko.Transport` objects that are never started, over in-memory
socket-like objects owned by the harness.  Both get K / H / session_id, a stub
kex engine with `hash_algo`, and the agreed algorithm names; then the real
`_activate_outbound()` runs on the sender and the real `_parse_newkeys()`
(-> `_activate_inbound()`) runs on the receiver when the in-band NEWKEYS is
read -- exactly where the transport thread would do it.  This keys two real
`Packetizer`s through the real key derivation and the real cipher/MAC tables
without a single thread, so the packet layer can be driven with exact control
over payloads, write/read fragmentation, key switches and ciphertext edits.

Also here, written only from the RFCs (no paramiko code is called):

* `ref_kdf` / `ref_mpint`         RFC 4253 section 7.2, RFC 4251 section 5
* `REF_CIPHERS` / `REF_MACS`      block / key / IV / MAC sizes per algorithm name
* `RefRx`                         an independent receiver: `cryptography`
                                  primitives + `hmac` + `zlib`, keyed with
                                  explicit key material, that re-parses a wire
                                  stream and reports the framing facts of
                                  every packet (RFC 4253 section 6, RFC 5647,
                                  OpenSSH PROTOCOL for -etm / -gcm).
"""
import collections
import errno
import hashlib
import hmac as _hmac
import socket
import struct
import threading
import time
import types
import zlib

from cryptography.hazmat.primitives.ciphers import Cipher, algorithms, modes
from cryptography.hazmat.primitives.ciphers.aead import AESGCM

try:  # same move paramiko follows
    from cryptography.hazmat.decrepit.ciphers.algorithms import TripleDES
except ImportError:  # pragma: no cover
    from cryptography.hazmat.primitives.ciphers.algorithms import TripleDES

import paramiko
from paramiko.message import Message
from paramiko.packet import NeedRekeyException

from vf import tap as vtap

import logging

logging.getLogger("paramiko").addHandler(logging.NullHandler())
logging.getLogger("paramiko").propagate = False

DEBUG_CHANNEL = "paramiko.vfbench.debug"


class _CountingHandler(logging.Handler):
    """Swallows records; `records` shows the DEBUG channel really was live."""

    records = 0

    def emit(self, record):
        _CountingHandler.records += 1


_dbg = logging.getLogger(DEBUG_CHANNEL)
_dbg.setLevel(logging.DEBUG)
_dbg.propagate = False
_dbg.addHandler(_CountingHandler())


def debug_records():
    return _CountingHandler.records


T_NEWKEYS = 21
T_AUTH_SUCCESS = 52
RESERVED_TYPES = (T_NEWKEYS, T_AUTH_SUCCESS)

# --------------------------------------------------------------------------
# Reference tables (RFC 4253 6.3/6.4, RFC 4344, RFC 6668, RFC 5647, OpenSSH
# PROTOCOL 1.6/1.7).  kind: how the stream is framed and decrypted.
# --------------------------------------------------------------------------
REF_CIPHERS = {
    "aes128-ctr": dict(kind="ctr", alg=algorithms.AES, key=16, bs=16, iv=16),
    "aes192-ctr": dict(kind="ctr", alg=algorithms.AES, key=24, bs=16, iv=16),
    "aes256-ctr": dict(kind="ctr", alg=algorithms.AES, key=32, bs=16, iv=16),
    "aes128-cbc": dict(kind="cbc", alg=algorithms.AES, key=16, bs=16, iv=16),
    "aes192-cbc": dict(kind="cbc", alg=algorithms.AES, key=24, bs=16, iv=16),
    "aes256-cbc": dict(kind="cbc", alg=algorithms.AES, key=32, bs=16, iv=16),
    "3des-cbc": dict(kind="cbc", alg=TripleDES, key=24, bs=8, iv=8),
    "aes128-gcm@openssh.com": dict(kind="gcm", alg=None, key=16, bs=16, iv=12),
    "aes256-gcm@openssh.com": dict(kind="gcm", alg=None, key=32, bs=16, iv=12),
}
GCM_TAG = 16
REF_MACS = {
    "hmac-sha1": dict(hash="sha1", key=20, out=20, etm=False),
    "hmac-sha1-96": dict(hash="sha1", key=20, out=12, etm=False),
    "hmac-md5": dict(hash="md5", key=16, out=16, etm=False),
    "hmac-md5-96": dict(hash="md5", key=16, out=12, etm=False),
    "hmac-sha2-256": dict(hash="sha256", key=32, out=32, etm=False),
    "hmac-sha2-512": dict(hash="sha512", key=64, out=64, etm=False),
    "hmac-sha2-256-etm@openssh.com": dict(hash="sha256", key=32, out=32, etm=True),
    "hmac-sha2-512-etm@openssh.com": dict(hash="sha512", key=64, out=64, etm=True),
}
COMPRESSIONS = ("none", "zlib", "zlib@openssh.com")
HASHES = ("sha1", "sha256", "sha384", "sha512")

# key letters per RFC 4253 7.2: (IV, encryption key, integrity key)
LETTERS = {"c2s": ("A", "C", "E"), "s2c": ("B", "D", "F")}


def offered_suites():
    """Every cipher x MAC pair the tree under test offers (its own tables),
    in a stable order."""
    T = paramiko.Transport
    ciphers = sorted(T._cipher_info)
    macs = sorted(T._mac_info)
    return [(c, m) for c in ciphers for m in macs]


def framing_mode(cipher, mac):
    """'gcm' | 'etm' | 'classic' for a negotiated pair, from the reference
    tables (None when the name is unknown to them)."""
    c = REF_CIPHERS.get(cipher)
    m = REF_MACS.get(mac)
    if c is None or m is None:
        return None
    if c["kind"] == "gcm":
        return "gcm"
    return "etm" if m["etm"] else "classic"


FAMILIES = ("classic", "etm", "gcm")


def suites_by_family():
    out = {f: [] for f in FAMILIES}
    for c, m in offered_suites():
        f = framing_mode(c, m)
        if f in out:
            out[f].append((c, m))
    return out


def draw_reverse(rng, k, by_family=None):
    """Reverse-direction suite whose framing family cycles with k, so that every
    (inbound family, outbound family) pair occurs."""
    by_family = by_family or suites_by_family()
    fams = [f for f in FAMILIES if by_family[f]]
    return rng.choice(by_family[fams[k % len(fams)]])


def ref_mpint(n):
    """RFC 4251 section 5 mpint for n >= 0."""
    if n < 0:
        raise ValueError("shared secrets are non-negative")
    if n == 0:
        return b"\x00\x00\x00\x00"
    body = n.to_bytes(n.bit_length() // 8 + 1, "big")
    return struct.pack(">I", len(body)) + body


def ref_kdf(hname, K, H, letter, sid, nbytes):
    """RFC 4253 section 7.2: K1 = HASH(K||H||X||session_id),
    Kn = HASH(K||H||K1||...||Kn-1), key = first nbytes of K1||K2||..."""
    kb = ref_mpint(K)
    out = hashlib.new(hname, kb + H + letter.encode("ascii") + sid).digest()
    while len(out) < nbytes:
        out += hashlib.new(hname, kb + H + out).digest()
    return out[:nbytes]


def ref_keys(hname, K, H, sid, cipher, mac, direction):
    """Reference (iv, key, mac_key) for one direction ('c2s' | 's2c')."""
    c = REF_CIPHERS[cipher]
    m = REF_MACS[mac]
    li, lk, lm = LETTERS[direction]
    return dict(
        iv=ref_kdf(hname, K, H, li, sid, c["iv"]),
        key=ref_kdf(hname, K, H, lk, sid, c["key"]),
        mac_key=ref_kdf(hname, K, H, lm, sid, m["key"]),
    )


# --------------------------------------------------------------------------
# sockets
# --------------------------------------------------------------------------
class MemSock:
    """Socket-like object for one never-started Transport.

    Outbound: `send` appends to `wire` (optionally accepting only part of the
    buffer, as a real socket may).  Inbound: `load(data, frag=, cuts=)` sets
    the bytes `recv` will serve; `recv(n)` returns at most n bytes, never
    crossing a cut offset, shortened by the fragmentation policy, and b""
    (EOF) once drained -- `Packetizer.read_all` turns that into EOFError,
    which the bench reads as "waiting for more data".
    """

    def __init__(self):
        self.wire = bytearray()
        self.sends = 0
        self.accept = None  # callable(len) -> bytes accepted by this send()
        self.buf = b""
        self.pos = 0
        self.frag = None
        self.cuts = None
        self._cut_i = 0
        self.recvs = 0
        self.eofs = 0
        self.closed = False
        # hiccup(kind) -> None | "timeout" | "eagain": what a socket with a timeout set may raise
        # instead of transferring data; never twice in a row, so progress is guaranteed
        self.hiccup = None
        self._hic_last = False
        self.hiccups = 0
        self.plan = collections.deque()  # scripted write-side actions, one per send() call
        self.calls = None  # write ledger (list) when enabled
        self.chunk_limit = None
        self.yield_s = None
        self.stall_every = None  # every Nth send() accepts 1 byte and sleeps stall_s
        self.stall_s = 0.002
        self.stalls = 0
        self.observer = None  # callable -> number of senders currently inside send_message
        self.recv_timeouts_at = []  # stream offsets at which recv raised socket.timeout / EAGAIN

    def _maybe_hiccup(self, kind):
        if self.hiccup is None or self._hic_last:
            self._hic_last = False
            return
        h = self.hiccup(kind)
        if h:
            self._hic_last = True
            self.hiccups += 1
            if h == "timeout":
                raise socket.timeout("timed out")
            raise socket.error(errno.EAGAIN, "Resource temporarily unavailable")

    def settimeout(self, t):
        pass

    def gettimeout(self):
        return None

    def send(self, data):
        """One socket write.  `plan` (a deque, one action per call, consumed first) scripts the write side:
        ("take", k) accepts k bytes (k < 0: all but -k, float: that fraction, None: everything),
        ("timeout",) / ("eagain",) raise what a socket with a timeout set raises instead of writing.
        `chunk_limit` caps the bytes taken per call and `yield_s` sleeps after a write so that another thread
        can run.  With `calls` set to a list every call is entered in a ledger:
        (thread id, bytes offered, bytes accepted | "timeout" | "eagain", senders in flight)."""
        data = bytes(data)
        act = self.plan.popleft() if self.plan else None
        inflight = self.observer() if self.observer is not None else None
        if act is not None and act[0] in ("timeout", "eagain"):
            if self.calls is not None:
                self.calls.append((threading.get_ident(), data, act[0], inflight))
            if act[0] == "timeout":
                raise socket.timeout("timed out")
            raise socket.error(errno.EAGAIN, "Resource temporarily unavailable")
        try:
            self._maybe_hiccup("send")
        except OSError as e:
            if self.calls is not None:
                self.calls.append((threading.get_ident(), data, "timeout" if isinstance(e, socket.timeout) else "eagain",
                                   inflight))
            raise
        n = len(data)
        if act is not None and act[0] == "take" and act[1] is not None and n > 1:
            k = act[1]
            k = int(n * k) if isinstance(k, float) else (n + k if k < 0 else k)
            n = max(1, min(n, k))
        elif self.accept is not None and n > 1:
            n = max(1, min(n, int(self.accept(n))))
        if self.chunk_limit and n > self.chunk_limit:
            n = self.chunk_limit
        stalled = False
        if self.stall_every and (self.sends + 1) % self.stall_every == 0 and n > 1:
            # a stalling socket: takes one byte of what it was offered, then sits for a while
            n, stalled = 1, True
            self.stalls += 1
        self.wire += data[:n]
        self.sends += 1
        if self.calls is not None:
            self.calls.append((threading.get_ident(), data, n, inflight))
        if stalled:
            time.sleep(self.stall_s)
        elif self.yield_s is not None:
            time.sleep(self.yield_s)
        return n

    def load(self, data, frag=None, cuts=None):
        self.buf = bytes(data)
        self.pos = 0
        self.frag = frag
        self.cuts = sorted(set(cuts)) if cuts else None
        self._cut_i = 0

    def recv(self, n):
        self.recvs += 1
        avail = len(self.buf) - self.pos
        if avail <= 0 or n <= 0:
            self.eofs += 1
            return b""
        try:
            self._maybe_hiccup("recv")
        except OSError:
            self.recv_timeouts_at.append(self.pos)
            raise
        k = min(n, avail)
        if self.cuts is not None:
            cuts = self.cuts
            i = self._cut_i
            while i < len(cuts) and cuts[i] <= self.pos:
                i += 1
            self._cut_i = i
            if i < len(cuts):
                k = min(k, cuts[i] - self.pos)
        if self.frag is not None:
            k = max(1, min(k, int(self.frag(n, avail))))
        out = self.buf[self.pos:self.pos + k]
        self.pos += k
        return out

    def close(self):
        self.closed = True

    def getpeername(self):
        return ("membench", 22)


# --------------------------------------------------------------------------
# taps and wrappers
# --------------------------------------------------------------------------
def make_bench_tap(recorder, side):
    """vf.tap's WireTap plus: the plaintext image `_build_packet` returned,
    the exact bytes each `send_message` put on the socket, and the AEAD
    invocation counter before/after."""
    Base = vtap.make_tap(recorder, side)

    class BenchTap(Base):
        def __init__(self, sock):
            super().__init__(sock)
            self.sent = []
            self._last_build = None

        def _build_packet(self, payload):
            image = super()._build_packet(payload)
            self._last_build = (bytes(payload), bytes(image))
            return image

        def send_message(self, data):
            sock = vtap.pz(self, "socket")
            start = len(sock.wire)
            info = dict(
                payload=data.asbytes(),
                start=start,
                seq=vtap.pz(self, "sequence_number_out"),
                enc=vtap.pz(self, "block_engine_out") is not None,
                epoch=self.epoch_out,
                iv_before=vtap.pz(self, "iv_out"),
                compressed=vtap.pz(self, "compress_engine_out") is not None,
            )
            self._last_build = None
            super().send_message(data)
            info["wire"] = bytes(sock.wire[start:])
            info["build"] = self._last_build
            info["iv_after"] = vtap.pz(self, "iv_out")
            info["seq_after"] = vtap.pz(self, "sequence_number_out")
            self.sent.append(info)

    BenchTap.__name__ = "BenchTap_" + side
    return BenchTap


def _history(events):
    out = []
    for e in events:
        if not out or out[-1] != e:
            out.append(e)
    return "+".join(out) or "start"


def judge_write_ledger(calls):
    """Independent of any crypto: replay the ledger of socket writes.  The first buffer offered for a packet is the
    packet P; every later offer must be exactly the not-yet-accepted rest of P; a packet is finished when all of P was
    accepted; no other thread may write in between.  Returns (packets, problems): packets = list of
    dict(thread, data, events) and problems = list of (kind, after, detail) with kind in
    {"skipped", "repeated", "different", "interleaved", "unfinished"} and after = what the previous call did
    ("partial" | "timeout" | "eagain" | "start")."""
    packets, problems = [], []
    cur = None
    for tid, offered, res, inflight in calls:
        if cur is None:
            cur = dict(thread=tid, data=offered, acc=0, events=[], last="start", inflight=0)
            packets.append(cur)
        elif tid != cur["thread"]:
            problems.append(("interleaved", cur["last"], "another thread wrote %d bytes before the packet was complete"
                             % (res if isinstance(res, int) else 0)))
            cur = dict(thread=tid, data=offered, acc=0, events=[], last="start", inflight=0)
            packets.append(cur)
        P, acc = cur["data"], cur["acc"]
        if offered != P[acc:]:
            kind = "different"
            for d in range(1, acc + 1):
                if offered == P[acc - d:]:
                    kind = "repeated"
                    break
            else:
                for d in range(1, len(P) - acc + 1):
                    if offered == P[acc + d:]:
                        kind = "skipped"
                        break
            problems.append((kind, _history(cur["events"]), "offered %d bytes where the %d not yet accepted were due" % (len(offered), len(P) - acc)))
            # resynchronise on what the code believes is left, so one defect is reported once per packet
            cur["data"] = P[:acc] + offered
            P = cur["data"]
        if inflight is not None and inflight >= 2:
            cur["inflight"] = max(cur["inflight"], inflight)
        if isinstance(res, int):
            cur["acc"] += res
            cur["events"].append("full" if cur["acc"] >= len(P) and not cur["events"] else
                                 ("partial" if cur["acc"] < len(P) else "rest"))
            cur["last"] = "partial" if cur["acc"] < len(P) else "done"
            if cur["acc"] >= len(P):
                cur = None
        else:
            cur["events"].append(res)
            cur["last"] = res
    if cur is not None:
        problems.append(("unfinished", cur["last"], "stream ends inside a packet"))
    return packets, problems


def make_concurrent_tap(recorder, side):
    """BenchTap whose send_message takes NO lock of its own (vf.tap's outer lock would serialise the senders and
    hide a missing write lock in the code under test); it only counts the senders currently inside."""
    Base = make_bench_tap(recorder, side)
    from paramiko.packet import Packetizer as _P

    class ConcTap(Base):
        def __init__(self, sock):
            super().__init__(sock)
            self.inflight = 0
            self._cl = threading.Lock()
            self._tl = threading.local()
            self.build_order = []  # message of every _build_packet call, in call order

        def _build_packet(self, payload):
            # runs where the code under test computes the packet (sequence number / cipher stream / MAC follow)
            self.build_order.append(getattr(self._tl, "msg", None))
            return super()._build_packet(payload)

        def send_message(self, data):
            with self._cl:
                self.inflight += 1
            self._tl.msg = data.asbytes()
            try:
                _P.send_message(self, data)  # the real method, straight
            finally:
                with self._cl:
                    self.inflight -= 1

    ConcTap.__name__ = "ConcTap_" + side
    return ConcTap


def instrument(transport, log, side):
    """Per-instance wrappers on `_compute_key`, `_get_engine` and the two
    `_activate_*` methods (begin/end markers).  Every call is appended to `log`
    with the inputs the real function saw (K, H, session id, hash) and what it
    returned / was handed."""
    real_ck = transport._compute_key
    real_ge = transport._get_engine

    def _compute_key(id, nbytes):
        out = real_ck(id, nbytes)
        ha = getattr(transport.kex_engine, "hash_algo", None)
        log.append(dict(kind="kdf", side=side, id=id, n=nbytes, out=out, K=transport.K, H=transport.H,
                        sid=transport.session_id, hash=(ha().name if ha is not None else None),
                        server=bool(transport.server_mode)))
        return out

    def _get_engine(name, key, iv=None, operation=None, aead=False):
        log.append(dict(kind="engine", side=side, name=name, key=key, iv=iv,
                        op="enc" if operation is transport._ENCRYPT else "dec", aead=aead,
                        server=bool(transport.server_mode)))
        return real_ge(name=name, key=key, iv=iv, operation=operation, aead=aead)

    def _wrap_activate(real, direction):
        def activate():
            log.append(dict(kind="activate", side=side, dir=direction, phase="begin",
                            server=bool(transport.server_mode)))
            try:
                return real()
            finally:
                log.append(dict(kind="activate", side=side, dir=direction, phase="end",
                                server=bool(transport.server_mode)))
        return activate

    transport._compute_key = _compute_key
    transport._get_engine = _get_engine
    transport._activate_inbound = _wrap_activate(transport._activate_inbound, "in")
    transport._activate_outbound = _wrap_activate(transport._activate_outbound, "out")
    return transport


def _kex_stub(hname):
    return types.SimpleNamespace(hash_algo=getattr(hashlib, hname), name="bench-stub")


def rand_secret(rng):
    """A shared secret K >= 1 (no kex method can produce 0): tiny values,
    high-bit-set, byte-boundary and DH/ECDH sized values."""
    kind = rng.random()
    if kind < 0.06:
        return rng.choice([1, 2, 0x7F, 0x80, 0xFF, 0x100, 0x7FFF, 0x8000, 0xFFFF, 0x10000])
    bits = rng.choice([rng.randint(1, 72), 255, 256, 384, 521, 1024, 2048, rng.randint(1, 4096), rng.randint(1, 8192)])
    k = rng.getrandbits(bits)
    if kind < 0.45:
        k |= 1 << (bits - 1)  # top bit set -> mpint needs a leading zero byte when bits % 8 == 0
    elif kind < 0.55 and bits > 16:
        k >>= rng.randint(1, 15)  # leading zero bits
    return max(1, k)


# --------------------------------------------------------------------------
# per-direction negotiation on real sessions
# --------------------------------------------------------------------------
def rewrite_kexinit(raw, c2s_cipher, s2c_cipher, c2s_mac, s2c_mac):
    """KEXINIT payload (type byte, cookie, 10 name-lists, bool, uint32) with the four per-direction
    encryption / MAC name-lists replaced by single names (RFC 4253 7.1 field order)."""
    if raw[:1] != b"\x14":
        raise ValueError("not a KEXINIT")
    pos = 17
    lists = []
    for _ in range(10):
        (n,) = struct.unpack(">I", raw[pos:pos + 4])
        lists.append(raw[pos + 4:pos + 4 + n])
        pos += 4 + n
    tail = raw[pos:]
    lists[2], lists[3] = c2s_cipher.encode(), s2c_cipher.encode()
    lists[4], lists[5] = c2s_mac.encode(), s2c_mac.encode()
    return raw[:17] + b"".join(struct.pack(">I", len(x)) + x for x in lists) + tail


class AsymTransport(paramiko.Transport):
    """A real Transport that advertises ONE cipher and ONE MAC per direction (client-to-server /
    server-to-client) in every KEXINIT it sends -- something paramiko's own options cannot express, but any
    peer may do.  Only the outgoing KEXINIT (and the copy kept for the exchange hash) is rewritten; used on
    both peers, so both hash the same I_C / I_S and negotiate `asym` exactly."""

    asym = None  # dict(c2s_cipher=, s2c_cipher=, c2s_mac=, s2c_mac=)

    def _send_message(self, data):
        raw = data.asbytes()
        if self.asym and raw[:1] == b"\x14":
            new = rewrite_kexinit(raw, **self.asym)
            self.local_kex_init = self._latest_kex_init = new
            data = Message(new)
        return super()._send_message(data)


# --------------------------------------------------------------------------
# the bench
# --------------------------------------------------------------------------
class Receiver:
    """A never-started Transport acting as the receiving peer."""

    def __init__(self, spec, recorder=None, klog=None, packetizer_class=None, rekey_packets=None, rekey_bytes=None,
                 hexdump=False):
        self.spec = spec
        self.hexdump = hexdump
        self.needrekey_seen = 0
        self.split_headers_rekey_pending = 0
        self.sock = MemSock()
        self.rec = recorder
        pc = packetizer_class
        if pc is None and recorder is not None:
            pc = make_bench_tap(recorder, "rx")
        self.t = paramiko.Transport(self.sock, packetizer_class=pc)
        t = self.t
        t.server_mode = spec["sender_role"] == "client"
        t.local_compression = t.remote_compression = spec["comp"]
        t._remote_ext_info = None
        t.agreed_on_strict_kex = spec["strict"]
        t.session_id = spec["sid"]
        self.klog = klog
        if klog is not None:
            instrument(t, klog, "rx")
        if hexdump:
            # debugging configuration of the receiving side: DEBUG log channel + packet hexdumps (public API)
            t.set_log_channel(DEBUG_CHANNEL)
            t.set_hexdump(True)
        # scaled re-key thresholds (instance attributes, as C10 does): the receiver's own
        # need_rekey() flag goes up after a few packets and stays up (its outbound side never re-keys)
        if rekey_packets is not None:
            t.packetizer.REKEY_PACKETS = rekey_packets
        if rekey_bytes is not None:
            t.packetizer.REKEY_BYTES = rekey_bytes
        self.next_epoch = 0
        self.delivered = []
        self.iv_steps = []  # (before, after) of the AEAD counter per decoded packet
        self.outcome = None
        if spec.get("seq0"):
            # harness setup: start both packet counters near the 32-bit wrap
            setattr(t.packetizer, "_Packetizer__sequence_number_in", spec["seq0"])
            t.packetizer._initial_kex_done = True

    def _newkeys(self, msg):
        epochs = self.spec["epochs"]
        if self.next_epoch >= len(epochs):
            raise BenchProtocolError("NEWKEYS delivered but no further key epoch was negotiated")
        e = epochs[self.next_epoch]
        self.next_epoch += 1
        t = self.t
        t.K, t.H = e["K"], e["H"]
        t.kex_engine = _kex_stub(e["hash"])
        # SSH negotiates per direction: what this peer receives is the sender's suite,
        # what it sends is the (independently drawn) reverse suite
        t.remote_cipher, t.remote_mac = e["cipher"], e["mac"]
        t.local_cipher, t.local_mac = e.get("rev_cipher") or e["cipher"], e.get("rev_mac") or e["mac"]
        # a peer sends its own NEWKEYS (keys its outbound direction) before it handles the other side's
        t._activate_outbound()
        # the real handler: _activate_inbound(), clears K / kex_engine, marks the
        # initial kex done on transport and packetizer
        t._parse_newkeys(msg)

    def drain(self, data, frag=None, cuts=None, limit=None, banner=None, hiccup=None):
        """Feed `data`; decode until EOF ("waiting"), an exception ("fails") or
        `limit` messages.  Returns the outcome tuple.  With `banner` (bytes
        ending in LF) the stream starts with an identification line that is
        read through the real `readline` first, so that whatever it over-read
        sits in the packetizer's remainder buffer when packets start."""
        if banner:
            data = banner + data
            if cuts:
                cuts = [c + len(banner) for c in cuts]
        self.sock.load(data, frag=frag, cuts=cuts)
        pk = self.t.packetizer
        if banner:
            # no hiccups here: the identification line is read by _read_timeout, which is not the packet layer
            self.sock.hiccup = None
            try:
                self.banner_line = pk.readline(30)
            except Exception as e:
                self.outcome = ("banner", e)
                return self.outcome
        self.sock.hiccup = hiccup
        aead_track = True
        stall = 0
        while True:
            if limit is not None and len(self.delivered) >= limit:
                self.outcome = ("limit", None)
                break
            iv0 = vtap.pz(pk, "iv_in") if aead_track else None
            pos0, nto, pending = self.sock.pos, len(self.sock.recv_timeouts_at), pk.need_rekey()
            hdr = vtap.pz(pk, "block_size_in")
            try:
                try:
                    ptype, m = pk.read_message()
                finally:
                    if pending and any(pos0 < q < pos0 + hdr for q in self.sock.recv_timeouts_at[nto:]):
                        # a timeout fell between two pieces of a packet header while a re-key was pending
                        self.split_headers_rekey_pending += 1
            except NeedRekeyException:
                # what Transport.run does: just read again
                self.needrekey_seen += 1
                stall = stall + 1 if self.sock.pos == pos0 else 0
                if stall > 1000:
                    self.outcome = ("stop", BenchProtocolError("NeedRekeyException without progress"))
                    break
                continue
            except EOFError:
                self.outcome = ("eof", None)
                break
            except Exception as e:  # any failure of the receiver
                self.outcome = ("exc", e)
                break
            if iv0 is not None:
                self.iv_steps.append((iv0, vtap.pz(pk, "iv_in")))
            payload = bytes([ptype]) + m.asbytes()
            self.delivered.append(payload)
            try:
                if ptype == T_NEWKEYS:
                    self._newkeys(m)
                elif ptype == T_AUTH_SUCCESS:
                    self.t._auth_trigger()
            except BenchProtocolError as e:
                self.outcome = ("stop", e)
                break
        return self.outcome


class BenchProtocolError(Exception):
    pass


class Bench:
    """Sender + key schedule.  `receiver()` builds a fresh, identically keyed
    receiving Transport (as often as needed: every tampered decode gets its
    own)."""

    def __init__(self, rng, cipher, mac, comp="none", sender_role="client", strict=False,
                 hash_name="sha256", accept=None, seq0=0, sid=None, hiccup=None, rev=None, tap_factory=None):
        self.rng = rng
        self.rec = vtap.Recorder()
        self.klog = []
        self.sock = MemSock()
        self.sock.accept = accept
        self.sock.hiccup = hiccup
        self.tap_cls = (tap_factory or make_bench_tap)(self.rec, "tx")
        self.t = paramiko.Transport(self.sock, packetizer_class=self.tap_cls)
        t = self.t
        t.server_mode = sender_role == "server"
        t.local_compression = t.remote_compression = comp
        t._remote_ext_info = None
        t.agreed_on_strict_kex = strict
        instrument(t, self.klog, "tx")
        self.spec = dict(sender_role=sender_role, comp=comp, strict=strict, sid=sid, epochs=[], seq0=seq0)
        self.direction = "c2s" if sender_role == "client" else "s2c"
        self.cipher, self.mac, self.hash_name = cipher, mac, hash_name
        self.rev = tuple(rev) if rev else None
        self.messages = []  # payloads in send order (including NEWKEYS / auth markers)
        if seq0:
            setattr(t.packetizer, "_Packetizer__sequence_number_out", seq0)
            t.packetizer._initial_kex_done = True
            if vtap.pz(t.packetizer, "sequence_number_out") != seq0:
                raise RuntimeError("bench could not preset the outbound sequence number")

    # -- sender actions ---------------------------------------------------
    def rekey(self, cipher=None, mac=None, hash_name=None, K=None, H=None, rev=None):
        """rev = (cipher, mac) negotiated for the reverse direction (receiver -> sender);
        default: the bench's current reverse suite, else the same as the forward one."""
        rng = self.rng
        self.cipher = cipher or self.cipher
        self.mac = mac or self.mac
        if rev is not None:
            self.rev = tuple(rev)
        rc, rm = self.rev if self.rev else (self.cipher, self.mac)
        self.hash_name = hash_name or self.hash_name
        K = K if K is not None else rand_secret(rng)
        hl = hashlib.new(self.hash_name).digest_size
        H = H if H is not None else bytes(rng.getrandbits(8) for _ in range(hl))
        if self.spec["sid"] is None:
            self.spec["sid"] = H  # RFC 4253 7.2: the first exchange hash is the session id
        e = dict(K=K, H=H, hash=self.hash_name, cipher=self.cipher, mac=self.mac, rev_cipher=rc, rev_mac=rm)
        self.spec["epochs"].append(e)
        t = self.t
        t.session_id = self.spec["sid"]
        t.K, t.H = K, H
        t.kex_engine = _kex_stub(self.hash_name)
        t.local_cipher, t.local_mac = self.cipher, self.mac
        t.remote_cipher, t.remote_mac = rc, rm
        t._activate_outbound()  # real: NEWKEYS under the old keys, then new outbound keys
        self.messages.append(bytes([T_NEWKEYS]))
        # the peer's NEWKEYS "arrives": the real handler keys the sender's own inbound
        # direction (never read here), clears K / kex_engine and marks the initial kex done
        t._parse_newkeys(Message())
        return e

    def send(self, payload):
        """payload: bytes, first byte = message type (not 21 / 52)."""
        self.t._send_message(Message(payload))
        self.messages.append(bytes(payload))

    def auth(self):
        """In-band 'authenticated' marker: USERAUTH_SUCCESS goes out, then the
        sender's real _auth_trigger() (delayed zlib@openssh.com switches on);
        the receiver runs its _auth_trigger() on receipt."""
        self.t._send_message(Message(bytes([T_AUTH_SUCCESS])))
        self.messages.append(bytes([T_AUTH_SUCCESS]))
        self.t._auth_trigger()

    # -- views ------------------------------------------------------------
    @property
    def sent(self):
        return self.t.packetizer.sent

    def wire(self):
        return bytes(self.sock.wire)

    def boundaries(self):
        """Start offset of every packet plus the end of the stream."""
        return [s["start"] for s in self.sent] + [len(self.sock.wire)]

    def receiver(self, recorder=None, klog=None, packetizer_class=None, rekey_packets=None, rekey_bytes=None,
                 hexdump=False):
        return Receiver(self.spec, recorder=recorder, klog=klog, packetizer_class=packetizer_class,
                        rekey_packets=rekey_packets, rekey_bytes=rekey_bytes, hexdump=hexdump)

    def installed_out(self):
        """Per key epoch, what the sender really installed for its outbound
        direction: cipher key and IV handed to `_get_engine`, MAC key handed to
        `set_outbound_cipher`, and the `_compute_key` calls that produced
        them."""
        return installed_epochs(self.klog, self.rec.snapshot(), "tx", "out")

    def ref_epochs(self, captured=True):
        """Key material per epoch for `RefRx`: captured from the sender
        (default) or derived by the reference KDF."""
        out = []
        inst = self.installed_out() if captured else None
        for i, e in enumerate(self.spec["epochs"]):
            if captured:
                k = inst[i]
                km = dict(key=k["key"], iv=k["iv"], mac_key=k["mac_key"])
            else:
                km = ref_keys(e["hash"], e["K"], e["H"], self.spec["sid"], e["cipher"], e["mac"], self.direction)
            out.append(dict(cipher=e["cipher"], mac=e["mac"], **km))
        return out


def installed_epochs(klog, events, side, direction):
    """One dict per cipher switch of (`side`, `direction`): the `_compute_key`
    calls made inside the real `_activate_*` call, the key and IV it handed to
    `_get_engine`, and the MAC key / AEAD IV the tap saw arriving in
    `set_*_cipher`."""
    acts = []
    cur = None
    for r in klog:
        if r["side"] != side:
            continue
        if r["kind"] == "activate":
            if r["phase"] == "begin":
                cur = dict(dir=r["dir"], kdf=[], engine=None, server=r["server"])
            else:
                if cur is not None and cur["dir"] == direction and cur["engine"] is not None:
                    acts.append(cur)
                cur = None
        elif cur is not None:
            if r["kind"] == "kdf":
                cur["kdf"].append(r)
            elif r["kind"] == "engine":
                cur["engine"] = r
    keyrecs = [e for e in events if e.get("kind") == "keys" and e["side"] == side and e["dir"] == direction]
    out = []
    for i, a in enumerate(acts):
        k = keyrecs[i] if i < len(keyrecs) else None
        out.append(dict(name=a["engine"]["name"], key=a["engine"]["key"], iv=a["engine"]["iv"],
                        aead=a["engine"]["aead"], op=a["engine"]["op"], server=a["server"], kdf=a["kdf"],
                        mac_key=k["mac_key"] if k else None, tap=k))
    return out


# --------------------------------------------------------------------------
# independent receiver
# --------------------------------------------------------------------------
class RefError(Exception):
    pass


class RefRx:
    """Independent re-parse of a one-directional SSH binary-packet stream.

    epochs[i] = dict(cipher, mac, key, iv, mac_key) become active after the
    i-th NEWKEYS.  Before the first NEWKEYS packets are cleartext with an
    8-byte block.  `strict` resets the packet counter after each NEWKEYS
    (OpenSSH strict-kex).  Compression: 'zlib' from the first NEWKEYS,
    'zlib@openssh.com' from the USERAUTH_SUCCESS marker (and from every later
    NEWKEYS); each switch starts a fresh inflate stream.
    """

    def __init__(self, stream, epochs, comp="none", strict=False, seq0=0):
        self.s = bytes(stream)
        self.pos = 0
        self.seq = seq0
        self.epochs = epochs
        self.n_epoch = 0
        self.comp = comp
        self.strict = strict
        self.authed = False
        self.z = None
        self.cur = None  # None = cleartext
        self.dec = None
        self.nonce = None

    def _take(self, n, what):
        if n < 0 or self.pos + n > len(self.s):
            raise RefError("stream ends inside " + what)
        out = self.s[self.pos:self.pos + n]
        self.pos += n
        return out

    def _switch(self):
        if self.n_epoch >= len(self.epochs):
            raise RefError("NEWKEYS without a further key epoch")
        e = self.epochs[self.n_epoch]
        self.n_epoch += 1
        c = REF_CIPHERS[e["cipher"]]
        m = REF_MACS[e["mac"]]
        self.cur = dict(e, c=c, m=m, mode=framing_mode(e["cipher"], e["mac"]))
        if len(e["key"]) != c["key"]:
            raise RefError("cipher key has %d bytes, %s needs %d" % (len(e["key"]), e["cipher"], c["key"]))
        if c["kind"] == "gcm":
            self.dec = AESGCM(e["key"])
            self.nonce = e["iv"]
            if len(self.nonce) != 12:
                raise RefError("GCM IV is not 12 bytes")
        else:
            if len(e["iv"]) != c["iv"]:
                raise RefError("IV has %d bytes, %s needs %d" % (len(e["iv"]), e["cipher"], c["iv"]))
            mode = modes.CTR(e["iv"]) if c["kind"] == "ctr" else modes.CBC(e["iv"])
            self.dec = Cipher(c["alg"](e["key"]), mode).decryptor()
        if self.strict:
            self.seq = 0
        if self.comp == "zlib" or (self.comp == "zlib@openssh.com" and self.authed):
            self.z = zlib.decompressobj()

    def done(self):
        return self.pos >= len(self.s)

    def next(self):
        """Decode one packet.  Returns the framing facts; raises RefError."""
        start = self.pos
        cur = self.cur
        f = dict(start=start, seq=self.seq, epoch=self.n_epoch)
        if cur is None:
            mode, bs, maclen = "clear", 8, 0
            lenb = self._take(4, "length field")
            plen = struct.unpack(">I", lenb)[0]
            body = self._take(plen, "packet body")
            image = lenb + body
            span = 4 + plen
        else:
            mode = cur["mode"]
            bs = max(8, cur["c"]["bs"])
            if mode == "classic":
                maclen = cur["m"]["out"]
                first = self.dec.update(self._take(bs, "first cipher block"))
                plen = struct.unpack(">I", first[:4])[0]
                if (4 + plen) % bs != 0 or 4 + plen < bs:
                    raise RefError("classic framing: 4+packet_length not a multiple of the block size")
                rest = self.dec.update(self._take(4 + plen - bs, "packet body"))
                image = first + rest
                mac = self._take(maclen, "MAC")
                want = _hmac.new(cur["mac_key"], struct.pack(">I", self.seq) + image, cur["m"]["hash"]).digest()[:maclen]
                f["mac_ok"] = _hmac.compare_digest(want, mac)
                span = 4 + plen
            elif mode == "etm":
                maclen = cur["m"]["out"]
                lenb = self._take(4, "length field")
                plen = struct.unpack(">I", lenb)[0]
                if plen % bs != 0 or plen < bs:
                    raise RefError("etm framing: packet_length not a multiple of the block size")
                ct = self._take(plen, "packet body")
                mac = self._take(maclen, "MAC")
                want = _hmac.new(cur["mac_key"], struct.pack(">I", self.seq) + lenb + ct, cur["m"]["hash"]).digest()[:maclen]
                f["mac_ok"] = _hmac.compare_digest(want, mac)
                image = lenb + self.dec.update(ct)
                span = plen
            else:  # gcm
                maclen = GCM_TAG
                lenb = self._take(4, "length field")
                plen = struct.unpack(">I", lenb)[0]
                if plen % bs != 0 or plen < bs:
                    raise RefError("gcm framing: packet_length not a multiple of the block size")
                ct = self._take(plen + GCM_TAG, "ciphertext+tag")
                try:
                    pt = self.dec.decrypt(self.nonce, ct, lenb)
                    f["mac_ok"] = True
                except Exception:
                    raise RefError("gcm: tag does not verify under the RFC 5647 nonce sequence")
                self.nonce = self.nonce[:4] + ((int.from_bytes(self.nonce[4:], "big") + 1) & (2 ** 64 - 1)).to_bytes(8, "big")
                image = lenb + pt
                span = plen
        pad = image[4]
        f.update(mode=mode, bs=bs, maclen=maclen, plen=plen, pad=pad, image=image, span=span,
                 end=self.pos, wire_len=self.pos - start)
        if plen < 1 + pad:
            raise RefError("padding_length exceeds packet_length")
        raw = image[5:4 + plen - pad]
        f["raw_payload"] = raw
        f["padding"] = image[4 + plen - pad:]
        if self.z is not None:
            try:
                payload = self.z.decompress(raw)
            except zlib.error:
                raise RefError("payload does not inflate")
        else:
            payload = raw
        f["payload"] = payload
        f["compressed"] = self.z is not None
        self.seq = (self.seq + 1) & 0xFFFFFFFF
        if payload[:1] == bytes([T_NEWKEYS]):
            self._switch()
        elif payload[:1] == bytes([T_AUTH_SUCCESS]) and not self.authed:
            self.authed = True
            if self.comp == "zlib@openssh.com":
                self.z = zlib.decompressobj()
        return f

    def all(self):
        out = []
        while not self.done():
            out.append(self.next())
        return out


# --------------------------------------------------------------------------
# workload helpers shared by C01-C04
# --------------------------------------------------------------------------
def boundary_lengths(bs):
    s = set([1, 2, 3, 4, 5, 255, 256, 257])
    for base in (bs, 2 * bs, 3 * bs, 4 * bs):
        for d in range(-9, 10):
            if base + d >= 1:
                s.add(base + d)
    return sorted(s)


BIG_LENGTHS = [32759, 32768, 32777, 35000, 65535, 65536, 65537, 70000]


def rand_type(rng):
    while True:
        t = rng.choice([2, 4, 20, 30, 50, 80, 90, 93, 94, 94, 94, 98, 100, rng.randrange(1, 256)])
        if t not in RESERVED_TYPES:
            return t


def rand_payload(rng, n, compressible=False):
    """n bytes, first = message type."""
    n = max(1, n)
    t = rand_type(rng)
    if n == 1:
        return bytes([t])
    if compressible:
        word = bytes(rng.getrandbits(8) for _ in range(rng.randint(1, 12)))
        body = (word * (n // len(word) + 1))[:n - 1]
    else:
        body = rng.getrandbits(8 * (n - 1)).to_bytes(n - 1, "big")
    return bytes([t]) + body


def frag_named(rng, kind, boundaries=None, mac_len=0):
    """(frag, cuts) for MemSock.load."""
    if kind == "whole":
        return None, None
    if kind == "byte":
        return (lambda n, a: 1), None
    if kind == "small":
        return (lambda n, a: rng.randint(1, 7)), None
    if kind == "random":
        return (lambda n, a: rng.randint(1, max(1, min(n, a)))), None
    if kind == "edges":
        # cut inside every length field and inside every MAC / tag
        cuts = set()
        b = boundaries or []
        for i, s in enumerate(b[:-1]):
            e = b[i + 1]
            for c in (s + 1, s + 2, s + 3, s + 4, s + 5, e - 1, e - mac_len, e - mac_len + 1, e - mac_len - 1):
                if s < c < e:
                    cuts.add(c)
            cuts.add(e)
        return None, cuts
    raise ValueError(kind)
