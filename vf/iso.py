"""Run one case in its own subprocess, so that a call that never returns (the
refuting event of several properties) can be observed without wedging the
shard.  The child installs faulthandler, so a timeout comes back with the
stacks of all its threads.

    res = iso.call("vf.props.c25:case_sendall", dict(state="shut_wr"), timeout=20)
    res == dict(status="ok", value=<json>) | dict(status="timeout", stacks=str)
         | dict(status="error", error=str) | dict(status="died", rc=int, stderr=str)

The target function receives the args dict and returns JSON-serialisable data.
A *hang verdict* must still follow DESIGN §2.4: prefer logical evidence that
the child reports itself (it can print partial JSON lines with `iso.emit`);
otherwise the stacks must show the blocked call and the link must be quiescent.
"""
import importlib
import json
import os
import subprocess
import sys
import tempfile

from vf import core


def emit(obj):
    """Child side: report a partial observation (one JSON line on fd 3-like file)."""
    path = os.environ.get("VF_ISO_EMIT")
    if path:
        with open(path, "a") as f:
            f.write(json.dumps(core.jsonable(obj)) + "\n")


def call(target, args, timeout=30, env=None):
    d = tempfile.mkdtemp(prefix="vf-iso-")
    out = os.path.join(d, "out.json")
    emitp = os.path.join(d, "emit.jsonl")
    errp = os.path.join(d, "err.txt")
    e = dict(os.environ)
    e["VF_ISO_EMIT"] = emitp
    if env:
        e.update(env)
    cmd = [sys.executable, "-B", "-m", "vf.iso", target, json.dumps(args), out, str(timeout)]
    res = None
    with open(errp, "wb") as ef:
        try:
            p = subprocess.run(cmd, stdout=ef, stderr=ef, timeout=timeout + 6, env=e, cwd=core.HOME)
            rc = p.returncode
        except subprocess.TimeoutExpired:
            rc = "killed"
    emitted = []
    if os.path.exists(emitp):
        with open(emitp) as f:
            for ln in f:
                try:
                    emitted.append(json.loads(ln))
                except ValueError:
                    pass
    with open(errp, "rb") as f:
        err = f.read().decode("utf-8", "replace")
    if os.path.exists(out):
        with open(out) as f:
            res = json.load(f)
    elif rc == "killed":
        res = dict(status="timeout", stacks=err[-6000:])
    else:
        res = dict(status="died", rc=rc, stderr=err[-3000:])
    if res.get("status") == "timeout" and "stacks" not in res:
        res["stacks"] = err[-6000:]
    res["emitted"] = emitted
    import shutil

    shutil.rmtree(d, ignore_errors=True)
    return res


def _child():
    import faulthandler
    import threading
    import traceback

    target, args, out, timeout = sys.argv[1], json.loads(sys.argv[2]), sys.argv[3], float(sys.argv[4])
    faulthandler.enable()

    def on_timeout():
        # all-thread stacks to stderr, then report
        faulthandler.dump_traceback(all_threads=True)
        sys.stderr.flush()
        with open(out + ".tmp", "w") as f:
            json.dump(dict(status="timeout"), f)
        os.replace(out + ".tmp", out)
        os._exit(0)

    t = threading.Timer(timeout, on_timeout)
    t.daemon = True
    t.start()
    modname, fn = target.split(":")
    try:
        mod = importlib.import_module(modname)
        val = getattr(mod, fn)(args)
        res = dict(status="ok", value=core.jsonable(val))
    except BaseException:
        res = dict(status="error", error=traceback.format_exc()[-3000:])
    t.cancel()
    with open(out + ".tmp", "w") as f:
        json.dump(res, f)
    os.replace(out + ".tmp", out)
    sys.stdout.flush()
    os._exit(0)


if __name__ == "__main__":
    _child()
