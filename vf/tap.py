"""WireTap: a Packetizer subclass installed through the public
`Transport(packetizer_class=...)` seam.  It records, in wire order, every
message a transport sends and every message its reader thread decodes.

The log order of outbound records equals the order on the wire because
`send_message` is wrapped in the tap's own RLock, taken outside the
packetizer's write lock.  The tap only reads packetizer state (by its
name-mangled attribute names) and never writes it.
"""
import itertools
import threading
import time

from paramiko.packet import Packetizer

_P = "_Packetizer__"


class Recorder:
    """Process-wide, append-only event log with one global order."""

    def __init__(self):
        self.lock = threading.Lock()
        self.events = []
        self.counter = itertools.count()

    def add(self, **kw):
        with self.lock:
            kw["n"] = next(self.counter)
            kw["t"] = time.monotonic()
            self.events.append(kw)
        return kw

    def snapshot(self):
        with self.lock:
            return list(self.events)

    def select(self, **match):
        out = []
        for e in self.snapshot():
            if all(e.get(k) == v for k, v in match.items()):
                out.append(e)
        return out


def pz(packetizer, name):
    return getattr(packetizer, _P + name)


def make_tap(recorder, side, on_send=None, on_read=None):
    """Return a Packetizer subclass bound to `recorder` and labelled `side`.

    on_send(tap, ptype, payload) runs before the message is written, outside
    every paramiko lock except the tap's own (used for delay injection).
    on_read(tap, ptype, msg) runs after a message was decoded.
    """

    class Tap(Packetizer):
        _side = side

        def __init__(self, sock):
            super().__init__(sock)
            self._tap_lock = threading.RLock()
            self.epoch_out = 0
            self.epoch_in = 0
            self._cur_out = None
            self._rd_bytes = 0

        def write_all(self, out):
            # called by send_message with the final wire image of one packet
            # (and once, outside it, with the banner line)
            cur = self._cur_out
            if cur is not None:
                cur["wire_len"] = cur.get("wire_len", 0) + len(out)
            return super().write_all(out)

        def read_all(self, n, check_rekey=False):
            out = super().read_all(n, check_rekey)
            self._rd_bytes += len(out)
            return out

        def send_message(self, data):
            raw = data.asbytes()
            ptype = raw[0] if raw else None
            if on_send is not None:
                on_send(self, ptype, raw)
            with self._tap_lock:
                rec = recorder.add(
                    kind="msg",
                    side=side,
                    dir="out",
                    type=ptype,
                    payload=raw,
                    seq=pz(self, "sequence_number_out"),
                    enc=pz(self, "block_engine_out") is not None,
                    epoch=self.epoch_out,
                    thread=threading.get_ident(),
                    done=False,
                )
                self._cur_out = rec
                try:
                    super().send_message(data)
                finally:
                    self._cur_out = None
                rec["done"] = True

        def read_message(self):
            self._rd_bytes = 0
            try:
                ptype, m = super().read_message()
            except Exception as e:
                if type(e).__name__ != "NeedRekeyException":
                    recorder.add(kind="readerr", side=side, exc=type(e).__name__, text=str(e)[:200])
                raise
            recorder.add(
                kind="msg",
                side=side,
                dir="in",
                type=ptype,
                payload=bytes([ptype]) + m.asbytes(),
                seq=m.seqno,
                enc=pz(self, "block_engine_in") is not None,
                epoch=self.epoch_in,
                wire_len=self._rd_bytes,
            )
            if on_read is not None:
                on_read(self, ptype, m)
            return ptype, m

        def set_outbound_cipher(self, *a, **kw):
            with self._tap_lock:
                self.epoch_out += 1
                recorder.add(kind="keys", side=side, dir="out", epoch=self.epoch_out,
                             mac_key=kw.get("mac_key"), iv=kw.get("iv_out"),
                             block_size=kw.get("block_size"), mac_size=kw.get("mac_size"),
                             etm=kw.get("etm", False), aead=kw.get("aead", False))
                return super().set_outbound_cipher(*a, **kw)

        def set_inbound_cipher(self, *a, **kw):
            self.epoch_in += 1
            recorder.add(kind="keys", side=side, dir="in", epoch=self.epoch_in,
                         mac_key=kw.get("mac_key"), iv=kw.get("iv_in"),
                         block_size=kw.get("block_size"), mac_size=kw.get("mac_size"),
                         etm=kw.get("etm", False), aead=kw.get("aead", False))
            return super().set_inbound_cipher(*a, **kw)

        def reset_seqno_out(self):
            recorder.add(kind="seqreset", side=side, dir="out")
            return super().reset_seqno_out()

        def reset_seqno_in(self):
            recorder.add(kind="seqreset", side=side, dir="in")
            return super().reset_seqno_in()

        def _trigger_rekey(self):
            recorder.add(kind="rekey_trigger", side=side)
            return super()._trigger_rekey()

    Tap.__name__ = "Tap_" + side
    return Tap
