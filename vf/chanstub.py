"""A real paramiko.Channel attached to a stub transport (no sockets, no threads).

Only what Channel's receive/notify/send paths touch is stubbed: the transport's
``_send_user_message`` (records), ``_unlink_channel``, ``get_log_channel`` and
``_sanitize_packet_size``.  Everything judged (buffers, pipes, notifiers, file
wrappers) is the unmodified library code.
"""
import threading

from paramiko.channel import Channel
from paramiko.message import Message


class StubTransport:
    active = True
    server_object = None

    def __init__(self):
        self.sent = []  # raw bytes of every message the channel emitted
        self.unlinked = []
        self.lock = threading.Lock()

    def _send_user_message(self, m):
        self.sent.append(m.asbytes())

    def _unlink_channel(self, chanid):
        self.unlinked.append(chanid)

    def get_log_channel(self):
        return "paramiko.transport"

    def _sanitize_packet_size(self, n):
        return n

    def get_exception(self):
        return None

    def is_active(self):
        return True

    def getpeername(self):
        return ("stub", 0)


def make_channel(window=2 ** 21, max_packet=2 ** 15, out_window=2 ** 21, out_max_packet=2 ** 15, chanid=1):
    t = StubTransport()
    c = Channel(chanid)
    c._set_transport(t)
    c._set_window(window, max_packet)
    c._set_remote_channel(7, out_window, out_max_packet)
    return c, t


def msg_data(data):
    """The Message Transport would hand to Channel._feed (after the channel id)."""
    m = Message()
    m.add_string(data)
    return Message(m.asbytes())


def msg_ext(data, code=1):
    m = Message()
    m.add_int(code)
    m.add_string(data)
    return Message(m.asbytes())


def sent_data(t):
    """Concatenated CHANNEL_DATA payloads the channel emitted (parsed independently)."""
    import struct

    out = bytearray()
    for raw in t.sent:
        if raw[0] == 94:  # SSH_MSG_CHANNEL_DATA: byte, uint32 chan, string data
            (ln,) = struct.unpack(">I", raw[5:9])
            out += raw[9:9 + ln]
    return bytes(out)
