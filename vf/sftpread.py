"""C28 engine: prefetch()/readv() against a server that returns short reads,
with overlapping / unordered / beyond-EOF chunk lists and optional caps on
concurrent requests.  Oracle = slices of the served bytes.

A case is a JSON-able dict so that it can be replayed alone in a subprocess
(`vf.iso.call("vf.sftpread:iso_case", case)`).

Hang verdicts (DESIGN §2.4 rule 1, logical evidence): the calling thread sits in
the pipe's recv(), every request on the wire has been answered and every
answer byte has been consumed, and every other client thread has ended or sits
in the prefetch throttle loop (which only a response could release).  No
response can arrive any more, so the call never returns.  The condition must
hold, unchanged, on several consecutive samples; anything else that exceeds the
case cap is *inconclusive*.
"""
import os
import random
import shutil
import sys
import tempfile
import threading
import time

from vf import sftpbench, sftpfaults


_content_cache = {}


def first_diff(a, b):
    """Index of the first differing byte (min length if one is a prefix)."""
    lo, hi = 0, min(len(a), len(b))
    if a[:hi] == b[:hi]:
        return hi
    while lo < hi:
        mid = (lo + hi + 1) // 2
        if a[:mid] == b[:mid]:
            lo = mid
        else:
            hi = mid - 1
    return lo


def content(size, cseed):
    """Position-revealing bytes: a 6-hex-digit counter every 8 bytes plus seeded filler."""
    key = (size, cseed)
    if key not in _content_cache:
        if len(_content_cache) > 64:
            _content_cache.clear()
        _content_cache[key] = _content(size, cseed)
    return _content_cache[key]


def _content(size, cseed):
    rnd = random.Random(cseed)
    if size > 4096:
        # one seeded 4 KiB block pattern, then stamp the counters with bytes-join (fast)
        filler = rnd.randbytes(2)
        return b"".join(b"%06x" % i + filler for i in range((size + 7) // 8))[:size]
    filler = rnd.randbytes(64)
    out = bytearray()
    i = 0
    while len(out) < size:
        out += b"%06x" % (i & 0xFFFFFF)
        out += filler[(i * 2) % 62:(i * 2) % 62 + 2]
        i += 1
    return bytes(out[:size])


SIZES = [0, 1, 2, 3, 100, 4095, 32767, 32768, 32769, 65535, 65536, 65537, 98304, 100000, 200000, 307200]


def gen_case(rng, idx=0, quick=True):
    r = rng.random()
    if r < 0.45:
        size = rng.choice(SIZES)
    elif r < 0.8:
        size = rng.randint(0, 5000)
    else:
        size = rng.randint(0, 307200)
    # server short-read policy (bounded so that a case stays a few hundred requests)
    floor = max(1, size // 150)
    pol = rng.random()
    if pol < 0.3:
        short = None
    elif pol < 0.55:
        short = ("fixed", rng.randint(floor, max(floor, min(size, 40000)) or 1))
    elif pol < 0.8:
        short = ("cycle", [rng.randint(floor, max(floor, 33000)) for _ in range(rng.randint(2, 5))])
    else:
        short = ("frac", rng.randint(1, 9), 10) if size > 1500 else ("fixed", rng.randint(1, 7))
    short_at = {}
    if short is None and rng.random() < 0.4:
        for _ in range(rng.randint(1, 3)):
            short_at[rng.randint(0, 12)] = rng.randint(floor, max(floor, 20000))

    def cap():
        return rng.choice([None, None, 1, 2, 3, 4, 5, 6, 7, 8])

    def off(extra=40):
        c = rng.random()
        if c < 0.15:
            return 0
        if c < 0.3:
            return size
        if c < 0.4:
            return max(0, size - rng.randint(0, 10))
        return rng.randint(0, size + extra)

    def ln():
        c = rng.random()
        if c < 0.05:
            return 0
        if c < 0.5:
            return rng.randint(1, 200)
        if c < 0.8:
            return rng.randint(1, 40000)
        return rng.choice([32767, 32768, 32769, 65536, rng.randint(1, 80000)])

    def chunks():
        n = rng.randint(1, 10)
        style = rng.random()
        out = []
        if style < 0.3:  # ordered, non-overlapping, inside the file
            o = rng.randint(0, max(0, size // 2))
            for _ in range(n):
                l = ln()
                out.append((o, l))
                o += l + rng.randint(0, 3000)
        elif style < 0.6:  # overlapping neighbours
            o = off()
            for _ in range(n):
                l = ln()
                out.append((o, l))
                o = max(0, o + rng.randint(-l, l))
        else:  # anything, unordered, beyond EOF
            for _ in range(n):
                out.append((off(70000 if rng.random() < 0.2 else 40), ln()))
            if rng.random() < 0.3:
                out.append(out[rng.randrange(len(out))])
        return [list(c) for c in out]

    steps = []
    kind = rng.choice(["prefetch", "prefetch", "readv", "readv", "mixed"])
    if kind in ("prefetch", "mixed"):
        if rng.random() < 0.3:
            steps.append(["seek", off(0)])
        if rng.random() < 0.2:
            steps.append(["read", rng.randint(0, 3000)])
        fs = rng.random()
        # file_size argument: None (stat), exact, or a caller-supplied value that exceeds the file
        fsz = None if fs < 0.5 else 0 if fs < 0.8 else rng.choice([1, 7, 32768, 40000])
        steps.append(["prefetch", fsz, cap()])
        for _ in range(rng.randint(1, 8)):
            c = rng.random()
            if c < 0.5:
                steps.append(["read", rng.choice([1, 10, rng.randint(0, 5000), 32768, rng.randint(1, 100000)])])
            elif c < 0.85:
                steps.append(["seek", off()])
            else:
                steps.append(["read", None])
        if rng.random() < 0.6:
            steps.append(["read", None])
    if kind in ("readv", "mixed"):
        steps.append(["readv", chunks(), cap()])
        if rng.random() < 0.35:
            steps.append(["readv", chunks(), cap()])
        if rng.random() < 0.4:
            steps.append(["seek", off()])
            steps.append(["read", rng.choice([None, rng.randint(0, 70000)])])
    bufsize = rng.choice([-1, -1, -1, 0, 1, 64, 8192, 65536])
    bounded = None
    stratum = rng.random()
    if stratum < 0.22:
        # small flow-control windows: requests direction ~3 requests in flight, answers < 2 full replies
        bounded = rng.choice([[128, 49152], [64, 32768], [128, 40000], [512, 65536], [40, 49152]])
        size = rng.choice([100000, 131072, 200000, 307200])
        short, short_at = rng.choice([None, None, ("fixed", rng.randint(8000, 32768))]), {}
        steps = []
        if rng.random() < 0.6:
            steps.append(["prefetch", rng.choice([None, 0]), cap()])
            steps.append(["pause", rng.choice([0.05, 0.15, 0.3])])
            for _ in range(rng.randint(1, 4)):
                steps.append(rng.choice([["read", rng.choice([1, 4096, 32768, 50000, 100000])], ["seek", rng.randint(0, size)]]))
            steps.append(["read", None])
        else:
            o = rng.randint(0, size // 2)
            steps.append(["readv", [[o + i * 33000, 32768] for i in range(rng.randint(3, 7))] + [[size - 10, 50]], cap()])
            steps.append(["pause", 0.05])
            steps.append(["seek", 0])
            steps.append(["read", None])
    elif stratum < (0.25 if quick else 0.23):
        # a second readv() while the prefetch thread of the first is still registering thousands of requests
        size = rng.choice([20000, 65536, 150000])
        short, short_at = None, {}
        n1 = rng.choice([1000, 1500])  # beyond ~2000 buffered ranges the reads themselves become quadratic
        c1 = [[rng.randint(0, size - 1), rng.randint(1, 48)] for _ in range(n1)]
        # many ranges in the second call: each one walks the request table the first call's thread is still filling
        c2 = [[rng.randint(0, size + 20), rng.randint(1, 300)] for _ in range(rng.randint(150, 250) if quick else rng.randint(150, 400))] + [[size + 5, 10], [max(0, size - 7), 30]]
        rng.shuffle(c2)
        steps = [["readv_pair", c1, rng.choice([None, None, 8]), c2, cap(), 2 if quick else rng.choice([5, 10])]]
        if rng.random() < 0.5:
            steps.append(["read", None])
    return dict(bounded=bounded, size=size, cseed=rng.randrange(1 << 30), short=short, short_at=short_at, steps=steps,
                bufsize=bufsize, jitter=rng.choice([0, 0, 1, 2]), gated=rng.random() < 0.2, jseed=rng.randrange(1 << 30),
                early=rng.random() < 0.4)


# --------------------------------------------------------------------------
def _paramiko_chain(frame):
    """Function names of the paramiko frames of a stack, outermost first."""
    names = []
    f = frame
    while f is not None:
        fn = f.f_code.co_filename
        if os.sep + "paramiko" + os.sep in fn:
            names.append(f.f_code.co_name)
        f = f.f_back
    return list(reversed(names))


def _innermost(frame):
    return frame.f_code.co_name, os.path.basename(frame.f_code.co_filename)


def _in_pipe_recv(frame):
    f = frame
    for _ in range(4):
        if f is None:
            return False
        if f.f_code.co_name == "recv" and f.f_code.co_filename.endswith("sftpbench.py"):
            return True
        f = f.f_back
    return False


def watch(wire, w, before, exclude, is_done, cap, progress=lambda: None, quiet_s=10.0):
    """Watch worker thread `w` until `is_done()`.  Returns None when it finished,
    dict(status="hang", ...) on the blocked-at-quiescence evidence described in
    the module docstring, dict(status="watchdog", ...) when `cap` seconds passed
    without it (inconclusive)."""
    t0 = time.monotonic()
    stable = []
    qstable = []
    nap = 0.002
    while not is_done():
        w.join(nap)  # returns at once when the worker ends
        nap = min(0.02, nap * 1.5)
        if is_done():
            break
        now = time.monotonic()
        if now - t0 < 0.05:
            continue
        fr = sys._current_frames()
        wf = fr.get(w.ident)
        if wf is None:
            continue
        others = [t for t in threading.enumerate()
                  if t not in before and t is not w and t not in exclude and t.is_alive()]
        reqs, resps = len(wire.requests()), len(wire.responses())
        with wire.s2c.cv:
            pending = len(wire.s2c.buf) + len(wire.s2c.held)
        cond = (reqs == resps and pending == 0 and _in_pipe_recv(wf))
        osig = []
        for t in others:
            tf = fr.get(t.ident)
            if tf is None:
                continue
            nm = _innermost(tf)
            osig.append(nm)
            if nm != ("_prefetch_thread", "sftp_file.py"):
                cond = False
        snap_ = (reqs, resps, tuple(_paramiko_chain(wf)), tuple(osig), progress())
        if getattr(wire, "bounded", False):
            # DESIGN 2.4 rule 2 (blocked at quiescence): no byte moved in either direction and no thread of the
            # case (caller, prefetch threads, server) changed its position for >= quiet_s seconds
            def pos(fr_):
                nm = _innermost(fr_)
                return nm if nm == ("_prefetch_thread", "sftp_file.py") else nm + (fr_.f_lineno,)

            tstate = [pos(wf)]
            for t in others + [x for x in exclude if x is not None and x.is_alive()]:
                tf = fr.get(t.ident)
                if tf is not None:
                    tstate.append((t.name.split(" ")[0],) + pos(tf))
            with wire.s2c.cv:
                b1 = (len(wire.s2c.raw), len(wire.s2c.buf))
            with wire.c2s.cv:
                b2 = (len(wire.c2s.raw), len(wire.c2s.buf))
            q = (b1, b2, tuple(tstate), progress())
            if qstable and qstable[1] == q:
                # a caller that is itself a sender stuck on the full pipe is not judged by anybody (capacity
                # deadlock, see vf/props/c28.py): no need to sit out the whole margin
                caller_sending = any(x is not None and x.f_code.co_name == "send" and x.f_code.co_filename.endswith("sftpfaults.py")
                                     for x in (wf, wf.f_back, wf.f_back.f_back if wf.f_back else None))
                if now - qstable[0] >= (2.0 if caller_sending else quiet_s):
                    import traceback

                    return dict(status="hang", kind="blocked_at_quiescence", chain=list(snap_[2]), requests=reqs, responses=resps,
                                throttled_threads=len(osig), progress=snap_[4], quiet_s=round(now - qstable[0], 1),
                                pipes=dict(s2c_unread=b1[1], c2s_unread=b2[1]), threads=[list(map(str, x)) for x in tstate],
                                stacks={t.name: "".join(traceback.format_stack(fr[t.ident]))[-700:]
                                        for t in [w] + others if t.ident in fr})
            else:
                qstable[:] = [now, q]
        if cond:
            if stable and stable[-1][1] != snap_:
                stable = []
            stable.append((now, snap_))
            if len(stable) >= 4 and now - stable[0][0] >= 0.6:
                return dict(status="hang", chain=list(snap_[2]), requests=reqs, responses=resps,
                            throttled_threads=len(osig), progress=snap_[4])
        else:
            stable = []
        if now - t0 > cap:
            import traceback

            return dict(status="watchdog", chain=_paramiko_chain(wf), requests=reqs, responses=resps,
                        stack="".join(traceback.format_stack(wf))[-1500:])
    return None


class CaseRun:
    def __init__(self, case, root=None, cap=90.0):
        self.case = case
        self.cap = cap
        self.own_root = root is None
        self.root = root or tempfile.mkdtemp(prefix="vf-c28-")
        self.data = content(case["size"], case["cseed"])
        self.results = []  # per step dict
        self.exc = None
        self.cur = -1

    def _worker(self):
        f = self.f
        pos = 0  # oracle position
        data = self.data
        try:
            for i, st in enumerate(self.case["steps"]):
                self.cur = i
                k = st[0]
                rec = dict(i=i, op=k)
                try:
                    if k == "seek":
                        f.seek(st[1])
                        pos = st[1]
                        rec.update(ok=True)
                    elif k == "read":
                        got = f.read() if st[1] is None else f.read(st[1])
                        want = data[pos:] if st[1] is None else data[pos:pos + st[1]]
                        pos += len(want)
                        rec.update(ok=got == want, got=got, want=want, at=pos - len(want))
                    elif k == "prefetch":
                        fsz = None if st[1] is None else len(data) + st[1]
                        f.prefetch(fsz, st[2]) if st[2] is not None else f.prefetch(fsz)
                        rec.update(ok=True)
                    elif k == "pause":
                        time.sleep(st[1])
                        rec.update(ok=True)
                    elif k == "readv_pair":
                        c1 = [tuple(c) for c in st[1]]
                        c2 = [tuple(c) for c in st[3]]
                        rec.update(ok=True, sub=[])
                        swi = sys.getswitchinterval()
                        sys.setswitchinterval(0.0002)  # schedule perturbation: switch threads 25x more often
                        for rnd in range(st[5]):
                            self.cur = (i, rnd)
                            it1 = f.readv(c1, st[2]) if st[2] is not None else f.readv(c1)
                            got1 = [next(it1)]
                            # is the first call's prefetch thread still registering its requests?
                            alive = any("_prefetch_thread" in t.name and t.is_alive() for t in threading.enumerate())
                            if alive and len(self.prefetch_ids) < self.expected_prefetch + len(c1):
                                self.concurrent_overlaps += 1
                            self.expected_prefetch = len(self.prefetch_ids)
                            got2 = list(f.readv(c2, st[4]) if st[4] is not None else f.readv(c2))
                            got1 += list(it1)
                            for (o, l), got in list(zip(c1, got1)) + list(zip(c2, got2)):
                                want = data[o:o + l]
                                if got != want and len(rec["sub"]) < 4:
                                    rec["ok"] = False
                                    rec["sub"].append(dict(chunk=[o, l], ok=False, got=got, want=want, round=rnd))
                            if len(got1) != len(c1) or len(got2) != len(c2):
                                rec["ok"] = False
                                rec["extra_item"] = True
                            rec["chunks_compared"] = rec.get("chunks_compared", 0) + len(c1) + len(c2)
                            if not rec["ok"]:
                                break
                        sys.setswitchinterval(swi)
                        pos = f.tell()
                        self.expected_prefetch = len(self.prefetch_ids)
                    elif k == "readv":
                        chunks = [tuple(c) for c in st[1]]
                        it = f.readv(chunks, st[2]) if st[2] is not None else f.readv(chunks)
                        gots = []
                        rec.update(ok=True, sub=[])
                        for ci, (o, l) in enumerate(chunks):
                            self.cur = (i, ci)
                            got = next(it)
                            want = data[o:o + l]
                            good = got == want
                            rec["sub"].append(dict(chunk=[o, l], ok=good, got=None if good else got, want=None if good else want))
                            if not good:
                                rec["ok"] = False
                            pos = o + len(want)
                        try:
                            next(it)
                            rec["ok"] = False
                            rec["extra_item"] = True
                        except StopIteration:
                            pass
                except Exception as e:  # noqa
                    rec.update(ok=False, exc=e)
                self.results.append(rec)
                if not rec["ok"]:
                    break
        finally:
            self.done = True

    def run(self):
        case = self.case
        path = os.path.join(self.root, "f")
        with open(path, "wb") as fh:
            fh.write(self.data)
        jr = random.Random(case["jseed"])
        delay = None
        if case["jitter"]:
            delay = lambda kind, n: jr.choice([0, 0, 0.0005, 0.002]) if case["jitter"] == 1 else jr.choice([0, 0.001, 0.004])  # noqa
        script = sftpfaults.Script(short=tuple(case["short"]) if case["short"] else None,
                                   short_at={int(k): v for k, v in case["short_at"].items()}, delay=delay)
        self.script = script
        before = set(threading.enumerate())
        self.concurrent_overlaps = 0
        self.expected_prefetch = 0
        if case.get("bounded"):
            self.bench = b = sftpfaults.BoundedBench(self.root, case["bounded"][0], case["bounded"][1],
                                                     si_cls=sftpfaults.FaultyServer, si_kwargs=dict(script=script))
        else:
            self.bench = b = sftpbench.Bench(self.root, si_cls=sftpfaults.FaultyServer, si_kwargs=dict(script=script))
        wire = b.wire
        out = dict(status="ok")
        pump = None
        try:
            self.f = f = b.client.open("/f", "rb", case["bufsize"])
            script.reset()
            n_open = len(wire.packets)
            # observe (and for jitter==2 perturb) the two places where the
            # prefetch thread and the reader meet
            real_req = b.client._async_request
            real_resp = f._async_response
            real_start = f._start_prefetch
            jr2 = random.Random(case["jseed"] + 1)
            jit = case["jitter"] == 2
            self.prefetch_ids = set()
            self.dispatched = set()  # request numbers whose answer entered _async_response
            self.early_answers = 0  # answers dispatched before the prefetch thread registered the request
            self.started = []  # chunk-list length of every _start_prefetch

            def areq(fileobj, *a, **kw):
                if jit and jr2.random() < 0.3:
                    time.sleep(jr2.choice([0.0002, 0.001, 0.003]))
                num = real_req(fileobj, *a, **kw)
                if fileobj is f:
                    self.prefetch_ids.add(num)
                    if case.get("early"):
                        # deterministic "answer before registration" schedule: hold the
                        # prefetch thread at the return of _async_request (i.e. before it
                        # executes `_prefetch_extents[num] = ...`) until the reader has
                        # dispatched the answer to this very request into
                        # _async_response (bounded: the reader may not be reading)
                        end = time.monotonic() + 0.05
                        while num not in self.dispatched and time.monotonic() < end:
                            time.sleep(0.0003)
                        if num in self.dispatched:
                            self.early_answers += 1
                return num

            def aresp(t, msg, num, *a, **kw):
                self.dispatched.add(num)
                if jit and jr2.random() < 0.3:
                    time.sleep(jr2.choice([0.0002, 0.001]))
                return real_resp(t, msg, num, *a, **kw)

            def astart(chunks, *a, **kw):
                self.started.append(len(chunks))
                return real_start(chunks, *a, **kw)

            real_chk = f._check_exception
            self.saved_raised = []

            def achk():
                try:
                    return real_chk()
                except BaseException as e:
                    self.saved_raised.append(type(e).__name__)
                    raise

            b.client._async_request = areq
            f._async_response = aresp
            f._start_prefetch = astart
            f._check_exception = achk
            stop_pump = threading.Event()
            if case["gated"] and not case.get("bounded"):
                wire.hold_replies()
                jr3 = random.Random(case["jseed"] + 2)

                def pumpfn():
                    while not stop_pump.is_set():
                        wire.release_replies(jr3.randint(1, 4))
                        time.sleep(jr3.choice([0.0003, 0.001, 0.002]))
                    wire.release_replies(None)

                pump = threading.Thread(target=pumpfn, daemon=True, name="vf-pump")
                pump.start()
            self.done = False
            w = threading.Thread(target=self._worker, daemon=True, name="vf-c28-worker")
            w.start()
            hang = watch(wire, w, before, (b.server_thread, pump), lambda: self.done, self.cap, lambda: self.cur)

            if hang is not None:
                out = hang
                if out["status"] == "hang":
                    out["at_step"] = out.pop("progress", None)
                    out["state"] = dict(extents=len(f._prefetch_extents), done=f._prefetch_done,
                                        prefetching=f._prefetching,
                                        saved=type(f._saved_exception).__name__ if f._saved_exception else None,
                                        buffers=len(f._prefetch_data))
            stop_pump.set()
            # wire facts (after the open)
            with wire.plock:
                pk = list(wire.packets[n_open:])
            reads = {p["id"]: p for p in pk if p["dir"] == "c2s" and p["type"] == 5}
            status_to_read = 0
            short_inside = 0
            for p in pk:
                if p["dir"] != "s2c" or p["id"] not in reads:
                    continue
                rq = reads[p["id"]]["body"]
                hl = int.from_bytes(rq[4:8], "big")
                o = int.from_bytes(rq[8 + hl:16 + hl], "big")
                l = int.from_bytes(rq[16 + hl:20 + hl], "big")
                if p["type"] == 101:
                    if p["id"] in self.prefetch_ids:
                        status_to_read += 1
                elif p["type"] == 103:
                    dl = int.from_bytes(p["body"][4:8], "big")
                    if dl < l and o + dl < len(self.data):
                        short_inside += 1
            out.update(read_requests=len(reads), prefetch_requests=len(self.prefetch_ids),
                       prefetch_starts=list(self.started), status_replies_to_reads=status_to_read,
                       saved_exceptions_raised=list(self.saved_raised), early_answers=self.early_answers,
                       concurrent_overlaps=self.concurrent_overlaps, bounded=case.get("bounded"),
                       sender_blocked=[getattr(wire.client_end, "blocked", 0), getattr(wire.server_end, "blocked", 0)],
                       short_replies_inside_file=short_inside, results=self.results)
        finally:
            try:
                b.close()
            except Exception:
                pass
            if self.own_root:
                shutil.rmtree(self.root, ignore_errors=True)
        return out


def summarize(out):
    """JSON-able, compact version of a CaseRun result."""
    res = []
    for r in out.get("results", []):
        d = dict(i=r["i"], op=r["op"], ok=r["ok"])
        if "exc" in r:
            d["exc"] = "%s: %s" % (type(r["exc"]).__name__, str(r["exc"])[:80])
        if r["op"] == "read" and not r["ok"] and "got" in r:
            d.update(at=r["at"], got_len=len(r["got"]), want_len=len(r["want"]), got_head=r["got"][:16], want_head=r["want"][:16])
        if r["op"] in ("readv", "readv_pair"):
            d["sub"] = [dict(chunk=s["chunk"], ok=s["ok"], got_len=None if s["ok"] else len(s["got"]),
                             want_len=None if s["ok"] else len(s["want"])) for s in r.get("sub", [])][:14]
        res.append(d)
    o = {k: v for k, v in out.items() if k != "results"}
    o["results"] = res
    return o


def iso_case(case):
    """Replay one case alone in a subprocess (vf.iso target)."""
    import logging

    logging.getLogger("paramiko").addHandler(logging.NullHandler())
    logging.getLogger("paramiko").propagate = False
    return summarize(CaseRun(case, cap=25.0).run())
