"""Tiny ProxyCommand relay for the C13 check (run as `python -S -E c13_relay.py PORT`).

Connects stdin/stdout to a TCP socket on 127.0.0.1:PORT (where the harness's
server Transport listens) and shuttles bytes both ways.  It exits
  * with status 0 on SIGUSR1 ("exit on command"),
  * when the TCP peer closes or stdin reaches EOF,
  * or when it is killed (SIGTERM / SIGKILL).
Nothing is written to stderr (paramiko's ProxyCommand never reads it).
"""
import os
import select
import signal
import socket
import sys


def main():
    port = int(sys.argv[1])
    signal.signal(signal.SIGUSR1, lambda *a: os._exit(0))
    s = socket.create_connection(("127.0.0.1", port))
    s.setsockopt(socket.IPPROTO_TCP, socket.TCP_NODELAY, 1)
    sfd = s.fileno()
    while True:
        r, _, _ = select.select([0, sfd], [], [])
        if 0 in r:
            d = os.read(0, 65536)
            if not d:
                break
            s.sendall(d)
        if sfd in r:
            try:
                d = s.recv(65536)
            except OSError:
                break
            if not d:
                break
            while d:
                n = os.write(1, d)
                d = d[n:]
    os._exit(0)


if __name__ == "__main__":
    try:
        main()
    except BaseException:
        os._exit(1)
