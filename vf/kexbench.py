"""Threadless benches for the key-exchange layer.

* `bench_transport(...)`: a real `paramiko.Transport` that is never started,
  over a dummy socket, with a packetizer that only captures what would be sent.
  Used to drive the real `_send_kex_init` / `_parse_kex_init`.
* `StubTransport`: the minimal surface a kex engine touches, recording every
  call (`_send_message`, `_expect_packet`, `_set_K_H`, `_verify_key`,
  `_activate_outbound`).  Used to drive real kex engines through
  `start_kex()` / `parse_next()`.
* `modulus_pack()`: a real `ModulusPack` read (with the real `read_file`) from a
  moduli(5) file the harness writes into a temp dir, built from the RFC 2409 /
  RFC 3526 MODP safe primes.  The 1024/2048/4096-bit ones are taken from the
  tree's own kex_group1/14/16 modules; 1536 and 3072 are recomputed from the
  RFC formula (2^n - 2^(n-64) - 1 + 2^64*(floor(2^(n-130)*pi) + c)) and only
  used when the same formula reproduces the three known ones and a
  Miller-Rabin test passes.
"""
import functools
import os
import shutil
import tempfile

from paramiko.packet import Packetizer


class DummySock:
    def settimeout(self, t):
        pass

    def send(self, b):
        return len(b)

    def recv(self, n):
        return b""

    def close(self):
        pass


class CapturePacketizer(Packetizer):
    """Never writes; keeps the payload (type byte included) of every message."""

    def __init__(self, sock):
        super().__init__(sock)
        self.sent = []

    def send_message(self, data):
        self.sent.append(data.asbytes())


def bench_transport(server=False, keys=(), pack=None, prefs=None, **kw):
    import paramiko

    t = paramiko.Transport(DummySock(), packetizer_class=CapturePacketizer, **kw)
    for kind, names in (prefs or {}).items():
        setattr(t, "_preferred_" + kind, tuple(names))
    if server:
        t.server_mode = True  # what start_server() does before the thread runs
        for k in keys:
            t.add_server_key(k)
        t._modulus_pack = pack  # instance attribute shadows the class-level pack
    return t


# --------------------------------------------------------------------------
# MODP primes and a ModulusPack


def _pi_fixed(bits):
    """floor(pi * 2^bits) by Machin's formula in integer arithmetic."""
    guard = 64
    one = 1 << (bits + guard)

    def arctan_inv(x):
        total = term = one // x
        x2 = x * x
        n = 1
        while term:
            term //= x2
            n += 2
            total += -(term // n) if (n // 2) % 2 else term // n
        return total

    pi = 4 * (4 * arctan_inv(5) - arctan_inv(239))
    return pi >> guard


def _modp(n, c):
    return (1 << n) - (1 << (n - 64)) - 1 + (1 << 64) * ((_pi_fixed(n - 130)) + c)


def _miller_rabin(n, bases=(2, 3, 5, 7, 11)):
    if n < 4 or n % 2 == 0:
        return n in (2, 3)
    d, s = n - 1, 0
    while d % 2 == 0:
        d //= 2
        s += 1
    for a in bases:
        x = pow(a, d, n)
        if x in (1, n - 1):
            continue
        for _ in range(s - 1):
            x = pow(x, 2, n)
            if x == n - 1:
                break
        else:
            return False
    return True


@functools.lru_cache(None)
def modp_primes():
    """{bits: p} — safe primes with generator 2."""
    from paramiko.kex_group1 import KexGroup1
    from paramiko.kex_group14 import KexGroup14
    from paramiko.kex_group16 import KexGroup16SHA512

    known = {1024: KexGroup1.P, 2048: KexGroup14.P, 4096: KexGroup16SHA512.P}
    out = dict(known)
    consts = {1024: 129093, 2048: 124476, 4096: 240904}
    try:
        formula_ok = all(_modp(n, c) == known[n] for n, c in consts.items())
    except Exception:
        formula_ok = False
    if formula_ok:
        for n, c in ((1536, 741804), (3072, 1690314)):
            p = _modp(n, c)
            if p.bit_length() == n and _miller_rabin(p) and _miller_rabin((p - 1) // 2, (2, 3)):
                out[n] = p
    return out


def write_moduli(path, primes=None):
    primes = primes or modp_primes()
    with open(path, "w") as f:
        f.write("# harness moduli file: RFC 2409/3526 MODP groups\n")
        for bits, p in sorted(primes.items()):
            # time type tests tries size generator modulus; the real file understates size by 1
            f.write("20260921000000 2 6 100 %d 2 %X\n" % (bits - 1, p))
        # entries the real parser must discard (sieve only / composite type / wrong size)
        f.write("20260921000000 2 2 0 1023 2 %X\n" % primes[1024])
        f.write("20260921000000 0 6 100 1023 2 %X\n" % primes[1024])
        f.write("20260921000000 2 6 100 1500 2 %X\n" % primes[1024])


@functools.lru_cache(None)
def modulus_pack():
    from paramiko.primes import ModulusPack

    d = tempfile.mkdtemp(prefix="vf-moduli-")
    try:
        fn = os.path.join(d, "moduli")
        write_moduli(fn)
        pack = ModulusPack()
        pack.read_file(fn)
    finally:
        shutil.rmtree(d, ignore_errors=True)
    if sorted(pack.pack) != sorted(modp_primes()):
        raise RuntimeError("ModulusPack.read_file kept %r, wrote %r" % (sorted(pack.pack), sorted(modp_primes())))
    return pack


# --------------------------------------------------------------------------
# Stub transport for kex engines


class StubTransport:
    """What a kex engine sees of its transport; every call is recorded in
    `.calls` as (name, detail)."""

    local_version = "SSH-2.0-vf_local"
    remote_version = "SSH-2.0-vf_remote"
    local_kex_init = b"\x14local-kexinit"
    remote_kex_init = b"\x14remote-kexinit"

    def __init__(self, server_mode, host_key=None, host_key_type=None, pack=None):
        self.server_mode = server_mode
        self._host_key = host_key
        self.host_key_type = host_key_type
        self._pack = pack
        self.calls = []
        self.K = None
        self.H = None
        self.expected = ()

    # recorded surface -----------------------------------------------------
    def _send_message(self, m):
        raw = m.asbytes()
        self.calls.append(("send", raw[0], raw))

    def _expect_packet(self, *ptypes):
        self.expected = tuple(ptypes)
        self.calls.append(("expect", tuple(ptypes)))

    def _set_K_H(self, k, h):
        self.K, self.H = k, h
        self.calls.append(("set_K_H", k))

    def _verify_key(self, host_key, sig):
        self.calls.append(("verify_key", host_key))

    def _activate_outbound(self):
        self.calls.append(("activate_outbound",))

    # passive surface ------------------------------------------------------
    def get_server_key(self):
        return self._host_key

    def _get_modulus_pack(self):
        return self._pack

    def _log(self, level, msg, *args):
        pass

    def names(self, start=0):
        return [c[0] for c in self.calls[start:]]

    def sent(self, start=0):
        return [c for c in self.calls[start:] if c[0] == "send"]
