"""Server variants for the SFTP client-side checks (C27-C29), built on
vf.sftpbench without touching it.

* `RawDirServer` — like `DirServer` but the per-handle file object is
  *unbuffered* (`os.fdopen(fd, mode, 0)`).  The stock DirServer (like the
  repository's tests/_stub_sftp.py) hands SFTPHandle a buffered Python file; a
  size change arriving by FSETSTAT is applied through a second descriptor
  (`SFTPServer.set_file_attr(filename)`), after which the buffered object keeps
  serving stale bytes.  That is a property of the server *application*, not of
  the library under test, so the differential check uses a server whose reads
  always reflect the disk.
* `FaultyServer` / `FaultyHandle` — scripted faults per handle: short reads,
  the n-th READ / WRITE answered with a chosen SFTP status code, delays.
"""
import os
import threading
import time

from paramiko import SFTPServer, SFTP_OK
from paramiko.common import o666

from vf import sftpbench


class RawDirServer(sftpbench.DirServer):
    def open(self, path, flags, attr):
        path = self._realpath(path)
        try:
            mode = getattr(attr, "st_mode", None)
            fd = os.open(path, flags, mode if mode is not None else o666)
        except OSError as e:
            return SFTPServer.convert_errno(e.errno)
        if (flags & os.O_CREAT) and (attr is not None):
            attr._flags &= ~attr.FLAG_PERMISSIONS
            SFTPServer.set_file_attr(path, attr)
        if flags & os.O_WRONLY:
            fstr = "ab" if flags & os.O_APPEND else "wb"
        elif flags & os.O_RDWR:
            fstr = "a+b" if flags & os.O_APPEND else "r+b"
        else:
            fstr = "rb"
        try:
            f = os.fdopen(fd, fstr, 0)
        except OSError as e:
            return SFTPServer.convert_errno(e.errno)
        fobj = self.handle_cls(flags)
        fobj.filename = path
        fobj.readfile = f
        fobj.writefile = f
        fobj.si = self
        return fobj


# --------------------------------------------------------------------------
# scripted faults
# --------------------------------------------------------------------------
class Script:
    """Fault script shared by all handles of one server (thread-safe).

    short      None | ("fixed", k) | ("cycle", [k1, k2, ...]) | ("frac", num, den)
               every READ is answered with at most that many bytes (>= 1)
    fail_read  dict {n: code}  the n-th READ (0-based, counted over the server's
               lifetime since `reset()`) is answered with STATUS code
    fail_write dict {n: code}  same for WRITE (the data is *not* written)
    short_at   dict {n: k}     the n-th READ is shortened to k bytes
    delay      None | callable(kind, n) -> seconds to sleep before answering
    """

    def __init__(self, short=None, fail_read=None, fail_write=None, short_at=None, delay=None):
        self.short = short
        self.fail_read = dict(fail_read or {})
        self.fail_write = dict(fail_write or {})
        self.short_at = dict(short_at or {})
        self.delay = delay
        self.lock = threading.Lock()
        self.reset()

    def reset(self):
        with self.lock:
            self.reads = 0
            self.writes = 0
            self.log = []  # (kind, n, offset, length, "status"|"data"|"result", value); "status" = injected fault

    def next_read(self):
        with self.lock:
            n = self.reads
            self.reads += 1
        return n

    def next_write(self):
        with self.lock:
            n = self.writes
            self.writes += 1
        return n

    def limit(self, n, length):
        k = length
        if n in self.short_at:
            k = min(k, self.short_at[n])
        s = self.short
        if s is not None:
            if s[0] == "fixed":
                k = min(k, s[1])
            elif s[0] == "cycle":
                k = min(k, s[1][n % len(s[1])])
            elif s[0] == "frac":
                k = min(k, max(1, length * s[1] // s[2]))
        return max(1, k) if length > 0 else 0


class FaultyHandle(sftpbench.BenchHandle):
    def read(self, offset, length):
        sc = self.si.script
        n = sc.next_read()
        if sc.delay is not None:
            d = sc.delay("read", n)
            if d:
                time.sleep(d)
        code = sc.fail_read.get(n)
        if code is not None:
            sc.log.append(("read", n, offset, length, "status", code))
            return code
        k = sc.limit(n, length)
        data = super().read(offset, k)
        sc.log.append(("read", n, offset, length) + (("data", len(data)) if isinstance(data, (bytes, bytearray)) else ("status", data)))
        return data

    def write(self, offset, data):
        sc = self.si.script
        n = sc.next_write()
        if sc.delay is not None:
            d = sc.delay("write", n)
            if d:
                time.sleep(d)
        code = sc.fail_write.get(n)
        if code is not None:
            sc.log.append(("write", n, offset, len(data), "status", code))
            return code
        r = super().write(offset, data)
        sc.log.append(("write", n, offset, len(data), "result", r))
        return r


class FaultyServer(RawDirServer):
    """`Bench(root, si_cls=FaultyServer, si_kwargs=dict(script=Script(...)))`"""

    handle_cls = FaultyHandle

    def __init__(self, server, root=None, script=None, **kw):
        super().__init__(server, root=root, **kw)
        self.script = script or Script()


# --------------------------------------------------------------------------
# bounded pipe (flow-control windows): the sender blocks when the direction is full
# --------------------------------------------------------------------------
class BoundedChanEnd(sftpbench.ChanEnd):
    """ChanEnd whose send() blocks while `cap` or more unread bytes sit in its direction (flow-control
    window / bounded pipe); once there is room the whole packet is accepted."""

    def __init__(self, wire, rd, wr, name, cap):
        super().__init__(wire, rd, wr, name)
        self.cap = cap
        self.blocked = 0  # times a send found the direction full and had to wait

    def send(self, data):
        d = self._wr
        with d.cv:
            while True:
                if d.closed or self.closed:
                    raise EOFError()
                free = self.cap - len(d.buf)
                if free > 0:
                    break
                self.blocked += 1
                d.cv.wait(1.0)
            # one send() = one whole SFTP packet (BaseSFTP._write_all is not atomic across threads, so partial
            # sends from the prefetch thread and the caller would interleave; that is a different question from
            # the back-pressure deadlock studied here) -> the bound is soft: a packet is accepted as soon as
            # there is any room
            part = bytes(data)
            d.raw += part
            self.wire._parse(d)
            d.buf += part
            d.cv.notify_all()
        return len(part)

    def recv(self, n):
        out = super().recv(n)
        with self._rd.cv:
            self._rd.cv.notify_all()  # room for a blocked sender
        return out


class BoundedWire(sftpbench.Wire):
    bounded = True

    def __init__(self, c2s_cap, s2c_cap):
        super().__init__()
        self.caps = (c2s_cap, s2c_cap)
        self.client_end = BoundedChanEnd(self, self.s2c, self.c2s, "vf-client", c2s_cap)
        self.server_end = BoundedChanEnd(self, self.c2s, self.s2c, "vf-server", s2c_cap)


class BoundedBench(sftpbench.Bench):
    """Bench over a BoundedWire (same construction as sftpbench.Bench, which hard-codes Wire())."""

    def __init__(self, root, c2s_cap, s2c_cap, si_cls=sftpbench.DirServer, si_kwargs=None):
        import paramiko

        self.root = root
        self.wire = BoundedWire(c2s_cap, s2c_cap)
        kw = dict(si_kwargs or {})
        kw["root"] = root
        self.server = SFTPServer(self.wire.server_end, "sftp", paramiko.ServerInterface(), si_cls, **kw)
        self.server_exc = None
        self.server_thread = threading.Thread(target=self._serve, daemon=True, name="vf-sftp-server")
        self.server_thread.start()
        self.client = paramiko.SFTPClient(self.wire.client_end)
