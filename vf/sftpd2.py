"""Monitors on top of the direct SFTP bench (vf/sftpbench.py) for C30-C32.

Nothing in sftpbench.py is edited; this module subclasses it:

* `MonEnd`   - ChanEnd whose `recv` keeps an exact `waiting` flag (set and cleared
               under the pipe lock), so "the peer is parked in recv() with nothing
               to read" is a logical fact, not a timing guess.
* `MonWire`  - Wire using MonEnd for both ends.
* `ReadLogHandle` / `MonDirServer` - the bench's temp-dir server whose file handles
               log every `read(offset, length)` the *server code* performs
               (via the library's own SFTPHandle.read) and abort a request that
               re-reads one offset `SPIN_LIMIT` times or gets `SPIN_LIMIT` empty
               (end-of-file) reads (livelock evidence).  Optional short reads.
* `MonBench` - Bench wired with the above; wraps `server._process` on the
               instance (observation only: it calls the real method) so reads and
               spins are attributed to the request being processed.

Quiescence (DESIGN 2.4 rule 1, logical evidence):
  server idle  = server thread parked in recv() and the c2s pipe empty: every
                 request sent so far has been processed, a request without a
                 response will never get one.
  client idle  = client thread parked in recv(), s2c pipe empty, nothing held
                 behind the reply gate.
"""
import struct
import threading
import time

import paramiko
from paramiko import SFTPServer

from vf.sftpbench import Bench, BenchHandle, ChanEnd, DirServer, Wire

CMD = dict(INIT=1, VERSION=2, OPEN=3, CLOSE=4, READ=5, WRITE=6, LSTAT=7, FSTAT=8, SETSTAT=9, FSETSTAT=10,
           OPENDIR=11, READDIR=12, REMOVE=13, MKDIR=14, RMDIR=15, REALPATH=16, STAT=17, RENAME=18,
           READLINK=19, SYMLINK=20, STATUS=101, HANDLE=102, DATA=103, NAME=104, ATTRS=105,
           EXTENDED=200, EXTENDED_REPLY=201)
NAME_OF = {v: k for k, v in CMD.items()}


class SpinAbort(Exception):
    """Raised by the monitor inside SFTPHandle.read to break a livelocked server loop."""


class MonEnd(ChanEnd):
    def __init__(self, *a):
        super().__init__(*a)
        self.waiting = False  # only touched with self._rd.cv held
        self.on_wait = None  # callable, invoked (pipe lock held) each time recv() is about to park
        self.nrecv = 0  # recv() calls that returned data (progress counter)
        self.after_send = None  # callable(data) run in the sender's thread after each send()
        self.send_waiting = False  # a sender is parked on a full (bounded) pipe; touched with self._wr.cv held
        self.send_blocks = 0
        self.partial_owner = None  # thread that has sent only part of what it passed to send()
        self.partial_sends = 0
        self.interleaves = 0

    def send(self, data):
        cap = getattr(self.wire, "d2_capacity", None)
        if isinstance(cap, dict):  # per sending end: {"vf-client": n, "vf-server": m}
            cap = cap.get(self._name)
        if cap is not None:
            # bounded pipe (flow-control back-pressure, like an exhausted channel window): block while the peer has
            # `cap` unread bytes, then hand over at most the free room (callers loop, as with Channel.send)
            d = self._wr
            with d.cv:
                while len(d.buf) >= cap and not (d.closed or self.closed):
                    self.send_waiting = True
                    self.send_blocks += 1
                    try:
                        d.cv.wait(1.0)
                    finally:
                        self.send_waiting = False
                room = max(1, cap - len(d.buf))
            whole = len(data)
            data = bytes(data[:room])
            # who is in the middle of a frame?  (callers loop over partial sends, like BaseSFTP._write_all)
            me = threading.get_ident()
            if self.partial_owner not in (None, me):
                self.interleaves += 1  # another thread's bytes go out inside this thread's unfinished frame
            self.partial_owner = me if len(data) < whole else (None if self.partial_owner == me else self.partial_owner)
            if len(data) < whole:
                self.partial_sends += 1
        n = super().send(data)
        hook = self.after_send
        if hook is not None:
            hook(data)  # schedule perturbation seam: runs in the sending thread, no lock held
        return n

    def recv(self, n):
        d = self._rd
        end = None if self._timeout is None else time.monotonic() + self._timeout
        with d.cv:
            while not d.buf:
                if d.closed or self.closed:
                    return b""
                self.waiting = True
                if self.on_wait is not None:
                    self.on_wait()
                try:
                    if end is None:
                        d.cv.wait(1.0)
                    else:
                        left = end - time.monotonic()
                        if left <= 0:
                            import socket

                            raise socket.timeout()
                        d.cv.wait(left)
                finally:
                    self.waiting = False
            k = n
            if self.wire.frag is not None:
                k = max(1, min(n, self.wire.frag(n, len(d.buf))))
            out = bytes(d.buf[:k])
            del d.buf[:k]
            self.nrecv += 1
            d.cv.notify_all()  # room for a sender parked on a bounded pipe
            return out


class MonWire(Wire):
    def __init__(self):
        super().__init__()
        self.client_end = MonEnd(self, self.s2c, self.c2s, "vf-client")
        self.server_end = MonEnd(self, self.c2s, self.s2c, "vf-server")


class Monitor:
    """Per-bench record of what the server did while processing each request."""

    SPIN_LIMIT = 200
    MAX_READS = 6000

    def __init__(self):
        self.cur = None  # dict(t, id, reads, per)
        self.done = {}  # request id -> dict(t, reads, spin)
        self.spins = []  # dict(t, id, offset, length, reads)
        self.processed = 0
        self.handle_reads = 0
        self.short = None  # callable(length) -> max bytes, or None
        # scripted application faults: method name -> [exception factory, remaining raises]
        # methods: handle close/read/write/stat/chattr, interface "si.<method>"
        self.faults = {}
        self.faults_raised = 0
        self.before_read = None  # callable run before each handle read (e.g. "server slow on the first read")

    def fault(self, method):
        f = self.faults.get(method)
        if f and f[1] > 0:
            f[1] -= 1
            self.faults_raised += 1
            raise f[0]()

    def begin(self, t, rid):
        self.cur = dict(t=t, id=rid, reads=[], per={}, spin=False)

    def end(self):
        c = self.cur
        self.cur = None
        self.processed += 1
        if c is not None and (c["reads"] or c["spin"]):
            self.done[c["id"]] = c
            if len(self.done) > 400:
                self.done.pop(next(iter(self.done)))

    def on_read(self, offset, length, data):
        self.handle_reads += 1
        c = self.cur
        if c is None:
            return
        n = len(data) if isinstance(data, (bytes, bytearray)) else -1
        if len(c["reads"]) < self.MAX_READS:
            c["reads"].append((offset, length, n))
        k = c["per"].get(offset, 0) + 1
        c["per"][offset] = k
        if n == 0:
            c["empty"] = c.get("empty", 0) + 1
        # livelock evidence: one offset read over and over, or read after read returning nothing
        # (end of file) - neither can ever complete a hash, however long the loop runs
        if k > self.SPIN_LIMIT or c.get("empty", 0) > self.SPIN_LIMIT:
            c["spin"] = True
            self.spins.append(dict(t=c["t"], id=c["id"], offset=offset, length=length, got=n,
                                   same_offset=k > self.SPIN_LIMIT, empty_reads=c.get("empty", 0),
                                   reads=len(c["reads"]), tail=c["reads"][-3:]))
            raise SpinAbort("vf monitor: no progress (offset %d read %d times, %d empty reads in this request)"
                            % (offset, k, c.get("empty", 0)))


class ReadLogHandle(BenchHandle):
    """Logs reads; every application-level method can be scripted to raise (Monitor.faults)."""

    def _fault(self, method):
        mon = self.si.kw.get("mon")
        if mon is not None:
            mon.fault(method)

    def close(self):
        self._fault("close")
        return super().close()

    def write(self, offset, data):
        self._fault("write")
        return super().write(offset, data)

    def stat(self):
        self._fault("stat")
        return super().stat()

    def chattr(self, attr):
        self._fault("chattr")
        return super().chattr(attr)

    def read(self, offset, length):
        self._fault("read")
        mon = self.si.kw.get("mon")
        if mon is not None and mon.before_read is not None:
            mon.before_read()
        want = length
        if mon is not None and mon.short is not None and length > 0:
            want = max(1, min(length, mon.short(length)))
        data = super().read(offset, want)  # the library's own SFTPHandle.read
        if mon is not None:
            mon.on_read(offset, length, data)
        return data


class MonDirServer(DirServer):
    handle_cls = ReadLogHandle

    def _fault(self, method):
        mon = self.kw.get("mon")
        if mon is not None:
            mon.fault("si." + method)

    def stat(self, path):
        self._fault("stat")
        return super().stat(path)

    def lstat(self, path):
        self._fault("lstat")
        return super().lstat(path)

    def open(self, path, flags, attr):
        self._fault("open")
        h = super().open(path, flags, attr)
        f = getattr(h, "readfile", None)
        if f is not None and hasattr(f, "detach"):
            # serve through the raw (unbuffered) file: a buffered Python file object in the *server application*
            # would keep read-ahead of its own and return stale bytes after a size change made through the path,
            # which is harness behaviour, not the library's
            raw = f.detach()
            h.readfile = h.writefile = raw
        return h

    def list_folder(self, path):
        self._fault("list_folder")
        return super().list_folder(path)

    def remove(self, path):
        self._fault("remove")
        return super().remove(path)

    def chattr(self, path, attr):
        self._fault("chattr")
        return super().chattr(path, attr)


class MonBench(Bench):
    def __init__(self, root, si_cls=MonDirServer, si_kwargs=None, start_client=True):
        self.root = root
        self.wire = MonWire()
        self.mon = Monitor()
        kw = dict(si_kwargs or {})
        kw["root"] = root
        kw["mon"] = self.mon
        self.server = SFTPServer(self.wire.server_end, "sftp", paramiko.ServerInterface(), si_cls, **kw)
        real = self.server._process
        mon = self.mon

        def _process(t, request_number, msg):
            mon.begin(t, request_number)
            try:
                return real(t, request_number, msg)
            finally:
                mon.end()

        self.server._process = _process
        self.server_exc = None
        self.server_thread = threading.Thread(target=self._serve, daemon=True, name="vf-sftp-server")
        self.server_thread.start()
        self.client = paramiko.SFTPClient(self.wire.client_end) if start_client else None
        if not start_client:
            # speak INIT ourselves so raw requests can follow
            self.wire.client_end.send(struct.pack(">IBI", 5, 1, 3))

    # -- logical quiescence ----------------------------------------------
    def server_idle(self):
        d = self.wire.c2s
        with d.cv:
            return self.wire.server_end.waiting and not d.buf

    def server_parked(self):
        """Server thread cannot move by itself: idle (nothing to read) or parked in send() on a full bounded pipe."""
        if self.server_idle():
            return True
        d = self.wire.s2c
        with d.cv:
            return self.wire.server_end.send_waiting

    def client_idle(self):
        d = self.wire.s2c
        with d.cv:
            return self.wire.client_end.waiting and not d.buf and not d.held

    def npackets(self):
        with self.wire.plock:
            return len(self.wire.packets)

    def settle(self, timeout=60.0):
        """Wait until the server has processed everything sent so far.
        -> "idle" | "dead" (server thread ended) | "busy" (timeout: no verdict from this alone)."""
        end = time.monotonic() + timeout
        spin = 0
        while True:
            if self.server_idle():
                return "idle"
            if not self.server_thread.is_alive():
                return "dead"
            if time.monotonic() > end:
                return "busy"
            spin += 1
            time.sleep(0 if spin < 50 else 0.0005)

    def packets_from(self, start):
        with self.wire.plock:
            return list(self.wire.packets[start:])


def parse_id(body):
    return struct.unpack(">I", body[:4])[0] if len(body) >= 4 else None


# ---------------------------------------------------------------------------
# response well-formedness (SFTP v3, draft-ietf-secsh-filexfer-02)


class _R:
    def __init__(self, b):
        self.b = b
        self.i = 0

    def u32(self):
        if self.i + 4 > len(self.b):
            raise ValueError("short u32")
        v = struct.unpack(">I", self.b[self.i:self.i + 4])[0]
        self.i += 4
        return v

    def u64(self):
        if self.i + 8 > len(self.b):
            raise ValueError("short u64")
        v = struct.unpack(">Q", self.b[self.i:self.i + 8])[0]
        self.i += 8
        return v

    def s(self):
        n = self.u32()
        if self.i + n > len(self.b):
            raise ValueError("short string")
        v = self.b[self.i:self.i + n]
        self.i += n
        return v

    def attrs(self):
        fl = self.u32()
        if fl & 1:
            self.u64()
        if fl & 2:
            self.u32()
            self.u32()
        if fl & 4:
            self.u32()
        if fl & 8:
            self.u32()
            self.u32()
        if fl & 0x80000000:
            for _ in range(self.u32()):
                self.s()
                self.s()

    def done(self):
        if self.i != len(self.b):
            raise ValueError("%d trailing bytes" % (len(self.b) - self.i))


def malformed(ptype, body):
    """None when `body` (request id + payload) is a well-formed v3 response of `ptype`,
    else a short reason.  STATUS may omit the language tag/message only if complete."""
    r = _R(body)
    try:
        r.u32()  # id
        if ptype == CMD["STATUS"]:
            r.u32()
            r.s()
            r.s()
        elif ptype in (CMD["HANDLE"], CMD["DATA"]):
            r.s()
        elif ptype == CMD["NAME"]:
            for _ in range(r.u32()):
                r.s()
                r.s()
                r.attrs()
        elif ptype == CMD["ATTRS"]:
            r.attrs()
        elif ptype == CMD["EXTENDED_REPLY"]:
            return None  # free-form
        else:
            return "not a response packet type"
        r.done()
    except ValueError as e:
        return str(e)
    return None


def status_code(body):
    return struct.unpack(">I", body[4:8])[0] if len(body) >= 8 else None
