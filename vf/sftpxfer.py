"""C29 engine: put / putfo / get / getfo (and a pipelined SFTPFile written by
hand) against a server that answers the k-th READ or WRITE with a chosen SFTP
status code or a short count.  Oracle: the call returned => destination bytes
== source bytes; otherwise it raised.  A call that never returns is judged with
the request-ledger evidence of vf.sftpread.watch.
"""
import io
import os
import threading

from vf import sftpbench, sftpfaults, sftpread

CODES = [1, 2, 3, 4, 5, 6, 7, 8]  # SFTP_EOF .. SFTP_OP_UNSUPPORTED
CODE_NAMES = {1: "EOF", 2: "NO_SUCH_FILE", 3: "PERMISSION_DENIED", 4: "FAILURE", 5: "BAD_MESSAGE",
              6: "NO_CONNECTION", 7: "CONNECTION_LOST", 8: "OP_UNSUPPORTED"}


class ShortSource:
    """Local source for putfo() whose read(n) may return fewer bytes than asked although more follow
    (legal for raw streams, pipes, sockets, HTTP bodies); only b"" means end of data."""

    def __init__(self, data, pattern, seed):
        import random

        self.data, self.pos, self.pattern, self.rng = data, 0, pattern, random.Random(seed)
        self.calls = 0
        self.short_reads = 0  # reads that returned less than asked although more data followed

    def read(self, n=-1):
        left = len(self.data) - self.pos
        if n is None or n < 0:
            n = left
        k = min(n, left)
        p, c = self.pattern, self.calls
        if p == "random":
            k = min(k, self.rng.choice([1, 7, 1000, 8191, 16384, 32767, n]))
        elif p == "one_byte":
            k = min(k, 1) if (len(self.data) <= 3000 or c < 40) else k
        elif p == "boundary":
            # stop one byte short of every 32768 boundary, then deliver that single byte
            nxt = (self.pos // 32768 + 1) * 32768
            k = min(k, (nxt - 1 - self.pos) or 1)
        elif p == "short_then_full":
            k = min(k, 1000) if c == 0 else k
        elif p == "full_then_short":
            k = k if c == 0 else min(k, 20000)
        self.calls += 1
        out = self.data[self.pos:self.pos + k]
        self.pos += len(out)
        if len(out) < n and self.pos < len(self.data):
            self.short_reads += 1
        return out


SOURCE_PATTERNS = ["random", "one_byte", "boundary", "short_then_full", "full_then_short"]


def run_case(case, root, cap=90.0):
    """case = dict(op, size, cseed, fault=None|["write"|"read", k, code]|["short", k, n]|["shortall", n],
    confirm, callback, prefetch, maxreq, bufsize).  Returns a JSON-able dict."""
    data = sftpread.content(case["size"], case["cseed"])
    fault = case.get("fault")
    script = sftpfaults.Script()
    if fault:
        if fault[0] == "write":
            script.fail_write = {fault[1]: fault[2]}
        elif fault[0] == "read":
            script.fail_read = {fault[1]: fault[2]}
        elif fault[0] == "short":
            script.short_at = {fault[1]: fault[2]}
        elif fault[0] == "shortall":
            script.short = ("fixed", fault[1])
    remote = os.path.join(root, "srv", "r")
    local = os.path.join(root, "loc", "l")
    for d in ("srv", "loc"):
        os.makedirs(os.path.join(root, d), exist_ok=True)
    for p in (remote, local):
        if os.path.exists(p):
            os.remove(p)
    op = case["op"]
    upload = op in ("put", "putfo", "pfile")
    with open(local if upload else remote, "wb") as fh:
        fh.write(data)
    before = set(threading.enumerate())
    b = sftpbench.Bench(os.path.join(root, "srv"), si_cls=sftpfaults.FaultyServer, si_kwargs=dict(script=script))
    # observe which status codes the client actually looks at
    seen_codes = []
    real_cs = b.client._convert_status

    cs_events = []  # (request id, status code, exception object raised by _convert_status or None)

    def cs(msg):
        rem = msg.get_remainder()
        code = int.from_bytes(rem[:4], "big") if len(rem) >= 4 else None
        rid = int.from_bytes(msg.get_so_far()[:4], "big")
        if code is not None:
            seen_codes.append(code)
        try:
            r = real_cs(msg)
        except BaseException as e:
            cs_events.append((rid, code, e))
            raise
        cs_events.append((rid, code, None))
        return r

    b.client._convert_status = cs
    # fault plan for the CLOSE of the handle (server side, instance wrapper on SFTPServer._process):
    #   "status:<code>"      CLOSE is answered with that status (the handle is closed all the same)
    #   "drop_at_close"      the server drops the connection instead of answering CLOSE
    #   "drop_before_close"  the server drops the connection right after answering the last WRITE
    cplan = case.get("close") or "ok"
    close_seen = []
    stall_from = fault[1] if fault and fault[0] == "stall" else None
    seen_writes = [0]
    stalled = [0]
    if cplan != "ok" or stall_from is not None:
        srv = b.server
        real_process = srv._process
        nwrites = [0]

        def process(t, request_number, msg):
            if t == 6:
                seen_writes[0] += 1
                if stall_from is not None and seen_writes[0] - 1 >= stall_from:
                    stalled[0] += 1  # the server stalls: WRITE neither applied nor answered
                    return
            if t == 4 and cplan.startswith("status:"):  # CMD_CLOSE
                close_seen.append(request_number)
                handle = msg.get_binary()
                if handle in srv.file_table:
                    srv.file_table[handle].close()
                    del srv.file_table[handle]
                srv._send_status(request_number, int(cplan.split(":")[1]))
                return
            if t == 4 and cplan == "drop_at_close":
                close_seen.append(request_number)
                b.wire.server_end.close()
                return
            r = real_process(t, request_number, msg)
            if t == 6 and cplan == "drop_before_close":  # CMD_WRITE
                nwrites[0] += 1
                if nwrites[0] == case["nwrites"]:
                    close_seen.append(-1)
                    b.wire.server_end.close()
            return r

        srv._process = process
        if cplan == "drop_before_close":
            # schedule control: the client's CLOSE is only sent once the server has dropped the link
            # (otherwise the case silently degenerates into drop_at_close)
            real_areq = b.client._async_request

            def areq(fileobj, t, *a):
                if t == 4:
                    import time as _t

                    end = _t.monotonic() + 10
                    while not close_seen and _t.monotonic() < end:
                        _t.sleep(0.0005)
                return real_areq(fileobj, t, *a)

            b.client._async_request = areq
    cb_calls = []
    # "sync": [j, "stat"|"listdir"] = a synchronous request on the same client after the j-th chunk
    # (progress callback of put/putfo, or application code between two writes of the hand-driven file)
    sync = case.get("sync")
    sync_info = dict(done=False, taken=0, pkt=None)

    def do_sync():
        c = b.client
        sync_info["pkt"] = len(b.wire.packets)
        if sync[1] == "stat":
            c.stat("/r")
        else:
            c.listdir("/")
        sync_info["done"] = True
        # WRITE requests whose status this call read off the wire (no longer awaited by anybody)
        with b.wire.plock:
            wids = [p["id"] for p in b.wire.packets if p["dir"] == "c2s" and p["type"] == 6]
        sync_info["taken"] = sum(1 for w in wids if w not in c._expecting)

    def gone():
        """The connection goes away after the last pipelined WRITE was sent and before close() runs."""
        import time as _t

        end = _t.monotonic() + 10
        while _t.monotonic() < end:
            with b.wire.plock:
                rq = sum(1 for p in b.wire.packets if p["dir"] == "c2s" and p["id"] is not None)
                rs = sum(1 for p in b.wire.packets if p["dir"] == "s2c" and p["id"] is not None)
            if seen_writes[0] >= case["nwrites"] and rs >= rq - stalled[0]:
                break
            _t.sleep(0.0005)
        close_seen.append(-2)
        b.wire.server_end.close()
        # like a paramiko Channel whose peer went away, the client's pipe end now *reports* closed
        # (already delivered bytes stay readable)
        b.wire.client_end.closed = True

    def cbf(done, total):
        cb_calls.append((done, total))
        if sync and len(cb_calls) - 1 == sync[0]:
            do_sync()
        if cplan == "gone_before_close" and len(cb_calls) == case["nwrites"]:
            gone()

    cb = cbf if (case.get("callback") or sync or cplan == "gone_before_close") else None
    box = dict(done=False, exc=None, ret=None, sink=None)

    def work():
        c = b.client
        try:
            if op == "put" and case.get("stat_lag"):
                # the local file grew after put() looked at its size: put()'s os.stat sees the older, smaller size
                import paramiko.sftp_client as sc

                real_os = sc.os

                class LaggingOs:
                    def __getattr__(self, name):
                        return getattr(real_os, name)

                    def stat(self, path, *a, **kw):
                        st = real_os.stat(path, *a, **kw)
                        if path == local:
                            fields = list(st)
                            fields[6] = max(0, st.st_size - case["stat_lag"])
                            box["lagged_stat"] = fields[6]
                            return real_os.stat_result(fields)
                        return st

                sc.os = LaggingOs()
                try:
                    box["ret"] = c.put(local, "/r", callback=cb, confirm=case["confirm"])
                finally:
                    sc.os = real_os
            elif op == "put":
                box["ret"] = c.put(local, "/r", callback=cb, confirm=case["confirm"])
            elif op == "putfo":
                src = ShortSource(data, case["source"], case["cseed"]) if case.get("source") else io.BytesIO(data)
                box["src"] = src
                declared = len(data) if case.get("declared") is None else case["declared"]
                box["ret"] = c.putfo(src, "/r", declared, cb, case["confirm"])
            elif op == "pfile":
                f = c.open("/r", "wb", case.get("bufsize", -1))
                f.set_pipelined(True)
                step = case.get("wsize", 32768)
                for wi, o in enumerate(range(0, len(data), step)):
                    f.write(data[o:o + step])
                    if sync and wi == sync[0]:
                        do_sync()
                if cplan == "gone_before_close":
                    f.flush()
                    gone()
                f.close()
            elif op == "get":
                c.get("/r", local, callback=cb, prefetch=case["prefetch"],
                      max_concurrent_prefetch_requests=case.get("maxreq"))
            elif op == "getfo":
                box["sink"] = io.BytesIO()
                box["ret"] = c.getfo("/r", box["sink"], callback=cb, prefetch=case["prefetch"],
                                     max_concurrent_prefetch_requests=case.get("maxreq"))
        except BaseException as e:  # noqa
            box["exc"] = e
        finally:
            box["done"] = True

    w = threading.Thread(target=work, daemon=True, name="vf-c29-worker")
    w.start()
    hang = sftpread.watch(b.wire, w, before, (b.server_thread,), lambda: box["done"], cap)
    out = dict(status="ok")
    if hang is not None:
        out = hang
    else:
        if box["exc"] is not None:
            from vf import core

            e = box["exc"]
            out.update(outcome="raised", exc=type(e).__name__, exc_text=str(e)[:100], exc_sig=core.exc_signature(e))
            chain, x = [], e
            while x is not None and len(chain) < 10:
                chain.append(x)
                x = x.__cause__ or x.__context__
            box["chain"] = chain
        else:
            if upload:
                try:
                    with open(remote, "rb") as fh:
                        dest = fh.read()
                except OSError:
                    dest = None
            elif op == "get":
                with open(local, "rb") as fh:
                    dest = fh.read()
            else:
                dest = box["sink"].getvalue()
            exact = dest == data
            out.update(outcome="returned", exact=exact, dest_len=None if dest is None else len(dest), src_len=len(data))
            if not exact and dest is not None:
                out["first_difference_at"] = sftpread.first_diff(dest, data)
                out["dest_is_prefix"] = data.startswith(dest)
    if fault and fault[0] == "write":
        # which request carried the rejected write, did the client look at its status, and is the
        # exception that status produced the one (or chained to the one) the caller received?
        with b.wire.plock:
            wids = [p["id"] for p in b.wire.packets if p["dir"] == "c2s" and p["type"] == 6]
        wid = wids[fault[1]] if fault[1] < len(wids) else None
        werr = [ev[2] for ev in cs_events if ev[0] == wid and ev[2] is not None]
        out["write_status_examined"] = any(ev[0] == wid for ev in cs_events)
        out["write_error_reported"] = bool(werr) and any(w is c for w in werr for c in box.get("chain", []))
    if sync:
        out["sync_done"] = sync_info["done"]
        out["statuses_taken_by_sync"] = sync_info["taken"]
        if fault and fault[0] == "write" and sync_info["pkt"] is not None:
            with b.wire.plock:
                wpk = [p["n"] for p in b.wire.packets if p["dir"] == "c2s" and p["type"] == 6]
            out["sync_before_rejected_write"] = fault[1] < len(wpk) and sync_info["pkt"] <= wpk[fault[1]]
    if case.get("source"):
        out["source_short_reads"] = box["src"].short_reads if box.get("src") is not None else 0
        out["source_read_calls"] = box["src"].calls if box.get("src") is not None else 0
    if cb_calls:
        out["callback_totals"] = sorted({t for _, t in cb_calls})[:3]
        out["callback_last_done"] = cb_calls[-1][0]
    if "lagged_stat" in box:
        out["lagged_stat"] = box["lagged_stat"]
    out["stalled_writes"] = stalled[0]
    out["close_plan"] = cplan
    out["close_fault_delivered"] = bool(close_seen)
    out.update(reads=script.reads, writes=script.writes, callback_calls=len(cb_calls),
               fault_status_examined=bool(fault) and fault[0] in ("read", "write") and fault[2] in seen_codes,
               fault_delivered=bool(fault) and _delivered(script, fault))
    try:
        b.close()
    except Exception:
        pass
    return out


def _delivered(script, fault):
    """Did the server really answer as scripted (read off the server's own log)?"""
    log = list(script.log)
    if fault[0] in ("write", "read"):
        return any(e[0] == fault[0] and e[1] == fault[1] and e[4] == "status" and e[5] == fault[2]
                   and (fault[0] == "write" or e[3] > 0) for e in log)
    if fault[0] == "short":
        return any(e[0] == "read" and e[1] == fault[1] and e[4] == "data" and 0 < e[5] < e[3] for e in log)
    if fault[0] == "shortall":
        return any(e[0] == "read" and e[4] == "data" and 0 < e[5] < e[3] for e in log)
    return False


def iso_case(args):
    import logging
    import shutil
    import tempfile

    logging.getLogger("paramiko").addHandler(logging.NullHandler())
    logging.getLogger("paramiko").propagate = False
    threading.excepthook = lambda a: None
    root = tempfile.mkdtemp(prefix="vf-c29-")
    try:
        return run_case(args, root, cap=25.0)
    finally:
        shutil.rmtree(root, ignore_errors=True)


# --------------------------------------------------------------------------
# the same "connection gone before close()" cells over a REAL client/server Transport pair
# --------------------------------------------------------------------------
def run_case_ssh(case, root, cap=90.0):
    """case: op in put/putfo/pfile, size, cseed, confirm, fault=["write",k,code]|["stall",k]|None, close="gone_before_close".
    SFTPClient.from_transport over vf.pair (real Channels); the server *transport* is closed from the progress
    callback of the last chunk (or after the last write of the hand-driven file) and the harness waits until the
    client-side Channel reports closed before the transfer proceeds to close()."""
    import time

    import paramiko
    from vf import pair

    data = sftpread.content(case["size"], case["cseed"])
    fault = case.get("fault")
    script = sftpfaults.Script()
    if fault and fault[0] == "write":
        script.fail_write = {fault[1]: fault[2]}
    stall_from = fault[1] if fault and fault[0] == "stall" else None
    ctrl = dict(seen=0, stalled=0, answered=0)

    class Server(paramiko.SFTPServer):
        def _process(self, t, request_number, msg):
            if t == 6:
                ctrl["seen"] += 1
                if stall_from is not None and ctrl["seen"] - 1 >= stall_from:
                    ctrl["stalled"] += 1
                    return
            r = paramiko.SFTPServer._process(self, t, request_number, msg)
            if t == 6:
                ctrl["answered"] += 1
            return r

    os.makedirs(os.path.join(root, "srv"), exist_ok=True)
    os.makedirs(os.path.join(root, "loc"), exist_ok=True)
    remote, local = os.path.join(root, "srv", "r"), os.path.join(root, "loc", "l")
    for p_ in (remote, local):
        if os.path.exists(p_):
            os.remove(p_)
    with open(local, "wb") as fh:
        fh.write(data)
    pr = pair.Pair()
    pr.ts.set_subsystem_handler("sftp", Server, sftpfaults.FaultyServer, root=os.path.join(root, "srv"), script=script)
    out = dict(status="ok", transport="ssh")
    try:
        if not pr.start():
            return dict(status="watchdog", chain=["handshake failed"], transport="ssh")
        pr.auth()
        c = paramiko.SFTPClient.from_transport(pr.tc)
        nwrites = case["nwrites"]
        cb_calls = []
        info = dict(channel_closed=False)

        def gone():
            end = time.monotonic() + 10
            while time.monotonic() < end and not (ctrl["seen"] >= nwrites and ctrl["answered"] >= nwrites - ctrl["stalled"]):
                time.sleep(0.001)
            time.sleep(0.05)  # let the last statuses travel
            pr.ts.close()
            end = time.monotonic() + 10
            while time.monotonic() < end and not c.sock.closed:
                time.sleep(0.001)
            info["channel_closed"] = bool(c.sock.closed)

        def cb(done, total):
            cb_calls.append(done)
            if len(cb_calls) == nwrites:
                gone()

        box = dict(done=False, exc=None)

        def work():
            try:
                op = case["op"]
                if op == "put":
                    c.put(local, "/r", callback=cb, confirm=case["confirm"])
                elif op == "putfo":
                    c.putfo(io.BytesIO(data), "/r", len(data), cb, case["confirm"])
                else:
                    f = c.open("/r", "wb", case.get("bufsize", -1))
                    f.set_pipelined(True)
                    for o in range(0, len(data), 32768):
                        f.write(data[o:o + 32768])
                    f.flush()
                    gone()
                    f.close()
            except BaseException as e:  # noqa
                box["exc"] = e
            finally:
                box["done"] = True

        w = threading.Thread(target=work, daemon=True, name="vf-c29-ssh-worker")
        w.start()
        w.join(cap)
        if not box["done"]:
            import sys
            import traceback

            fr = sys._current_frames().get(w.ident)
            return dict(status="watchdog", transport="ssh", chain=sftpread._paramiko_chain(fr) if fr else [],
                        stack="".join(traceback.format_stack(fr))[-1200:] if fr else "")
        if box["exc"] is not None:
            from vf import core

            e = box["exc"]
            out.update(outcome="raised", exc=type(e).__name__, exc_text=str(e)[:100], exc_sig=core.exc_signature(e))
        else:
            try:
                with open(remote, "rb") as fh:
                    dest = fh.read()
            except OSError:
                dest = None
            out.update(outcome="returned", exact=dest == data, dest_len=None if dest is None else len(dest), src_len=len(data),
                       dest_is_prefix=dest is not None and data.startswith(dest))
        out.update(writes=ctrl["seen"], stalled_writes=ctrl["stalled"], close_plan="gone_before_close",
                   close_fault_delivered=info["channel_closed"], client_channel_reported_closed=info["channel_closed"],
                   fault_delivered=bool(fault) and (ctrl["stalled"] > 0 if fault[0] == "stall" else
                                                    any(e[0] == "write" and e[4] == "status" for e in script.log)))
        return out
    finally:
        pr.close()
