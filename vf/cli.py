"""./check entry point: shard orchestration, verdict merge, evidence."""
import argparse
import faulthandler
import hashlib
import importlib
import json
import os
import subprocess
import sys
import tempfile
import time

from vf import core

MAXPAR = int(os.environ.get("VF_JOBS", "16"))


def load(prop):
    return importlib.import_module("vf.props." + prop.lower())


def check_tree():
    import paramiko

    root = os.path.realpath(core.TREE)
    got = os.path.realpath(os.path.dirname(os.path.dirname(paramiko.__file__)))
    if got != root:
        print("paramiko imported from %s, expected %s" % (got, root))
        sys.exit(3)


def run_shard(args):
    mod = load(args.prop)
    i, n = (int(x) for x in args.shard.split("/"))
    replay = None
    if args.replay:
        with open(args.replay) as f:
            replay = json.load(f)
    ctx = core.Ctx(args.prop, args.tier, args.seed, i, n, replay=replay)
    tmo = getattr(mod, "TIMEOUT", {}).get(args.tier, 150 if ctx.quick else 1500)
    faulthandler.enable()
    faulthandler.dump_traceback_later(max(5, tmo - 3), exit=False)
    check_tree()
    ctx.autodump(args.out)
    try:
        mod.run(ctx)
    except Exception:
        import traceback

        ctx.inconclusive("check crashed: " + traceback.format_exc()[-1500:])
    faulthandler.cancel_dump_traceback_later()
    ctx.dump(args.out)
    # daemon transport threads must not keep the shard alive
    sys.stdout.flush()
    sys.stderr.flush()
    os._exit(0)


def main():
    ap = argparse.ArgumentParser()
    ap.add_argument("prop")
    ap.add_argument("--tier", default=os.environ.get("VERIF_TIER", "quick"))
    ap.add_argument("--seed", type=int, default=int(os.environ.get("VERIF_SEED", "0") or 0))
    ap.add_argument("--shard")
    ap.add_argument("--out")
    ap.add_argument("--replay")
    ap.add_argument("--no-evidence", action="store_true")
    args = ap.parse_args()
    args.prop = args.prop.upper()
    if args.tier not in ("quick", "thorough"):
        args.tier = "quick"
    if args.shard:
        return run_shard(args)

    t0 = time.time()
    mod = load(args.prop)
    meta = mod.META
    nsh = 1 if args.replay else int(getattr(mod, "shards", lambda t: 1)(args.tier))
    tmo = getattr(mod, "TIMEOUT", {}).get(args.tier, 150 if args.tier == "quick" else 1500)
    tmpd = tempfile.mkdtemp(prefix="vf-%s-" % args.prop, dir=os.environ.get("VF_TMP"))
    procs = []
    pending = list(range(nsh))
    results = {}
    crashed = []

    def launch(i):
        out = os.path.join(tmpd, "shard%d.json" % i)
        err = open(os.path.join(tmpd, "shard%d.err" % i), "wb")
        cmd = [sys.executable, "-B", "-m", "vf.cli", args.prop, "--tier", args.tier,
               "--seed", str(args.seed), "--shard", "%d/%d" % (i, nsh), "--out", out]
        if args.replay:
            cmd += ["--replay", args.replay]
        p = subprocess.Popen(cmd, stdout=err, stderr=err, cwd=core.HOME)
        return dict(i=i, p=p, out=out, err=err, t=time.time())

    while pending or procs:
        while pending and len(procs) < MAXPAR:
            procs.append(launch(pending.pop(0)))
        time.sleep(0.05)
        for pr in list(procs):
            rc = pr["p"].poll()
            if rc is None and time.time() - pr["t"] > tmo:
                pr["p"].kill()
                pr["p"].wait()
                rc = "timeout"
            if rc is None:
                continue
            procs.remove(pr)
            pr["err"].close()
            if os.path.exists(pr["out"]):
                with open(pr["out"]) as f:
                    results[pr["i"]] = json.load(f)
                if results[pr["i"]].get("partial"):
                    with open(pr["err"].name, "rb") as f:
                        tail = f.read()[-2500:].decode("utf-8", "replace")
                    crashed.append("shard %d ended (%s) before finishing; partial results kept: %s"
                                   % (pr["i"], rc, tail))
            else:
                with open(pr["err"].name, "rb") as f:
                    tail = f.read()[-3000:].decode("utf-8", "replace")
                crashed.append("shard %d ended (%s) without a result: %s" % (pr["i"], rc, tail))

    # ---- merge ----------------------------------------------------------
    evaluations = 0
    distinct = set()
    samples = []
    counters = {}
    violations = {}
    inconcl = list(crashed)
    reqs = {}
    notes = {}
    for i in sorted(results):
        r = results[i]
        evaluations += r["evaluations"]
        distinct.update(r["distinct"])
        for k, v in r["counters"].items():
            counters[k] = counters.get(k, 0) + v
        for sig, v in r["violations"].items():
            if sig in violations:
                violations[sig]["count"] += v["count"]
            else:
                violations[sig] = dict(v, shard=i)
        inconcl.extend(r["inconclusives"])
        for k, v in r["requirements"].items():
            reqs[k] = max(reqs.get(k, 0), v)
        notes.update(r["notes"])
    # samples: round-robin over shards so that they show different kinds of cases
    depth = 0
    while len(samples) < 6 and depth < 4:
        for i in sorted(results):
            ss = results[i]["samples"]
            if depth < len(ss) and len(samples) < 6 and ss[depth] not in samples:
                samples.append(ss[depth])
        depth += 1
    for k, minimum in sorted(reqs.items()):
        if counters.get(k, 0) < minimum:
            inconcl.append("monitor counter %s=%d below the minimum %d needed for a verdict"
                           % (k, counters.get(k, 0), minimum))
    if evaluations < 1 or len(distinct) < 2:
        inconcl.append("too few distinct cases observed (%d evaluations, %d distinct)"
                       % (evaluations, len(distinct)))

    known = {(k["property"], k["signature"]): k for k in core.load_known()
             if k.get("status") == "known"}
    new_viol = []
    hit_known = []
    for sig, v in sorted(violations.items()):
        k = known.get((args.prop, sig))
        if k is not None:
            hit_known.append((sig, k, v))
        else:
            new_viol.append((sig, v))

    lines = []
    for sig, k, v in hit_known:
        lines.append("KNOWN-FINDING: property=%s %s [%s] (seen %d times)"
                     % (args.prop, k.get("what", v["what"]), sig, v["count"]))
    rdir = os.path.join(core.HOME, "evidence", "replay")
    for sig, v in new_viol:
        os.makedirs(rdir, exist_ok=True)
        path = os.path.join(rdir, "%s-%s.json" % (args.prop, hashlib.sha1(sig.encode()).hexdigest()[:10]))
        with open(path, "w") as f:
            json.dump(dict(property=args.prop, signature=sig, what=v["what"], seed=args.seed,
                           tier=args.tier, shard=v.get("shard", 0), nshards=nsh,
                           witness=v["witness"], count=v["count"]), f, indent=1)
        lines.append("VIOLATION property=%s replay=%s" % (args.prop, os.path.relpath(path, core.HOME)))
        lines.append("  signature: %s" % sig)
        lines.append("  what: %s (seen %d times)" % (v["what"], v["count"]))
    if not new_viol and inconcl:
        for r in inconcl[:10]:
            lines.append("INCONCLUSIVE property=%s reason=%s" % (args.prop, r.replace("\n", " | ")[:1500]))

    wall = round(time.time() - t0, 2)
    cov = dict(
        evaluations=evaluations,
        distinct_nontrivial=len(distinct),
        rule=meta.get("rule", ""),
        samples=samples,
        counters=dict(sorted(counters.items())),
        shards=nsh,
        shards_completed=len(results),
        inconclusive=inconcl[:20],
        known_findings_hit=[dict(signature=s, seen=v["count"]) for s, k, v in hit_known],
        violation_signatures=[s for s, v in new_viol],
    )
    cov.update(notes)
    if meta.get("exhaustive"):
        cov["exhaustive"] = bool(counters.get("exhaustive_window_complete", 0)) and not inconcl
    ev = dict(
        property_id=args.prop,
        tier=args.tier,
        seed=args.seed,
        level=meta["level"],
        coverage=cov,
        assumptions=meta.get("assumptions", []),
        wall_s=wall,
        violations=len(new_viol),
    )
    if not args.no_evidence and not args.replay:
        os.makedirs(os.path.join(core.HOME, "evidence"), exist_ok=True)
        p = os.path.join(core.HOME, "evidence", "%s.json" % args.prop)
        with open(p + ".tmp", "w") as f:
            json.dump(ev, f, indent=1, sort_keys=True)
        os.replace(p + ".tmp", p)
    for ln in lines:
        print(ln)
    verdict = "VIOLATED" if new_viol else ("INCONCLUSIVE" if inconcl else "HELD")
    print("%s %s tier=%s seed=%d: %s on %d evaluations (%d distinct), %d known finding(s), %.1fs"
          % (args.prop, meta.get("title", ""), args.tier, args.seed, verdict, evaluations,
             len(distinct), len(hit_known), wall))
    top = sorted(counters.items())
    print("  monitors: " + ", ".join("%s=%d" % kv for kv in top[:40]))
    import shutil

    shutil.rmtree(tmpd, ignore_errors=True)
    sys.exit(1 if new_viol else (2 if inconcl else 0))


if __name__ == "__main__":
    main()
