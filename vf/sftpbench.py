"""Direct SFTP bench: a real `SFTPClient` talking to a real `SFTPServer` over an
in-memory channel-like pipe (no SSH underneath; ~ms per session), plus a
temp-dir backed SFTPServerInterface that uses the library's own helpers
(`SFTPServer.set_file_attr`, `convert_errno`, `SFTPHandle`).

Both directions of the pipe are observable: every SFTP packet is logged
(`Wire.packets`: dir, type, request id, body) and the server->client direction
can be *held* and released packet by packet, which makes reply-timing
scenarios deterministic.

    b = Bench(root)                       # root = an existing temp directory
    f = b.client.open("/x", "w+") ... b.close()

Server behaviour is tailored by subclassing `DirServer` / `BenchHandle` (e.g.
short reads, failing the n-th write) and passing `si_cls=` / `si_kwargs=`.
"""
import os
import struct
import threading
import time

import paramiko
from paramiko import SFTPAttributes, SFTPHandle, SFTPServer, SFTPServerInterface, SFTP_FAILURE, SFTP_OK
from paramiko.common import o666


class _PipeDir:
    def __init__(self):
        self.cv = threading.Condition()
        self.buf = bytearray()
        self.closed = False
        self.held = []  # whole packets waiting behind the gate
        self.gate = False
        self.raw = bytearray()  # everything written (for packet parsing)
        self.parsed_upto = 0


class FakeTransport:
    def get_log_channel(self):
        return "paramiko.vf"

    def get_hexdump(self):
        return False

    def is_active(self):
        return True


class ChanEnd:
    """Channel-like end of the pipe (send/recv/close/settimeout/recv_ready...)."""

    def __init__(self, wire, rd, wr, name):
        self.wire = wire
        self._rd = rd
        self._wr = wr
        self._name = name
        self._timeout = None
        self.closed = False
        self._transport = FakeTransport()

    def get_name(self):
        return self._name

    def get_transport(self):
        return self._transport

    def settimeout(self, t):
        self._timeout = t

    def gettimeout(self):
        return self._timeout

    def recv_ready(self):
        with self._rd.cv:
            return len(self._rd.buf) > 0

    def send(self, data):
        d = self._wr
        with d.cv:
            if d.closed or self.closed:
                raise EOFError()
            d.raw += data
            self.wire._parse(d)
            if not d.gate:
                d.buf += data
            d.cv.notify_all()
        return len(data)

    def sendall(self, data):
        self.send(data)

    def recv(self, n):
        d = self._rd
        end = None if self._timeout is None else time.monotonic() + self._timeout
        with d.cv:
            while not d.buf:
                if d.closed or self.closed:
                    return b""
                if end is None:
                    d.cv.wait(1.0)
                else:
                    left = end - time.monotonic()
                    if left <= 0:
                        import socket

                        raise socket.timeout()
                    d.cv.wait(left)
            k = n
            if self.wire.frag is not None:
                k = max(1, min(n, self.wire.frag(n, len(d.buf))))
            out = bytes(d.buf[:k])
            del d.buf[:k]
            return out

    def close(self):
        self.closed = True
        for d in (self._rd, self._wr):
            with d.cv:
                d.closed = True
                d.cv.notify_all()


class Wire:
    """c2s / s2c pipe with SFTP packet log and a gate on s2c."""

    def __init__(self):
        self.c2s = _PipeDir()
        self.s2c = _PipeDir()
        self.c2s.name = "c2s"
        self.s2c.name = "s2c"
        self.packets = []  # dict(n, dir, type, id, body)
        self.plock = threading.Lock()
        self.frag = None
        self.client_end = ChanEnd(self, self.s2c, self.c2s, "vf-client")
        self.server_end = ChanEnd(self, self.c2s, self.s2c, "vf-server")
        self.on_packet = None  # callable(pkt) invoked (under the pipe lock) for every packet

    def _parse(self, d):
        # called with d.cv held; cuts complete SFTP packets out of d.raw
        while True:
            avail = len(d.raw) - d.parsed_upto
            if avail < 4:
                return
            (ln,) = struct.unpack(">I", bytes(d.raw[d.parsed_upto:d.parsed_upto + 4]))
            if avail < 4 + ln:
                return
            pkt = bytes(d.raw[d.parsed_upto:d.parsed_upto + 4 + ln])
            d.parsed_upto += 4 + ln
            t = pkt[4] if ln >= 1 else 0
            rid = struct.unpack(">I", pkt[5:9])[0] if ln >= 5 and t not in (1, 2) else None
            rec = dict(dir=d.name, type=t, id=rid, body=pkt[5:], t=time.monotonic())
            with self.plock:
                rec["n"] = len(self.packets)
                self.packets.append(rec)
            if d.gate:
                d.held.append(pkt)
            if self.on_packet is not None:
                self.on_packet(rec)

    # -- gate on server->client replies ----------------------------------
    def hold_replies(self):
        with self.s2c.cv:
            self.s2c.gate = True

    def release_replies(self, n=None):
        d = self.s2c
        with d.cv:
            k = len(d.held) if n is None else min(n, len(d.held))
            for p in d.held[:k]:
                d.buf += p
            del d.held[:k]
            if n is None:
                d.gate = False
            d.cv.notify_all()
            return k

    def held_replies(self):
        with self.s2c.cv:
            return len(self.s2c.held)

    def requests(self):
        with self.plock:
            return [p for p in self.packets if p["dir"] == "c2s" and p["id"] is not None]

    def responses(self):
        with self.plock:
            return [p for p in self.packets if p["dir"] == "s2c" and p["id"] is not None]


class BenchHandle(SFTPHandle):
    def stat(self):
        try:
            return SFTPAttributes.from_stat(os.fstat(self.readfile.fileno()))
        except OSError as e:
            return SFTPServer.convert_errno(e.errno)

    def chattr(self, attr):
        try:
            SFTPServer.set_file_attr(self.filename, attr)
            return SFTP_OK
        except OSError as e:
            return SFTPServer.convert_errno(e.errno)


class DirServer(SFTPServerInterface):
    """Serves the directory given as `root` (the library's default
    canonicalize maps client paths below it)."""

    handle_cls = BenchHandle

    def __init__(self, server, root=None, **kw):
        super().__init__(server)
        self.ROOT = root
        self.kw = kw

    def _realpath(self, path):
        return self.ROOT + self.canonicalize(path)

    def list_folder(self, path):
        path = self._realpath(path)
        try:
            out = []
            for fname in os.listdir(path):
                attr = SFTPAttributes.from_stat(os.stat(os.path.join(path, fname)))
                attr.filename = fname
                out.append(attr)
            return out
        except OSError as e:
            return SFTPServer.convert_errno(e.errno)

    def stat(self, path):
        try:
            return SFTPAttributes.from_stat(os.stat(self._realpath(path)))
        except OSError as e:
            return SFTPServer.convert_errno(e.errno)

    def lstat(self, path):
        try:
            return SFTPAttributes.from_stat(os.lstat(self._realpath(path)))
        except OSError as e:
            return SFTPServer.convert_errno(e.errno)

    def open(self, path, flags, attr):
        path = self._realpath(path)
        try:
            mode = getattr(attr, "st_mode", None)
            fd = os.open(path, flags, mode if mode is not None else o666)
        except OSError as e:
            return SFTPServer.convert_errno(e.errno)
        if (flags & os.O_CREAT) and (attr is not None):
            attr._flags &= ~attr.FLAG_PERMISSIONS
            SFTPServer.set_file_attr(path, attr)
        if flags & os.O_WRONLY:
            fstr = "ab" if flags & os.O_APPEND else "wb"
        elif flags & os.O_RDWR:
            fstr = "a+b" if flags & os.O_APPEND else "r+b"
        else:
            fstr = "rb"
        try:
            f = os.fdopen(fd, fstr)
        except OSError as e:
            return SFTPServer.convert_errno(e.errno)
        fobj = self.handle_cls(flags)
        fobj.filename = path
        fobj.readfile = f
        fobj.writefile = f
        fobj.si = self
        return fobj

    def remove(self, path):
        try:
            os.remove(self._realpath(path))
        except OSError as e:
            return SFTPServer.convert_errno(e.errno)
        return SFTP_OK

    def rename(self, oldpath, newpath):
        oldpath, newpath = self._realpath(oldpath), self._realpath(newpath)
        if os.path.exists(newpath):
            return SFTP_FAILURE
        try:
            os.rename(oldpath, newpath)
        except OSError as e:
            return SFTPServer.convert_errno(e.errno)
        return SFTP_OK

    def posix_rename(self, oldpath, newpath):
        try:
            os.rename(self._realpath(oldpath), self._realpath(newpath))
        except OSError as e:
            return SFTPServer.convert_errno(e.errno)
        return SFTP_OK

    def mkdir(self, path, attr):
        path = self._realpath(path)
        try:
            os.mkdir(path)
            if attr is not None:
                SFTPServer.set_file_attr(path, attr)
        except OSError as e:
            return SFTPServer.convert_errno(e.errno)
        return SFTP_OK

    def rmdir(self, path):
        try:
            os.rmdir(self._realpath(path))
        except OSError as e:
            return SFTPServer.convert_errno(e.errno)
        return SFTP_OK

    def chattr(self, path, attr):
        try:
            SFTPServer.set_file_attr(self._realpath(path), attr)
        except OSError as e:
            return SFTPServer.convert_errno(e.errno)
        return SFTP_OK

    def symlink(self, target_path, path):
        try:
            os.symlink(target_path, self._realpath(path))
        except OSError as e:
            return SFTPServer.convert_errno(e.errno)
        return SFTP_OK

    def readlink(self, path):
        try:
            return os.readlink(self._realpath(path))
        except OSError as e:
            return SFTPServer.convert_errno(e.errno)


class Bench:
    def __init__(self, root, si_cls=DirServer, si_kwargs=None, start_client=True):
        self.root = root
        self.wire = Wire()
        kw = dict(si_kwargs or {})
        kw["root"] = root
        self.server = SFTPServer(self.wire.server_end, "sftp", paramiko.ServerInterface(), si_cls, **kw)
        self.server_exc = None
        self.server_thread = threading.Thread(target=self._serve, daemon=True, name="vf-sftp-server")
        self.server_thread.start()
        self.client = paramiko.SFTPClient(self.wire.client_end) if start_client else None

    def _serve(self):
        try:
            self.server.start_subsystem("sftp", None, self.wire.server_end)
        except BaseException as e:  # the real thing would log and die
            self.server_exc = e
        finally:
            try:
                self.server.finish_subsystem()
            except Exception:
                pass

    def close(self):
        try:
            if self.client is not None:
                self.client.close()
        except Exception:
            pass
        self.wire.client_end.close()
        self.wire.server_end.close()
        self.server_thread.join(2)

    # raw access for server-side fuzzing ---------------------------------
    def raw_request(self, ptype, body):
        """Send one raw SFTP packet (type byte + body) from the client end."""
        self.wire.client_end.send(struct.pack(">I", len(body) + 1) + bytes([ptype]) + body)

    def wait_responses(self, count, timeout=5.0):
        end = time.monotonic() + timeout
        while time.monotonic() < end:
            if len(self.wire.responses()) >= count:
                return True
            time.sleep(0.002)
        return len(self.wire.responses()) >= count
