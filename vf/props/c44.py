"""C44 — AuthStrategy tries sources in order and reports every failure."""
import itertools
import socket

import paramiko
from paramiko.auth_strategy import (
    AuthFailure,
    AuthResult,
    AuthSource,
    AuthStrategy,
    InMemoryPrivateKey,
    NoneAuth,
    OnDiskPrivateKey,
    Password,
)
from paramiko.ssh_exception import (
    AuthenticationException,
    BadAuthenticationType,
    PartialAuthentication,
    PasswordRequiredException,
    SSHException,
)

from vf.core import exc_signature

META = dict(
    title="AuthStrategy order and reporting",
    level="exploration",
    design_ref="§3 C44",
    technique="call recorder on stub and real AuthSource objects + reference model of the expected attempt "
              "sequence and result list, applied to the real AuthStrategy.authenticate",
    text="Every success/failure pattern of 0..8 sources is enumerated and random source lists are added on top: "
         "stub sources that log their authenticate(transport) call and return [] or raise one of ~20 exception "
         "kinds, mixed with the real NoneAuth/Password/InMemoryPrivateKey/OnDiskPrivateKey classes driven "
         "through a recording fake transport. The oracle checks call order, stop at first success, that the "
         "returned AuthResult (or AuthFailure.result) lists exactly the attempted sources in order, each with the "
         "very object it returned or raised, and that AuthFailure is raised exactly when nobody succeeded. "
         "Sequence cases repeat the same source object (or distinct objects that compare equal) inside one "
         "get_sources() run and produce it from generators with side effects (plain, adaptive = next source chosen "
         "from the previous outcome, faulting when resumed after the winner): the produce/try interleaving must be "
         "strictly alternating and stop at the winner, and the result must hold one entry per attempt with that "
         "attempt's own outcome. Reuse histories call authenticate() 2-4 times on ONE strategy instance (retry after failure, call after "
         "success; fresh or the very same source objects): each call is judged by the same per-call model and "
         "every earlier result object is re-compared with its snapshot after each later call. "
         "Holds on the executions produced.",
    note="Stub source objects carry a truthiness dimension in every stratum (default, __bool__ False, __len__ 0, "
         "__eq__ always True / always False, unhashable) plus a stratum in which every source object is falsy: only "
         "authenticate()'s outcome matters, never what the instance evaluates to. "
         "Success is a source returning normally: the empty list in the base strata, and in the return-value stratum "
         "None, [], non-empty lists, strings, booleans, 0, (), {}, a Mock, a bare object (only an exception is a "
         "failure). A same-class stratum makes every source the same real class failing with SSHException-family "
         "errors to show that no exception class hides later sources. BaseException "
         "subclasses that are not Exception (KeyboardInterrupt) are not generated. get_sources is given as "
         "generator, list or iterator.",
    rule="case = one source list (kinds + outcomes + how get_sources yields) or one reuse history (2-4 scripted "
         "calls on one instance); distinct = that description; "
         "trivial (not counted) = nothing",
    assumptions=["a source 'succeeds' when its authenticate() returns without raising, whatever it returns"],
)


def shards(tier):
    return 2 if tier == "quick" else 8

SKIP = [0]  # shard s leaves out the samples of its first SKIP strata, so that evidence shows every stratum



# generous per-shard caps: expiry means INCONCLUSIVE, never a verdict (the box is shared and can be 10x slow)
TIMEOUT = {"quick": 900, "thorough": 3000}


class Custom(Exception):
    pass


class OddError(Exception):
    def __str__(self):
        return ""

    def __bool__(self):  # falsy exception object: must still be reported as a failure
        return False


def make_exc(rng, kind):
    return {
        "AuthenticationException": lambda: AuthenticationException("Authentication failed."),
        "BadAuthenticationType": lambda: BadAuthenticationType("Bad authentication type", ["publickey", "password"]),
        "PartialAuthentication": lambda: PartialAuthentication(["password"]),
        "PasswordRequiredException": lambda: PasswordRequiredException("Private key file is encrypted"),
        "SSHException": lambda: SSHException("No existing session"),
        "EOFError": lambda: EOFError(),
        "OSError": lambda: OSError(104, "Connection reset by peer"),
        "socket.timeout": lambda: socket.timeout("timed out"),
        "ValueError": lambda: ValueError("bad key"),
        "KeyError": lambda: KeyError("identityfile"),
        "TypeError": lambda: TypeError("x"),
        "AttributeError": lambda: AttributeError("pkey"),
        "RuntimeError": lambda: RuntimeError(),
        "AssertionError": lambda: AssertionError(),
        "StopIteration": lambda: StopIteration(),
        "UnicodeDecodeError": lambda: UnicodeDecodeError("utf-8", b"\xff", 0, 1, "invalid start byte"),
        "FileNotFoundError": lambda: FileNotFoundError(2, "No such file", "/nonexistent/id_rsa"),
        "Custom": lambda: Custom("custom"),
        "OddError": lambda: OddError(),
        "NestedAuthFailure": lambda: AuthFailure(result=AuthResult(strategy=None)),
        "NotImplementedError": lambda: NotImplementedError(),
    }[kind]()


EXC_KINDS = ["AuthenticationException", "AuthenticationException", "BadAuthenticationType", "PartialAuthentication",
             "PasswordRequiredException", "SSHException", "EOFError", "OSError", "socket.timeout", "ValueError",
             "KeyError", "TypeError", "AttributeError", "RuntimeError", "AssertionError", "StopIteration",
             "UnicodeDecodeError", "FileNotFoundError", "Custom", "OddError", "NestedAuthFailure",
             "NotImplementedError"]


class Log:
    def __init__(self):
        self.calls = []  # (index, transport object)
        self.produced = 0


class FakeTransport:
    """Recording stand-in for the Transport the real source classes call into."""

    def __init__(self, log):
        self.log = log
        self.script = {}  # username -> (index, outcome)
        self.seen = []

    def _play(self, method, username, *extra):
        idx, outcome = self.script[username]
        self.seen.append((method, username) + extra)
        self.log.calls.append((idx, self))
        if isinstance(outcome, BaseException):
            raise outcome
        return outcome

    def auth_none(self, username):
        return self._play("none", username)

    def auth_password(self, username, password):
        return self._play("password", username, password)

    def auth_publickey(self, username, key):
        return self._play("publickey", username, key)


class Stub(AuthSource):
    def __init__(self, idx, outcome, log):
        super().__init__(username="stub%d" % idx)
        self.idx = idx
        self.outcome = outcome
        self.log = log

    def __repr__(self):
        return "Stub(%d)" % self.idx

    def authenticate(self, transport):
        self.log.calls.append((self.idx, transport))
        if isinstance(self.outcome, BaseException):
            raise self.outcome
        return self.outcome


# ---- 'source object truthiness' dimension -------------------------------------------------------------
# A produced source is attempted whatever its instance evaluates to: a key-ring source that is currently empty may
# define __len__ -> 0 or __bool__ -> False; others compare equal to everything / nothing, or cannot be hashed.
class _BoolFalse:
    def __bool__(self):
        return False


class _LenZero:
    def __len__(self):
        return 0


class _EqAlways:
    def __eq__(self, other):
        return True

    def __ne__(self, other):
        return False

    def __hash__(self):
        return 7


class _EqNever:
    def __eq__(self, other):
        return False

    def __ne__(self, other):
        return True

    def __hash__(self):
        return id(self) >> 4


class _Unhashable:
    __hash__ = None

    def __eq__(self, other):
        return self is other


TRUTHINESS = {"default": None, "__bool__ False": _BoolFalse, "__len__ 0": _LenZero, "__eq__ always True": _EqAlways,
              "__eq__ always False": _EqNever, "unhashable": _Unhashable}
_VARIANT_CACHE = {}


def variant(base, name):
    """Subclass of `base` (Stub / QStub) with the named truthiness behaviour mixed in first."""
    mix = TRUTHINESS[name]
    if mix is None:
        return base
    key = (base, name)
    if key not in _VARIANT_CACHE:
        _VARIANT_CACHE[key] = type("%s_%s" % (base.__name__, mix.__name__.strip("_")), (mix, base), {})
    return _VARIANT_CACHE[key]


def pick_truthiness(rng, force_falsy=False):
    if force_falsy:
        return rng.choice(["__bool__ False", "__len__ 0"])
    return rng.choice(["default", "default", "default", "__bool__ False", "__len__ 0", "__eq__ always True",
                       "__eq__ always False", "unhashable"])


def count_truthiness(ctx, names, attempted):
    """names: truthiness of each produced source in order; attempted: how many of them must be attempted."""
    for nm in names[:attempted]:
        if nm != "default":
            ctx.count("attempts_expected_of_sources_with_" + nm.replace(" ", "_").replace("__", "").lower())
        if nm in ("__bool__ False", "__len__ 0"):
            ctx.count("attempts_expected_of_falsy_source_objects")


def return_values():
    """Things a source's authenticate() may return normally - every one of them is a success."""
    from unittest.mock import Mock

    return [("None", None, "falsy non-list value"), ("[]", [], "empty list"), ("['publickey']", ["publickey"], "non-empty list"),
            ("['password', 'keyboard-interactive']", ["password", "keyboard-interactive"], "non-empty list"),
            ("''", "", "falsy non-list value"), ("'publickey'", "publickey", "other truthy value"),
            ("True", True, "other truthy value"), ("False", False, "falsy non-list value"), ("0", 0, "falsy non-list value"),
            ("Mock()", Mock(), "other truthy value"), ("object()", object(), "other truthy value"),
            ("()", (), "falsy non-list value"), ("{}", {}, "falsy non-list value")]


def build_case(rng, pattern, kinds=None, classes=None, any_value=False, all_falsy=False):
    """pattern: tuple of booleans (True = succeeds). -> descriptor, sources, outcomes, transport, log"""
    log = Log()
    log.truthiness = []
    transport = FakeTransport(log)
    sources, outcomes, desc = [], [], []
    for i, ok in enumerate(pattern):
        cls = classes[i] if classes else rng.choice(["stub", "stub", "stub", "none", "password", "inmemory", "ondisk"])
        if all_falsy:
            cls = "stub"
        truth = pick_truthiness(rng, all_falsy) if cls == "stub" else "default"
        log.truthiness.append(truth)
        if ok and any_value:
            oname, outcome, _ = rng.choice(return_values())
            oname = "returns " + oname
        elif ok:
            outcome, oname = [], "ok"
        else:
            oname = kinds[i] if kinds else rng.choice(EXC_KINDS)
            outcome = make_exc(rng, oname)
        user = "user%d" % i
        if cls == "stub":
            src = variant(Stub, truth)(i, outcome, log)
            if truth != "default":
                cls = "stub[%s]" % truth
        else:
            transport.script[user] = (i, outcome)
            if cls == "none":
                src = NoneAuth(username=user)
            elif cls == "password":
                src = Password(username=user, password_getter=lambda i=i: "pw%d" % i)
            elif cls == "inmemory":
                src = InMemoryPrivateKey(username=user, pkey=object())
            else:
                src = OnDiskPrivateKey(username=user, source="ssh-config", path="/k%d" % i, pkey=object())
        sources.append(src)
        outcomes.append(outcome)
        desc.append((cls, oname))
    return desc, sources, outcomes, transport, log


def make_strategy(sources, how, log):
    if how == "generator":
        class S(AuthStrategy):
            def get_sources(self):
                for s in sources:
                    log.produced += 1
                    yield s
    else:
        class S(AuthStrategy):
            def get_sources(self):  # a plain method returning a list / a one-shot iterator
                log.produced = len(sources)
                return list(sources) if how == "list" else iter(tuple(sources))
    return S(ssh_config=paramiko.SSHConfig())


def exc_class(e):
    return "SSHException subclass" if isinstance(e, SSHException) else "non-SSH exception"


def judge(ctx, desc, how, sources, outcomes, transport, log, strategy=None, wit=None, tag=""):
    """Judge one authenticate() call. Returns the result list object (AuthResult or AuthFailure.result) when the
    call was judged to the end, else None. `tag` qualifies signatures of later calls on a reused strategy."""
    n = len(sources)
    first_ok = next((i for i, o in enumerate(outcomes) if not isinstance(o, BaseException)), None)
    expect_calls = list(range(n if first_ok is None else first_ok + 1))
    if strategy is None:
        strategy = make_strategy(sources, how, log)
    wit = wit or dict(sources=desc, get_sources=how)
    if tag:
        real = ctx

        class _Tagged:  # same ctx, signatures prefixed with the call's position in the history
            def __getattr__(self, name):
                return getattr(real, name)

            def violation(self, sig, what, witness=None):
                return real.violation(tag + sig, what, witness)

        ctx = _Tagged()
    raised = None
    result = None
    try:
        result = strategy.authenticate(transport)
    except AuthFailure as e:
        raised = e
    except Exception as e:
        own = [o for o in outcomes if o is e]
        if own:
            ctx.violation("exception raised by a source escaped authenticate() (%s)" % exc_class(e),
                          "%s raised by a source was not collected into the result" % type(e).__name__, wit)
        else:
            ctx.violation("exception from AuthStrategy.authenticate: " + exc_signature(e), repr(e)[:200], wit)
        return
    ctx.count("authenticate_calls_judged")
    count_truthiness(ctx, getattr(log, "truthiness", []), len(expect_calls))
    called = [i for i, t in log.calls]
    ctx.count("source_attempts_observed", len(called))
    if called != expect_calls:
        if first_ok is not None and any(i > first_ok for i in called):
            sig = "a source was attempted after an earlier source had succeeded"
        elif sorted(called) == expect_calls:
            sig = "sources attempted out of the order they were produced"
        elif len(set(called)) < len(called):
            sig = "a source was attempted more than once"
        else:
            sig = "a source that should have been attempted was skipped"
        ctx.violation(sig, "attempt order %r, expected %r" % (called, expect_calls), wit)
        return
    if any(t is not transport for i, t in log.calls):
        ctx.violation("a source was handed a different transport object", "transport identity changed", wit)
    if first_ok is None:
        ctx.count("all_failed_cases")
        if raised is None:
            ctx.violation("every source failed but authenticate() returned normally",
                          "no AuthFailure although none of %d sources succeeded" % n, wit)
            return
        res = getattr(raised, "result", None)
        where = "AuthFailure.result"
        if not isinstance(raised, AuthenticationException):
            ctx.violation("AuthFailure is not an AuthenticationException", "", wit)
    else:
        ctx.count("success_cases")
        if raised is not None:
            ctx.violation("a source succeeded but authenticate() raised AuthFailure",
                          "source %d succeeded" % first_ok, wit)
            return
        res = result
        where = "returned result"
    try:
        items = list(res)
    except TypeError:
        ctx.violation("%s is not a list of (source, result) entries" % where, repr(res)[:100], wit)
        return
    ctx.count("result_entries_compared", len(items))
    if len(items) != len(expect_calls):
        sig = "%s omits an attempted source" if len(items) < len(expect_calls) else "%s lists a source that was not attempted"
        ctx.violation(sig % where, "%d entries for %d attempts" % (len(items), len(expect_calls)), wit)
        return
    for pos, (item, i) in enumerate(zip(items, expect_calls)):
        src = getattr(item, "source", None)
        out = getattr(item, "result", None)
        if src is not sources[i]:
            ctx.violation("%s lists the sources in a different order than attempted" % where,
                          "entry %d is not source %d" % (pos, i), wit)
            return
        if isinstance(outcomes[i], BaseException):
            if out is not outcomes[i]:
                ctx.violation("%s does not carry the error the source raised" % where,
                              "entry %d holds %r instead of the raised %s" % (pos, out, type(outcomes[i]).__name__), wit)
                return
        elif out is not outcomes[i] and out != outcomes[i]:
            ctx.violation("%s does not carry the value the successful source returned" % where,
                          "entry %d holds %r" % (pos, out), wit)
            return
    if getattr(res, "strategy", strategy) is not strategy:
        ctx.count("result_strategy_attr_differs")  # documented attribute, not part of the statement
    # the real source classes must have handed over their own username / secret
    for call in transport.seen:
        idx = transport.script[call[1]][0]
        if call[0] == "password" and call[2] != "pw%d" % idx:
            ctx.violation("Password source passed a different password than its getter returned", repr(call), wit)
        if call[0] == "publickey" and call[2] is not sources[idx].pkey:
            ctx.violation("private-key source passed a different key object", "", wit)
    ctx.count("real_source_class_calls", len(transport.seen))
    if how == "generator" and log.produced < len(called):
        ctx.violation("more sources attempted than were produced", "", wit)
    return res


# ---- histories: several authenticate() calls on ONE strategy instance -----------------------------------
class Reused(AuthStrategy):
    """get_sources serves whatever the harness scripted for the current call."""

    def __init__(self):
        super().__init__(ssh_config=paramiko.SSHConfig())
        self.current = None  # (sources, how, log)

    def get_sources(self):
        sources, how, log = self.current
        log.produced = len(sources)
        if how == "list":
            return list(sources)
        return iter(tuple(sources))


class ReusedGen(Reused):
    def get_sources(self):
        sources, how, log = self.current
        for src in sources:
            log.produced += 1
            yield src


def history_case(ctx, rng, hi):
    how = rng.choice(["generator", "list", "iterator"])
    strategy = ReusedGen() if how == "generator" else Reused()
    same_objects = rng.random() < 0.4  # the very same source objects come back in every call
    ncalls = rng.randint(2, 4)
    hist = []
    earlier = []  # (call number, result list object, snapshot [(source, outcome object)], was_failure)
    fixed_n = rng.randint(1, 6)
    stubs = None
    for k in range(ncalls):
        n = fixed_n if same_objects else rng.randint(0, 6)
        # first call mostly fails (the retry story), later ones are mixed
        p_ok = 0.0 if (k == 0 and rng.random() < 0.6) else rng.choice([0.0, 0.2, 0.5])
        pattern = tuple(rng.random() < p_ok for _ in range(n))
        if same_objects:
            log = Log()
            transport = FakeTransport(log)
            if stubs is None:
                stubs = [variant(Stub, pick_truthiness(rng))(i, None, log) for i in range(n)]
            desc, outcomes = [], []
            for i, ok in enumerate(pattern):
                oname = "ok" if ok else rng.choice(EXC_KINDS)
                stubs[i].outcome = [] if ok else make_exc(rng, oname)
                stubs[i].log = log
                outcomes.append(stubs[i].outcome)
                desc.append(("stub(reused object)", oname))
            sources = stubs
        else:
            desc, sources, outcomes, transport, log = build_case(rng, pattern)
        hist.append(dict(call=k + 1, sources=desc))
        strategy.current = (sources, how, log)
        tag = "" if k == 0 else "on a later authenticate() of the same strategy instance: "
        res = judge(ctx, desc, how, sources, outcomes, transport, log, strategy=strategy,
                    wit=dict(history=list(hist), get_sources=how, same_source_objects=same_objects), tag=tag)
        if k > 0:
            ctx.count("second_or_later_calls_judged")
        if res is None:
            return
        # earlier results must still say what they said when they were handed out
        for (kk, obj, snap, was_failure) in earlier:
            ctx.count("earlier_results_recompared")
            now = [(getattr(it, "source", None), getattr(it, "result", None)) for it in list(obj)]
            if len(now) != len(snap) or any(a is not c or b is not d for (a, b), (c, d) in zip(now, snap)):
                ctx.violation("an earlier %s changed after a later authenticate() on the same strategy instance"
                              % ("AuthFailure.result" if was_failure else "returned result"),
                              "result of call %d had %d entries, now %d" % (kk, len(snap), len(now)),
                              dict(history=list(hist), get_sources=how))
                return
        first_ok = next((i for i, o in enumerate(outcomes) if not isinstance(o, BaseException)), None)
        earlier.append((k + 1, res, [(it.source, it.result) for it in list(res)], first_ok is None))
    ctx.case(("history", how, same_objects, repr(hist)),
             sample=dict(kind="reuse history", calls=hist, get_sources=how, same_source_objects=same_objects) if hi < 1 else None)
    ctx.count("reuse_histories_run")


# ---- repeated / equal sources in one sequence, and laziness of get_sources() ------------------------------
class QStub(AuthSource):
    """Source whose successive authenticate() calls play successive outcomes; optionally compares equal to
    other sources with the same label (two OnDiskPrivateKey for one path, a password asked twice)."""

    def __init__(self, label, events, eq_by_label=False):
        super().__init__(username="u-" + label)
        self.label = label
        self.queue = []
        self.events = events
        self.eq_by_label = eq_by_label

    def __repr__(self):
        return "QStub(%s)" % self.label

    def __eq__(self, other):
        if self.eq_by_label and isinstance(other, QStub):
            return self.label == other.label
        return self is other

    def __hash__(self):
        return hash(self.label) if self.eq_by_label else id(self)

    def authenticate(self, transport):
        self.events.append(("try", self))
        outcome = self.queue.pop(0)
        if isinstance(outcome, BaseException):
            raise outcome
        return outcome


class GeneratorFault(Exception):
    """Raised by a scripted get_sources() when it is resumed after the winning source."""


def sequence_case(ctx, rng, si):
    """One authenticate() over a sequence in which the same object (or an equal one) may appear several times,
    produced by a generator with side effects. Judged from the interleaving of produce/try events."""
    events = []
    n = rng.randint(1, 7)
    repeat_mode = rng.choice(["none", "same-object", "equal-objects", "same-object"])
    pool_size = n if repeat_mode == "none" else rng.randint(1, max(1, n - 1))
    eq = repeat_mode == "equal-objects"
    p_ok = rng.choice([0.0, 0.0, 0.15, 0.35])
    attempts = []  # per position: (source object, outcome object, outcome name)
    objs = {}
    truths = []
    for pos in range(n):
        lab = "s%d" % rng.randrange(pool_size)
        if eq:
            src = QStub(lab, events, eq_by_label=True)  # a distinct object that == the earlier one
            truths.append("default")
        else:
            if lab not in objs:
                tname = pick_truthiness(rng)
                objs[lab] = variant(QStub, tname)(lab, events)
                objs[lab].truth = tname
            src = objs[lab]
            truths.append(src.truth)
        oname = "ok" if rng.random() < p_ok else rng.choice(EXC_KINDS)
        outcome = [] if oname == "ok" else make_exc(rng, oname)
        attempts.append((src, outcome, oname))
    first_ok = next((i for i, a in enumerate(attempts) if a[2] == "ok"), None)
    tried = n if first_ok is None else first_ok + 1
    for src, outcome, _ in attempts[:tried]:
        src.queue.append(outcome)
    for src, _, _ in attempts[tried:]:
        src.queue.append(AssertionError("source after the winner was tried"))
    style = rng.choice(["plain", "adaptive", "fault-after-winner", "fault-after-winner"])
    if first_ok is None and style == "fault-after-winner":
        style = "plain"
    repeats = len({id(a[0]) for a in attempts[:tried]}) < tried or (eq and len({a[0].label for a in attempts[:tried]}) < tried)

    class S(AuthStrategy):
        def get_sources(self):
            for pos, (src, outcome, oname) in enumerate(attempts):
                if style == "adaptive" and pos > 0:
                    # decide from what happened to the previous source: it must already have been tried
                    prev = attempts[pos - 1][0]
                    if not any(e[0] == "try" and e[1] is prev for e in events):
                        events.append(("adaptive-generator-saw-untried-predecessor", pos))
                events.append(("produce", src))
                yield src
                if style == "fault-after-winner" and pos == first_ok:
                    events.append(("resumed-after-winner", pos))
                    raise GeneratorFault("get_sources() resumed after the winning source")

    desc = dict(sequence=[(a[0].label, a[2], t) for a, t in zip(attempts, truths)], repeat_mode=repeat_mode, generator=style)
    ctx.case(("sequence", repr(desc)), sample=dict(kind="repeated sources / lazy generator", **desc) if si < 1 else None)
    strategy = S(ssh_config=paramiko.SSHConfig())
    transport = object()
    raised = result = None
    try:
        result = strategy.authenticate(transport)
    except AuthFailure as e:
        raised = e
    except GeneratorFault:
        ctx.violation("get_sources() was resumed after the winning source and its exception escaped authenticate()",
                      "generator fault lies after the winner", desc)
        return
    except Exception as e:
        if any(a[1] is e for a in attempts):
            ctx.violation("exception raised by a source escaped authenticate() (%s)" % exc_class(e),
                          type(e).__name__, desc)
        else:
            ctx.violation("exception from AuthStrategy.authenticate: " + exc_signature(e), repr(e)[:200], desc)
        return
    ctx.count("sequence_cases_judged")
    count_truthiness(ctx, truths, tried)
    if style == "adaptive":
        ctx.count("adaptive_generator_cases")
    if style == "fault-after-winner":
        ctx.count("generators_with_fault_after_winner")
    # -- laziness: produce s_i, try s_i, produce s_i+1, ... and nothing after the winner
    want_events = []
    for src, _, _ in attempts[:tried]:
        want_events += [("produce", src), ("try", src)]
    got_events = [(k, v) for k, v in events]
    ctx.count("produce_try_interleavings_checked")
    same = len(got_events) == len(want_events) and all(a[0] == b[0] and a[1] is b[1] for a, b in zip(got_events, want_events))
    if not same:
        kinds = [e[0] for e in got_events]
        nprod, ntry = kinds.count("produce"), kinds.count("try")
        if "adaptive-generator-saw-untried-predecessor" in kinds or (
                nprod >= 2 and kinds[:2] == ["produce", "produce"]):
            sig = "get_sources() is consumed ahead of the attempts (a source is produced before its predecessor was tried)"
        elif "resumed-after-winner" in kinds or nprod > tried:
            sig = "get_sources() is advanced past the winning source"
        elif ntry < tried:
            sig = "an attempt is missing: a repeated or equal source was not tried again" if repeats else \
                "a source that should have been attempted was skipped"
        elif ntry > tried:
            sig = "a source was attempted after an earlier source had succeeded"
        else:
            sig = "produce/try events of get_sources() and the attempts are out of order"
        ctx.violation(sig, "events %r" % [(k, getattr(v, "label", v)) for k, v in got_events][:16], desc)
        return
    # -- the result lists EVERY attempt, in order, each with its own outcome
    if first_ok is None:
        if raised is None:
            ctx.violation("every source failed but authenticate() returned normally", "", desc)
            return
        res, where = getattr(raised, "result", None), "AuthFailure.result"
    else:
        if raised is not None:
            ctx.violation("a source succeeded but authenticate() raised AuthFailure", "", desc)
            return
        res, where = result, "returned result"
    try:
        items = list(res)
    except TypeError:
        ctx.violation("%s is not a list of (source, result) entries" % where, repr(res)[:100], desc)
        return
    if repeats:
        ctx.count("sequences_with_repeated_or_equal_sources")
        ctx.count("repeated_attempts_judged", tried)
    if len(items) != tried:
        ctx.violation("%s has %s entries than attempts were made (%s)"
                      % (where, "fewer" if len(items) < tried else "more",
                         "sequence repeats a source" if repeats else "no repeated source"),
                      "%d entries for %d attempts" % (len(items), tried), desc)
        return
    for pos, item in enumerate(items):
        src, outcome, _ = attempts[pos]
        if getattr(item, "source", None) is not src:
            ctx.violation("%s lists the sources in a different order than attempted" % where, "entry %d" % pos, desc)
            return
        got = getattr(item, "result", None)
        if got is not outcome and not (outcome == [] and got == []):
            ctx.violation("%s does not carry each attempt's own outcome (%s)"
                          % (where, "sequence repeats a source" if repeats else "no repeated source"),
                          "entry %d holds %r" % (pos, got), desc)
            return


# ---- any normal return is a success; exception classes never hide later sources ----------------------------
SSH_FAMILY = ["AuthenticationException", "BadAuthenticationType", "PartialAuthentication", "PasswordRequiredException",
              "SSHException", "NestedAuthFailure"]


def value_class(v):
    if isinstance(v, list):
        return "non-empty list" if v else "empty list"
    return "other truthy value" if v else "falsy non-list value"


def value_case(ctx, rng, vi):
    n = rng.randint(1, 7)
    p_ok = rng.choice([0.2, 0.4, 1.0])
    pattern = tuple(rng.random() < p_ok for _ in range(n))
    if not any(pattern):
        pattern = pattern[:-1] + (True,)
    how = rng.choice(["generator", "list", "iterator"])
    desc, sources, outcomes, transport, log = build_case(rng, pattern, any_value=True)
    winner = next(o for o in outcomes if not isinstance(o, BaseException))
    vc = value_class(winner)
    ctx.case(("value", pattern, how, tuple(desc)),
             sample=dict(kind="source returning an arbitrary value", sources=desc, get_sources=how) if vi < 1 and SKIP[0] <= 1 else None)
    ctx.count("winning_sources_returning_" + vc.replace(" ", "_").replace("-", "_"))
    ctx.count("arbitrary_return_value_cases")
    judge(ctx, desc, how, sources, outcomes, transport, log, tag="winning source returns a %s: " % vc)


def class_case(ctx, rng, ci):
    """Every source of the same class; earlier ones fail with SSHException-family errors (often the same one)."""
    n = rng.randint(2, 8)
    cls = rng.choice(["password", "inmemory", "ondisk", "none", "stub"])
    same_error = rng.random() < 0.5
    first = rng.choice(SSH_FAMILY)
    kinds = [first if same_error else rng.choice(SSH_FAMILY) for _ in range(n)]
    last_ok = rng.random() < 0.5
    pattern = tuple([False] * (n - 1) + [last_ok])
    how = rng.choice(["generator", "list", "iterator"])
    desc, sources, outcomes, transport, log = build_case(rng, pattern, kinds=kinds, classes=[cls] * n)
    ctx.case(("class", cls, tuple(kinds), last_ok, how),
             sample=dict(kind="same-class sources failing with SSH exception classes", sources=desc, get_sources=how) if ci < 1 and SKIP[0] <= 2 else None)
    ctx.count("same_class_sequences_judged")
    ctx.count("attempts_expected_after_an_ssh_family_failure", n - 1)
    if "BadAuthenticationType" in kinds[:-1]:
        ctx.count("sequences_with_a_BadAuthenticationType_before_later_sources")
    judge(ctx, desc, how, sources, outcomes, transport, log,
          tag="sources of one class failing with SSH exception classes: ")


def falsy_case(ctx, rng, fi):
    """Every produced source is a falsy object (__bool__ False / __len__ 0): all of them are attempted and reported."""
    n = rng.randint(1, 6)
    p_ok = rng.choice([0.0, 0.0, 0.3])
    pattern = tuple(rng.random() < p_ok for _ in range(n))
    how = rng.choice(["generator", "list", "iterator"])
    desc, sources, outcomes, transport, log = build_case(rng, pattern, all_falsy=True)
    ctx.case(("falsy", pattern, how, tuple(desc)),
             sample=dict(kind="all source objects are falsy", sources=desc, get_sources=how) if fi < 1 and SKIP[0] <= 3 else None)
    ctx.count("all_falsy_source_lists_judged")
    judge(ctx, desc, how, sources, outcomes, transport, log, tag="every source object is falsy: ")


def run(ctx):
    SKIP[0] = (ctx.shard * 3) % 5
    rng = ctx.rng
    idx = 0
    # every success/failure pattern for 0..8 sources
    for n in range(0, 9):
        for pattern in itertools.product([False, True], repeat=n):
            idx += 1
            if not ctx.mine(idx):
                continue
            for how in ("generator", "list", "iterator"):
                desc, sources, outcomes, transport, log = build_case(rng, pattern)
                ctx.case(("enum", pattern, how, tuple(desc)),
                         sample=dict(kind="enumerated pattern", succeeds=list(pattern), sources=desc, get_sources=how)
                         if idx in (7, 300) and how == "generator" and SKIP[0] <= 0 else None)
                ctx.count("enumerated_pattern_cases")
                judge(ctx, desc, how, sources, outcomes, transport, log)
    for i in range(ctx.pick(6000, 40000)):
        n = rng.randint(0, 8)
        p_ok = rng.choice([0.0, 0.1, 0.3, 0.6])
        pattern = tuple(rng.random() < p_ok for _ in range(n))
        how = rng.choice(["generator", "generator", "list", "iterator"])
        desc, sources, outcomes, transport, log = build_case(rng, pattern)
        ctx.case(("rand", pattern, how, tuple(desc)),
                 sample=None)
        judge(ctx, desc, how, sources, outcomes, transport, log)
    for vi in range(ctx.pick(3000, 20000)):
        value_case(ctx, rng, vi)
    for ci in range(ctx.pick(3000, 20000)):
        class_case(ctx, rng, ci)
    for fi in range(ctx.pick(2000, 12000)):
        falsy_case(ctx, rng, fi)
    for hi in range(ctx.pick(3000, 20000)):
        history_case(ctx, rng, hi)
    for si in range(ctx.pick(5000, 30000)):
        sequence_case(ctx, rng, si)
    ctx.require("all_falsy_source_lists_judged", 3000)
    ctx.require("attempts_expected_of_falsy_source_objects", 15000)
    ctx.require("attempts_expected_of_sources_with_bool_false", 6000)
    ctx.require("attempts_expected_of_sources_with_len_0", 6000)
    ctx.require("attempts_expected_of_sources_with_eq_always_true", 3000)
    ctx.require("attempts_expected_of_sources_with_eq_always_false", 3000)
    ctx.require("attempts_expected_of_sources_with_unhashable", 3000)
    ctx.require("arbitrary_return_value_cases", 4000)
    ctx.require("winning_sources_returning_falsy_non_list_value", 1200)
    ctx.require("winning_sources_returning_non_empty_list", 400)
    ctx.require("winning_sources_returning_other_truthy_value", 800)
    ctx.require("same_class_sequences_judged", 4000)
    ctx.require("attempts_expected_after_an_ssh_family_failure", 12000)
    ctx.require("sequences_with_a_BadAuthenticationType_before_later_sources", 1000)
    ctx.require("sequence_cases_judged", 5000)
    ctx.require("produce_try_interleavings_checked", 5000)
    ctx.require("sequences_with_repeated_or_equal_sources", 1500)
    ctx.require("repeated_attempts_judged", 4000)
    ctx.require("adaptive_generator_cases", 800)
    ctx.require("generators_with_fault_after_winner", 400)
    ctx.require("reuse_histories_run", 2000)
    ctx.require("second_or_later_calls_judged", 3000)
    ctx.require("earlier_results_recompared", 3000)
    ctx.require("authenticate_calls_judged", 3000)
    ctx.require("source_attempts_observed", 8000)
    ctx.require("result_entries_compared", 8000)
    ctx.require("all_failed_cases", 500)
    ctx.require("success_cases", 500)
    ctx.require("real_source_class_calls", 1000)
