"""C06 — key exchange agrees on a secret and authenticates the host key."""
import threading

import paramiko
from cryptography.hazmat.primitives import serialization
from cryptography.hazmat.primitives.asymmetric import ec, x25519

from vf import core, kexlab, kexpins, pair, sshsig

META = dict(
    title="kex agrees on K/H and authenticates the host key",
    level="exploration",
    design_ref="§3 C06",
    technique="_set_K_H recorder on both peers + wire tap of the server's kex reply + independent "
              "(cryptography/nacl/hashlib) signature and exchange-hash oracle; plaintext MITM / malicious "
              "server for single-field corruption of the reply",
    text="Honest stratum: every kex method x host-key algorithm completes 1-4 exchanges (initial + 0-3 rekeys); "
         "for each exchange the K and H recorded at _set_K_H on client and server are compared, H is recomputed "
         "from the identification lines, KEXINITs and kex messages read off the client's tap by an RFC "
         "4253/4419/5656/8731 oracle, the reply signature is verified with cryptography/nacl under the host key "
         "blob shown in that reply over the client's H, session_id must stay the first H, and "
         "get_remote_server_key() must equal the blob shown. Corruption stratum: exactly one field of the reply "
         "(host key bit, f/Q_S bit, f/Q_S replaced by another valid value, signature bit, signature algorithm "
         "name, host key swapped for another of the same type, host key swapped for another type) is changed by "
         "a plaintext MITM on the initial exchange or by a server that rewrites its own reply on a rekey; the "
         "client must abort and must not send NEWKEYS after the bad reply. Holds on the executions produced.",
    note="Trusts cryptography/nacl/hashlib as verifier and hash. K itself is only compared between the peers "
         "(the private exponents are not observed). The malicious-rekey server is an honest Transport whose "
         "_send_message rewrites one reply.",
    rule="honest case = (kex, host key algorithm, number of rekeys, rekey initiator); corruption case = (kex, "
         "host key algorithm, field, exchange index); distinct = that tuple; trivial (not counted) = a "
         "corruption that left the reply bytes unchanged or was never delivered",
    assumptions=[
        "one send() on the link is one SSH packet (Packetizer.write_all), so the MITM can re-frame plaintext packets",
        "cryptography / PyNaCl signature verification is correct",
    ],
)

FIELDS = ("hostkey_bit", "f_bit", "f_other", "sig_bit", "sigblob_bit", "sig_lenprefix", "sig_name", "swap_same",
          "swap_type", "f_reencode", "hostkey_reencode", "sig_reencode")
ALLNAMES = kexlab.HOSTALGS


def shards(tier):
    return 8 if tier == "quick" else 16


TIMEOUT = {"quick": 240, "thorough": 1500}


# --------------------------------------------------------------------------------
def prefix_offsets(blob, inner_of_last=False):
    """Byte offsets of the uint32 length prefixes of the consecutive strings in `blob` (and, optionally, of the
    two strings nested in the last one: the (r, s) pair of an ECDSA signature)."""
    offs = []
    off = 0
    last = None
    while off + 4 <= len(blob):
        n = int.from_bytes(blob[off:off + 4], "big")
        if off + 4 + n > len(blob):
            break
        offs.append(off)
        last = (off + 4, n)
        off += 4 + n
    if inner_of_last and last is not None:
        base, n = last
        offs += [base + o for o in prefix_offsets(blob[base:base + n])]
    return offs


def flip_bit(rng, b, prefixes=()):
    """Flip one uniformly drawn bit.  Re-drawn: bits 17-19 of a length prefix (128 KiB .. 1 MiB past the end of
    the data).  Such a reply is handled like any other altered one, but paramiko zero-pads the field to that
    size and `util.inflate_long` then needs from seconds to minutes of CPU for it, which would turn every such
    case into a wall-clock question (reported separately in notes/groupF2.md)."""
    if not b:
        return b
    slow = {(o + 1) * 8 + bit for o in prefixes for bit in (1, 2, 3)}
    while True:
        i = rng.randrange(len(b) * 8)
        if i not in slow:
            break
    out = bytearray(b)
    out[i // 8] ^= 1 << (i % 8)
    return bytes(out)


def other_public(kex, body, rng):
    """A different but well-formed public value for the server's f / Q_S."""
    if kexlab.is_dh(kex):
        n = sshsig.to_int(body)
        n2 = n ^ 1  # stays in [1, p-1] for every f a server can send (f is never 0, 1 -> 0 excluded below)
        if n2 < 2:
            n2 = n + 2
        return sshsig.mpint(n2)[4:]
    if kex.startswith("ecdh-sha2-"):
        curve = sshsig.EC_CURVE[kex[len("ecdh-sha2-"):]][0]()
        k = ec.generate_private_key(curve)
        return k.public_key().public_bytes(serialization.Encoding.X962, serialization.PublicFormat.UncompressedPoint)
    k = x25519.X25519PrivateKey.generate()
    return k.public_key().public_bytes(serialization.Encoding.Raw, serialization.PublicFormat.Raw)


def applicable(field, kex, hostalg):
    """Re-encodings (same value, other bytes) exist only for some encodings."""
    if field == "f_reencode":
        return not kex.startswith("curve25519")
    if field in ("hostkey_reencode", "sig_reencode"):
        return hostalg != "ssh-ed25519"
    return True


def compress_point(point):
    """SEC1 compressed form (02/03 || X) of an uncompressed point (04 || X || Y)."""
    if point[:1] != b"\x04" or len(point) % 2 != 1:
        raise ValueError("not an uncompressed point")
    n = (len(point) - 1) // 2
    return bytes([2 + (point[-1] & 1)]) + point[1:1 + n]


def corrupt(field, kex, hostalg, payload, rng):
    """Return the reply payload with exactly one field changed."""
    ks, f, sig = kexlab.parse_reply(payload)
    if field == "f_reencode":
        # same value, different bytes: non-minimal mpint / compressed point
        f = b"\x00" + f if kexlab.is_dh(kex) else compress_point(f)
        return kexlab.build_reply(payload[0], ks, f, sig)
    if field == "hostkey_reencode":
        parts, _ = sshsig.read_strings(ks)
        if parts[0] == b"ssh-rsa":
            parts[2] = b"\x00" + parts[2]
        else:
            parts[2] = compress_point(parts[2])
        ks = b"".join(sshsig.s(x) for x in parts)
        return kexlab.build_reply(payload[0], ks, f, sig)
    if field == "sig_reencode":
        name, body = sshsig.parse_sig(sig)
        if name.startswith("ecdsa"):
            (r, sv), _ = sshsig.read_strings(body, 2)
            body = sshsig.s(b"\x00" + r) + sshsig.s(sv)
        else:
            body = b"\x00" + body
        return kexlab.build_reply(payload[0], ks, f, sshsig.s(name) + sshsig.s(body))
    if field == "hostkey_bit":
        ks = flip_bit(rng, ks, prefix_offsets(ks))
    elif field == "f_bit":
        f = flip_bit(rng, f)
    elif field == "f_other":
        f = other_public(kex, f, rng)
    elif field == "sig_bit":
        name, body = sshsig.parse_sig(sig)
        sig = sshsig.s(name) + sshsig.s(flip_bit(rng, body, prefix_offsets(body) if name.startswith("ecdsa") else ()))
    elif field == "sigblob_bit":
        sig = flip_bit(rng, sig, prefix_offsets(sig, inner_of_last=sshsig.parse_sig(sig)[0].startswith("ecdsa")))
    elif field == "sig_lenprefix":
        # most significant bit-pair of the length prefix of the signature body (inside the signature field)
        name, body = sshsig.parse_sig(sig)
        off = 4 + len(name)
        sig = sig[:off] + bytes([sig[off] | 0x40]) + sig[off + 1:]
    elif field == "sig_name":
        name, body = sshsig.parse_sig(sig)
        new = rng.choice([n for n in ALLNAMES if n != name])
        sig = sshsig.s(new) + sshsig.s(body)
    elif field == "swap_same":
        ks = kexlab.hostkey(hostalg, 1).asbytes()
    elif field == "swap_type":
        fam = lambda a: "rsa" if "rsa" in a else a
        other = rng.choice([a for a in ALLNAMES if fam(a) != fam(hostalg)])
        ks = kexlab.hostkey(other, 0).asbytes()
    else:
        raise ValueError(field)
    return kexlab.build_reply(payload[0], ks, f, sig)


def lenient_strings(buf, count):
    """Length-prefixed fields read the way paramiko.Message reads them: a
    length that runs past the end yields what is left (zero-padded below
    1 MiB).  Only used to *classify* an accepted corruption by mechanism."""
    out = []
    off = 0
    for _ in range(count):
        hdr = buf[off:off + 4]
        hdr += b"\0" * (4 - len(hdr))
        n = int.from_bytes(hdr, "big")
        off += 4
        b = buf[off:off + n]
        if len(b) < n < (1 << 20):
            b += b"\0" * (n - len(b))
        off += n
        out.append(b)
    return out


def semantic(payload):
    ks, f, sig = kexlab.parse_reply(payload)
    name, body = lenient_strings(sig, 2)
    if name.startswith(b"ecdsa-"):
        r, sv = lenient_strings(body, 2)
        val = (sshsig.to_int(r), sshsig.to_int(sv))
    else:
        val = body
    return ks, f, name, val


def encoding_only(orig, new):
    try:
        return orig != new and semantic(orig) == semantic(new)
    except Exception:
        return False


def strictly_wellformed(sig):
    """Every length prefix of the signature blob (and of an ECDSA (r, s) pair) matches the data exactly."""
    try:
        parts, rest = sshsig.read_strings(sig)
        if rest or len(parts) != 2:
            return False
        if parts[0].startswith(b"ecdsa-"):
            inner, rest = sshsig.read_strings(parts[1])
            return not rest and len(inner) == 2
        return True
    except Exception:
        return False


def accepted_mechanism(kex, orig, new):
    """Why could an altered reply be accepted?  Returns a mechanism signature or None (= no benign reading:
    the values that are verified really differ)."""
    try:
        ks0, f0, sig0 = kexlab.parse_reply(orig)
        ks1, f1, sig1 = kexlab.parse_reply(new)
    except Exception:
        return None
    if ks0 == ks1 and sig0 == sig1 and f0 != f1 and kexlab.is_dh(kex) and sshsig.to_int(f0) == sshsig.to_int(f1):
        return ("client accepted a kex reply whose f was re-encoded as a non-minimal mpint of the same value "
                "(exchange hash is computed over the decoded value)")
    if ks0 == ks1 and f0 == f1 and sig0 != sig1 and encoding_only(orig, new):
        if strictly_wellformed(sig1):
            return ("client accepted a kex reply whose signature was re-encoded with a non-minimal mpint "
                    "(same r, s)")
        return ("client accepted a kex reply whose signature bytes were altered but decode to the same "
                "signature (over-long length prefix tolerated)")
    return None


# --------------------------------------------------------------------------------
def judge_exchanges(ctx, lab, desc, expect, reported=None, algs=None):
    """Honest stratum oracle over all exchanges of a finished session."""
    c, s = lab.kh.calls["c"], lab.kh.calls["s"]
    if len(c) != expect or len(s) != expect:
        ctx.inconclusive("expected %d _set_K_H calls per side, saw client=%d server=%d (%r)"
                         % (expect, len(c), len(s), desc))
        return
    v_c = lab.link.ab.log[0].rstrip(b"\r\n")
    v_s = lab.link.ba.log[0].rstrip(b"\r\n")
    exs = kexlab.exchanges(lab.events(), "c")
    exs = [e for e in exs if e.get("done")]
    if len(exs) != expect:
        ctx.inconclusive("tap shows %d completed exchanges, expected %d (%r)" % (len(exs), expect, desc))
        return
    sid0 = c[0]["H"]
    last_ks = None
    for i in range(expect):
        a, b = c[i], s[i]
        ctx.count("exchanges_compared")
        if a["K"] != b["K"]:
            ctx.violation("peers hold different K after a completed exchange",
                          "client and server recorded different shared secrets at _set_K_H",
                          dict(case=desc, exchange=i))
        if a["H"] != b["H"]:
            ctx.violation("peers hold different H after a completed exchange",
                          "client and server recorded different exchange hashes at _set_K_H",
                          dict(case=desc, exchange=i, client_H=a["H"], server_H=b["H"]))
        for side, r in (("client", a), ("server", b)):
            ctx.count("session_id_checks")
            if r["sid"] != sid0:
                ctx.violation("session_id changed on %s" % ("rekey" if i else "first exchange"),
                              "%s session_id after exchange %d is not the first exchange hash" % (side, i),
                              dict(case=desc, exchange=i, side=side, sid=r["sid"], first_H=sid0))
        try:
            H, ks, sig = kexlab.rfc_hash(lab.kex, v_c, v_s, exs[i], a["K"])
        except Exception as e:
            ctx.inconclusive("could not rebuild the exchange from tap records: %r (%r)" % (e, desc))
            return
        ctx.count("rfc_hash_compared")
        if H != a["H"]:
            ctx.violation("exchange hash differs from the RFC construction",
                          "H recorded at _set_K_H is not HASH(V_C,V_S,I_C,I_S,K_S,...,K) of what travelled",
                          dict(case=desc, exchange=i, H=a["H"], rfc_H=H))
        try:
            pub = sshsig.parse_pubkey(ks)
            ok, name = sshsig.verify(pub, sig, a["H"])
        except Exception as e:
            ok, name = False, "unparsable: %r" % e
        ctx.count("reply_signatures_verified_independently")
        if not ok:
            ctx.violation("completed exchange whose reply signature does not verify under the host key shown",
                          "independent verification (cryptography/nacl) of the reply signature over the client's H failed",
                          dict(case=desc, exchange=i, sig_alg=name))
        if name == (algs[i] if algs else lab.hostalg):
            ctx.count("reply_sig_alg_equals_negotiated")
        if reported is not None:
            # what get_remote_server_key() said right after this exchange vs the blob this exchange showed
            ctx.count("remote_server_key_checks")
            ctx.count("remote_server_key_checks_per_exchange")
            if last_ks is not None and ks != last_ks:
                ctx.count("exchanges_with_changed_host_key")
            if reported[i] != ks:
                ctx.violation("get_remote_server_key() differs from the host key blob in the reply"
                              + (" (host key changed on rekey)" if last_ks is not None and ks != last_ks else ""),
                              "after exchange %d the client reports a key that is not the one this exchange's reply "
                              "carried (and whose signature was verified)" % i,
                              dict(case=desc, exchange=i, reported=reported[i], shown=ks))
        last_ks = ks
    # the session id at its point of use: every key / IV / MAC key either side derived must be the RFC 4253
    # section 7.2 value computed from that exchange's K and H and the *first* exchange hash
    for side in ("c", "s"):
        calls = lab.kh.calls[side]
        for d in lab.deriv.calls[side]:
            i = d["exchange"]
            if not (0 <= i < len(calls)):
                continue
            want = kexlab.rfc_derive(lab.kex, calls[i]["K"], calls[i]["H"], d["letter"], sid0, d["n"])
            ctx.count("key_derivations_checked")
            if i > 0:
                ctx.count("rekey_key_derivations_checked_against_first_session_id")
            if d["out"] != want:
                alt = kexlab.rfc_derive(lab.kex, calls[i]["K"], calls[i]["H"], d["letter"], calls[i]["H"], d["n"])
                if i > 0 and d["out"] == alt:
                    sigtxt = "keys derived after a rekey use the new exchange hash in place of the first session id"
                elif i > 0:
                    sigtxt = "keys derived after a rekey differ from the RFC 4253 7.2 derivation with the first session id"
                else:
                    sigtxt = "keys derived in the first exchange differ from the RFC 4253 7.2 derivation"
                ctx.violation(sigtxt, "%s side, exchange %d, key '%s' (%d bytes) is not HASH(K || H || X || first H) ..."
                              % ("client" if side == "c" else "server", i, d["letter"], d["n"]),
                              dict(case=desc, side=side, exchange=i, letter=d["letter"], got=d["out"], want=want))
                break
    ctx.count("remote_server_key_checks")
    try:
        shown = lab.tc.get_remote_server_key().asbytes()
    except Exception as e:
        shown = repr(e)
    if shown != last_ks:
        ctx.violation("get_remote_server_key() differs from the host key blob in the reply",
                      "the key the client reports is not the one the last kex reply carried",
                      dict(case=desc, reported=shown, shown=last_ks))
    if lab.tc.session_id != sid0 or lab.ts.session_id != sid0:
        ctx.violation("session_id changed on rekey", "final session_id is not the first exchange hash",
                      dict(case=desc))


def rekey(lab, initiator, timeout=60):
    t = lab.tc if initiator == "c" else lab.ts
    err = []

    def go():
        try:
            t.renegotiate_keys()
        except Exception as e:
            err.append(e)

    th = threading.Thread(target=go, daemon=True)
    th.start()
    th.join(timeout)
    if th.is_alive():
        return "timeout"
    if err:
        return err[0]
    # renegotiate_keys() returns when the *initiator* has switched keys; the
    # other side may still be processing NEWKEYS.  Starting the next exchange
    # from a user thread before that would race with the exchange in progress
    # (not this property's subject), so wait until both sides are out of kex.
    if not pair.wait_for(lambda: all(t.kex_engine is None and t.local_kex_init is None and not t.in_kex
                                     for t in (lab.tc, lab.ts)) or not (lab.tc.is_active() and lab.ts.is_active()),
                         timeout):
        return "timeout"
    return None


def honest_case(ctx, kex, hostalg, nrekeys, sample):
    rng = ctx.rng
    inits = [rng.choice("cs") for _ in range(nrekeys)]
    desc = dict(stratum="honest", kex=kex, hostkey=hostalg, rekeys=nrekeys, initiators="".join(inits))
    ctx.case(("honest", kex, hostalg, nrekeys, tuple(inits)), sample=desc if sample else None)
    lab = kexlab.Lab(rng, kex, hostalg)
    try:
        if not lab.start(timeout=60):
            ctx.violation("honest handshake failed: %s" % sig_of(lab),
                          "an unmodified client/server pair did not complete the key exchange",
                          dict(case=desc, client_exc=repr(lab.pair.client_exc), server_exc=repr(lab.pair.server_exc)))
            return
        ctx.count("honest_handshakes_completed")
        for who in inits:
            r = rekey(lab, who)
            if r == "timeout":
                ctx.inconclusive("rekey did not finish within 60 s (%r)" % desc)
                return
            if r is not None:
                ctx.violation("honest rekey failed: %s" % sig_of(lab),
                              "renegotiate_keys() on an unmodified pair raised", dict(case=desc, exc=repr(r)))
                return
            ctx.count("honest_rekeys_completed")
        # both reader threads must have processed the last NEWKEYS before state is read
        if not pair.wait_for(lambda: len(lab.kh.calls["c"]) == 1 + nrekeys and len(lab.kh.calls["s"]) == 1 + nrekeys
                             and lab.tc.kex_engine is None and lab.ts.kex_engine is None, 30):
            ctx.inconclusive("exchange bookkeeping did not settle (%r)" % desc)
            return
        judge_exchanges(ctx, lab, desc, 1 + nrekeys)
    finally:
        lab.close()


def reported_key(lab):
    try:
        return lab.tc.get_remote_server_key().asbytes()
    except Exception as e:
        return repr(e)


def multikey_case(ctx, kex, algs, sample):
    """Server holds an RSA, an ECDSA and an Ed25519 host key; the client changes its host-key preference
    before every re-exchange (either initiator), so consecutive exchanges are authenticated by different
    keys.  Same monitors as the honest stratum, judged after every exchange."""
    rng = ctx.rng
    inits = [rng.choice("cs") for _ in algs[1:]]
    desc = dict(stratum="honest-multikey", kex=kex, hostkeys=list(algs), initiators="".join(inits))
    ctx.case(("multikey", kex, tuple(algs), tuple(inits)), sample=desc if sample else None)
    keyset = [kexlab.hostkey(a) for a in ("ssh-rsa", "ecdsa-sha2-nistp256", "ecdsa-sha2-nistp384", "ssh-ed25519")]
    # ECDSAKey objects of different curves share one table slot per curve name, RSA serves all three rsa names
    lab = kexlab.Lab(rng, kex, algs[0], host_keys=keyset)
    reported = []
    try:
        if not lab.start(timeout=60):
            ctx.violation("honest handshake failed: %s" % sig_of(lab),
                          "an unmodified client/server pair did not complete the key exchange",
                          dict(case=desc, client_exc=repr(lab.pair.client_exc), server_exc=repr(lab.pair.server_exc)))
            return
        ctx.count("honest_handshakes_completed")
        reported.append(reported_key(lab))
        for who, alg in zip(inits, algs[1:]):
            lab.tc.get_security_options().key_types = [alg]
            r = rekey(lab, who)
            if r == "timeout":
                ctx.inconclusive("rekey did not finish within 60 s (%r)" % desc)
                return
            if r is not None:
                ctx.violation("honest rekey failed: %s" % sig_of(lab),
                              "renegotiate_keys() on an unmodified pair (host key type changed) raised",
                              dict(case=desc, exc=repr(r)))
                return
            ctx.count("honest_rekeys_completed")
            ctx.count("multikey.rekeys_completed")
            reported.append(reported_key(lab))
        n = len(algs)
        if not pair.wait_for(lambda: len(lab.kh.calls["c"]) == n and len(lab.kh.calls["s"]) == n, 30):
            ctx.inconclusive("exchange bookkeeping did not settle (%r)" % desc)
            return
        ctx.count("multikey.sessions")
        judge_exchanges(ctx, lab, desc, n, reported=reported, algs=list(algs))
    finally:
        lab.close()


def pinned_case(ctx, kex, cls, entry, hostalg, second, sample):
    """Honest handshake whose ephemeral keys are pinned so that the raw shared secret starts with zero
    bytes (class `cls`); then a re-exchange (pinned too when `second` is given, random otherwise)."""
    rng = ctx.rng
    desc = dict(stratum="honest-pinned-secret", kex=kex, hostkey=hostalg, leading_bytes=cls, second=bool(second))
    ctx.case(("pinned", kex, cls, entry["client"][:16], hostalg, bool(second)), sample=desc if sample else None)
    kexpins.install()
    lab = kexlab.Lab(rng, kex, hostalg)
    kexpins.pin(lab.tc, [entry["client"]] + ([second["client"]] if second else []))
    kexpins.pin(lab.ts, [entry["server"]] + ([second["server"]] if second else []))
    try:
        if not lab.start(timeout=60):
            ctx.violation("honest handshake failed (shared secret with leading zero bytes, %s): %s" % (cls, sig_of(lab)),
                          "an unmodified pair whose shared secret starts with zero bytes did not complete the exchange",
                          dict(case=desc, client_exc=repr(lab.pair.client_exc), server_exc=repr(lab.pair.server_exc)))
            return
        ctx.count("honest_handshakes_completed")
        r = rekey(lab, rng.choice("cs"))
        if r == "timeout":
            ctx.inconclusive("rekey did not finish within 60 s (%r)" % desc)
            return
        if r is not None:
            ctx.violation("honest rekey failed (after a shared secret with leading zero bytes): %s" % sig_of(lab),
                          "renegotiate_keys() raised on a session keyed from a secret with leading zero bytes",
                          dict(case=desc, exc=repr(r)))
            return
        ctx.count("honest_rekeys_completed")
        try:
            lab.tc.global_request("vf-ping@verif", wait=True)
        except Exception as e:
            ctx.violation("honest rekey failed (after a shared secret with leading zero bytes): %s" % core.exc_signature(e),
                          "traffic after the re-exchange failed", dict(case=desc, exc=repr(e)))
            return
        if not pair.wait_for(lambda: len(lab.kh.calls["c"]) == 2 and len(lab.kh.calls["s"]) == 2, 30):
            ctx.inconclusive("exchange bookkeeping did not settle (%r)" % desc)
            return
        # did the pin take?  (K recorded by both sides vs the secret computed offline with cryptography / pow)
        want = [int(entry["K"], 16)] + ([int(second["K"], 16)] if second else [])
        for i, w in enumerate(want):
            for side in ("c", "s"):
                got = lab.kh.calls[side][i]["K"]
                if got != w:
                    if kexpins.classify(entry["K"] and bytes.fromhex((second if i else entry)["K"])) is None:
                        ctx.inconclusive("bad pin entry")
                        return
                    ctx.violation("shared secret with leading zero bytes computed wrongly",
                                  "%s side recorded a K that is not the secret of the pinned key pair (class %s)"
                                  % ("client" if side == "c" else "server", cls),
                                  dict(case=desc, exchange=i, side=side, got=str(got), want=str(w)))
                    return
        ctx.count("pinned.sessions")
        ctx.count("pinned.%s" % cls)
        ctx.count("pinned.%s.%s" % (kexpins.GROUP_OF[kex], cls))
        if second:
            ctx.count("pinned.second_exchange_pinned_too")
        judge_exchanges(ctx, lab, desc, 2)
    finally:
        kexpins.unpin(lab.tc)
        kexpins.unpin(lab.ts)
        lab.close()


def wire_kex_choice(lab, index=0):
    """(method RFC 4253 section 7.1 selects, client's list, server's list) read off both KEXINITs: the first
    name on the client's list that the server also lists; pseudo-algorithms are not methods."""
    exs = kexlab.exchanges(lab.events(), "c")
    if index >= len(exs) or "i_out" not in exs[index] or "i_in" not in exs[index]:
        return None, None, None

    def names(payload):
        (first,), _ = sshsig.read_strings(payload[17:], 1)
        return [x for x in first.decode("ascii", "replace").split(",")
                if x and not x.startswith("ext-info-") and not x.startswith("kex-strict-")]

    mine, theirs = names(exs[index]["i_out"]["payload"]), names(exs[index]["i_in"]["payload"])
    for a in mine:
        if a in theirs:
            return a, mine, theirs
    return None, mine, theirs


def kexorder_case(ctx, cell, client_order, server_order, hostalg, sample):
    """Client and server rank their common kex methods differently: both must run the client's first method
    that the server supports, agree on K/H/session id, and a re-exchange must complete."""
    rng = ctx.rng
    desc = dict(stratum="honest-kex-order", cell=cell, client_order=list(client_order) if client_order else "default",
                server_order=list(server_order) if server_order else "default", hostkey=hostalg)
    ctx.case(("kexorder", cell, tuple(client_order or ()), tuple(server_order or ()), hostalg), sample=desc if sample else None)
    lab = kexlab.Lab(rng, None, hostalg)
    if client_order:
        lab.tc.get_security_options().kex = list(client_order)
    if server_order:
        lab.ts.get_security_options().kex = list(server_order)
    try:
        ok = lab.start(timeout=90)
        want, mine, theirs = wire_kex_choice(lab, 0)
        if want is None:
            ctx.inconclusive("could not read a common kex method off the KEXINITs: %r" % desc)
            return
        wit = dict(case=desc, expected_method=want, client_list=mine, server_list=theirs,
                   client_exc=repr(lab.pair.client_exc), server_exc=repr(lab.pair.server_exc))
        if not ok:
            ctx.violation("honest handshake failed (peers rank common kex methods differently): %s" % sig_of(lab),
                          "client and server share %s (and more) but the handshake did not complete" % want, wit)
            return
        ctx.count("honest_handshakes_completed")
        lab.kex = want
        r = rekey(lab, rng.choice("cs"), 90)
        if r == "timeout":
            ctx.inconclusive("rekey did not finish within 90 s (%r)" % desc)
            return
        if r is not None:
            ctx.violation("honest rekey failed: %s" % sig_of(lab), "renegotiate_keys() on an unmodified pair raised",
                          dict(wit, exc=repr(r)))
            return
        ctx.count("honest_rekeys_completed")
        if not pair.wait_for(lambda: len(lab.kh.calls["c"]) == 2 and len(lab.kh.calls["s"]) == 2, 30):
            ctx.inconclusive("exchange bookkeeping did not settle (%r)" % desc)
            return
        engine = paramiko.Transport._kex_info[want]
        for side in ("c", "s"):
            for i, rec_ in enumerate(lab.kh.calls[side]):
                ctx.count("kexorder.engine_checks")
                if rec_["engine"] is not engine:
                    ctx.violation("kex method run is not the client's first method that the server supports",
                                  "%s ran %s in exchange %d, RFC 4253 7.1 selects %s"
                                  % ("client" if side == "c" else "server", rec_["engine"].__name__, i, want), wit)
                    return
        ctx.count("kexorder.sessions")
        ctx.count("kexorder.%s" % cell)
        if want != mine[0] or want != theirs[0]:
            ctx.count("kexorder.sessions_where_the_first_choices_differ")
        judge_exchanges(ctx, lab, desc, 2)
    finally:
        lab.close()


GEX_SIZES = {1024: "1", 2048: "14", 4096: "16", 8192: "18"}


def gexsize_case(ctx, kex, bits, hostalg, nrekeys, sample):
    """Group exchange against a server whose moduli file holds exactly one group of `bits` bits (1024 and 8192
    are the smallest and the largest size a client accepts)."""
    rng = ctx.rng
    desc = dict(stratum="honest-gex-size", kex=kex, group_bits=bits, hostkey=hostalg, rekeys=nrekeys)
    ctx.case(("gexsize", kex, bits, hostalg, nrekeys), sample=desc if sample else None)
    with kexlab.server_moduli((GEX_SIZES[bits],)):
        lab = kexlab.Lab(rng, kex, hostalg)
        try:
            if not lab.start(timeout=240):
                ctx.violation("honest handshake failed (group exchange with a %d-bit group): %s" % (bits, sig_of(lab)),
                              "an unmodified pair did not complete a group exchange whose only available group has %d bits" % bits,
                              dict(case=desc, client_exc=repr(lab.pair.client_exc), server_exc=repr(lab.pair.server_exc)))
                return
            ctx.count("honest_handshakes_completed")
            for _ in range(nrekeys):
                r = rekey(lab, rng.choice("cs"), 240)
                if r == "timeout":
                    ctx.inconclusive("rekey did not finish within 240 s (%r)" % desc)
                    return
                if r is not None:
                    ctx.violation("honest rekey failed: %s" % sig_of(lab), "renegotiate_keys() on an unmodified pair raised",
                                  dict(case=desc, exc=repr(r)))
                    return
                ctx.count("honest_rekeys_completed")
            # the group that travelled has the size under test
            grp = lab.msgs("c", "in", [31])
            (pbody, _g), _ = sshsig.read_strings(grp[0]["payload"][1:], 2)
            if sshsig.to_int(pbody).bit_length() != bits:
                ctx.inconclusive("server sent a %d-bit group, wanted %d (%r)" % (sshsig.to_int(pbody).bit_length(), bits, desc))
                return
            ctx.count("gexsize.sessions")
            ctx.count("gexsize.%d" % bits)
            ctx.count("gexsize.%d.exchanges" % bits, 1 + nrekeys)
            judge_exchanges(ctx, lab, desc, 1 + nrekeys)
        finally:
            lab.close()


GEX_RANGES = (
    (512, 2048, 8192), (1024, 2048, 16384), (2048, 2048, 2048), (4096, 4096, 4096), (1024, 3072, 8192),
    (512, 4096, 16384), (2048, 4096, 8192), ("old", 2048), ("old", 4096), ("old", 1024),
)


def gex_client_class(base, rng_spec):
    """Client-side KexGex with another (min, preferred, max) request, or the old-style single-value request."""
    if rng_spec[0] == "old":
        class OldGex(base):
            preferred_bits = rng_spec[1]

            def start_kex(self):
                return base.start_kex(self, _test_old_style=True)

        return OldGex

    class RangeGex(base):
        min_bits, preferred_bits, max_bits = rng_spec

    return RangeGex


def gex_case(ctx, kex, hostalg, rng_spec, nrekeys, sample):
    """Honest group exchange whose client asks for a non-default range: both sides must hash the values as sent
    (RFC 4419 section 3) - judged by the RFC exchange-hash oracle fed from the client's tap."""
    rng = ctx.rng
    desc = dict(stratum="honest-gex-range", kex=kex, hostkey=hostalg, request=list(rng_spec), rekeys=nrekeys)
    ctx.case(("gex", kex, hostalg, tuple(rng_spec), nrekeys), sample=desc if sample else None)
    lab = kexlab.Lab(rng, kex, hostalg)
    base = paramiko.Transport._kex_info[kex]
    lab.tc._kex_info = dict(paramiko.Transport._kex_info, **{kex: gex_client_class(base, rng_spec)})
    try:
        if not lab.start(timeout=90):
            ctx.violation("honest handshake failed (group exchange, non-default request): %s" % sig_of(lab),
                          "an unmodified server and a client asking for %r did not complete the group exchange" % (rng_spec,),
                          dict(case=desc, client_exc=repr(lab.pair.client_exc), server_exc=repr(lab.pair.server_exc)))
            return
        ctx.count("honest_handshakes_completed")
        for _ in range(nrekeys):
            r = rekey(lab, rng.choice("cs"), 90)
            if r == "timeout":
                ctx.inconclusive("rekey did not finish within 90 s (%r)" % desc)
                return
            if r is not None:
                ctx.violation("honest rekey failed: %s" % sig_of(lab), "renegotiate_keys() on an unmodified pair raised",
                              dict(case=desc, exc=repr(r)))
                return
            ctx.count("honest_rekeys_completed")
        # the request that travelled is the one we asked for
        sent = lab.msgs("c", "out", [30 if rng_spec[0] == "old" else 34])
        if len(sent) != 1 + nrekeys:
            ctx.inconclusive("expected %d group-exchange requests on the wire, saw %d (%r)" % (1 + nrekeys, len(sent), desc))
            return
        ctx.count("gex.sessions")
        ctx.count("gex.sessions.%s" % ("old_style" if rng_spec[0] == "old" else
                                       "min_below_1024" if rng_spec[0] < 1024 else
                                       "max_above_8192" if rng_spec[2] > 8192 else
                                       "min_eq_pref_eq_max" if rng_spec[0] == rng_spec[2] else "other"))
        judge_exchanges(ctx, lab, desc, 1 + nrekeys)
    finally:
        lab.close()


def sig_of(lab):
    for e in (lab.pair.client_exc, lab.tc.saved_exception, lab.ts.saved_exception):
        if isinstance(e, BaseException) and e.__traceback__ is not None:
            return core.exc_signature(e)
    e = lab.pair.client_exc or lab.tc.saved_exception or lab.ts.saved_exception
    return type(e).__name__


def corrupt_case(ctx, kex, hostalg, field, exchange, sample):
    """exchange 0 = initial (plaintext MITM); >= 1 = that rekey (malicious server)."""
    rng = ctx.rng
    desc = dict(stratum="corrupt", kex=kex, hostkey=hostalg, field=field, exchange=exchange)
    lab = kexlab.Lab(rng, kex, hostalg, with_mitm=(exchange == 0))
    rt = kexlab.reply_type(kex)
    state = dict(changed=None, count=0)
    try:
        if exchange == 0:
            def fn(payload):
                new = corrupt(field, kex, hostalg, payload, rng)
                state["changed"] = new != payload
                state["orig"], state["new"] = payload, new
                return new

            lab.mitm.alter("ba", fn, ptype=rt)
            ok = lab.start(timeout=60)
            api_raised = lab.pair.client_exc is not None
        else:
            orig_send = lab.ts._send_message

            def evil_send(m, _o=orig_send):
                raw = m.asbytes()
                if raw[:1] == bytes([rt]):
                    state["count"] += 1
                    if state["count"] == exchange + 1:
                        new = corrupt(field, kex, hostalg, raw, rng)
                        state["changed"] = new != raw
                        state["orig"], state["new"] = raw, new
                        return _o(paramiko.Message(new))
                return _o(m)

            lab.ts._send_message = evil_send
            if not lab.start(timeout=60):
                ctx.inconclusive("clean initial handshake of a rekey-corruption case failed (%r)" % desc)
                return
            r = None
            for i in range(exchange):
                r = rekey(lab, rng.choice("cs"))
                if r == "timeout":
                    ctx.inconclusive("rekey of a corruption case did not return within 60 s (%r)" % desc)
                    return
                if r is not None and i < exchange - 1:
                    ctx.inconclusive("clean rekey before the corrupted one failed (%r): %r" % (desc, r))
                    return
            api_raised = r is not None
            ok = r is None
        # what did the client see?  (decided as soon as it is dead or has answered with NEWKEYS)
        def newkeys_after_reply():
            rep = lab.msgs("c", "in", [rt])
            if len(rep) != exchange + 1:
                return []
            return [e for e in lab.msgs("c", "out", [21]) if e["n"] > rep[-1]["n"]]

        pair.wait_for(lambda: not lab.tc.is_active() or newkeys_after_reply(), 30)
        replies = lab.msgs("c", "in", [rt])
        if len(replies) != exchange + 1 or not state["changed"] or replies[-1]["payload"] != state.get("new"):
            ctx.case(("corrupt", kex, hostalg, field, exchange), nontrivial=False)
            ctx.count("corruptions_without_effect")
            return
        ctx.case(("corrupt", kex, hostalg, field, exchange), sample=desc if sample else None)
        bad = replies[-1]
        ctx.count("corrupted_replies_delivered")
        ctx.count("corrupted_replies_delivered.%s" % ("initial" if exchange == 0 else "rekey"))
        later_newkeys = newkeys_after_reply()
        wit = dict(case=desc, reply=bad["payload"], original_reply=state["orig"],
                   client_exc=repr(lab.pair.client_exc or lab.tc.saved_exception))
        if not later_newkeys and lab.tc.is_active():
            # neither aborted nor answered yet: give it time, but never decide from the clock
            pair.wait_for(lambda: not lab.tc.is_active() or newkeys_after_reply(), 90)
            later_newkeys = newkeys_after_reply()
            if not later_newkeys and lab.tc.is_active():
                ctx.inconclusive("client neither aborted nor sent NEWKEYS within 120 s of a corrupted reply: %r" % desc)
                return
        if later_newkeys:
            mech = accepted_mechanism(kex, state["orig"], state["new"])
            if mech is not None:
                # K_S, and the values of f and of the signature, are unchanged: only their encoding was altered
                ctx.count("accepted_with_altered_encoding")
                ctx.violation(mech, "the bytes of one reply field were changed in transit into another encoding of the "
                              "same value and the client still completed the exchange", wit)
            else:
                ctx.violation("client sent NEWKEYS after a corrupted kex reply (%s)" % field,
                              "the client answered a reply with an altered %s with NEWKEYS" % field, wit)
        else:
            ctx.count("aborts_observed")
            if api_raised:
                ctx.count("api_raised")
    finally:
        lab.close()


def run(ctx):
    rng = ctx.rng
    with kexlab.server_moduli(("14", "16")):
        # ---- honest matrix: every kex x host key algorithm -------------------------
        cells = [(k, a) for k in kexlab.KEXES for a in kexlab.HOSTALGS]
        n = 0
        for i, (kex, alg) in enumerate(cells):
            if not ctx.mine(i):
                continue
            rek = [(i + ctx.seed) % 4] if ctx.quick else [0, 1, 2, 3]
            for r in rek:
                honest_case(ctx, kex, alg, r, sample=n < 2)
                n += 1
        m = 0  # deterministic case index of the following strata (identical in every shard)
        # ---- honest, host key changes between exchanges -----------------------------------
        pool = ("ssh-rsa", "ssh-ed25519", "ecdsa-sha2-nistp256", "rsa-sha2-512", "ecdsa-sha2-nistp384", "rsa-sha2-256")
        for ki, kex in enumerate(kexlab.KEXES):
            for v in range(2 if ctx.quick else 6):
                m += 1
                if not ctx.mine(m):
                    continue
                length = 2 + (ki + v + ctx.seed) % 3
                start = (ki * 2 + v * 3 + ctx.seed) % len(pool)
                algs = [pool[(start + 2 * t + (t * t) % 3) % len(pool)] for t in range(length)]
                multikey_case(ctx, kex, algs, sample=False)
        # ---- honest, shared secret with leading zero bytes (pinned ephemeral keys) ---------
        pins = ctx.guard(kexpins.load)
        if pins is None:
            return
        pi = 0
        for ki, kex in enumerate(kexlab.KEXES):
            grp = pins[kexpins.GROUP_OF[kex]]
            for cls in kexpins.CLASSES:
                for ei, entry in enumerate(grp.get(cls, [])):
                    pi += 1
                    m += 1
                    if not ctx.mine(m):
                        continue
                    if ctx.quick and ei > 0 and not kex.startswith("curve25519"):
                        continue
                    others = [e for c2 in kexpins.CLASSES for e in grp.get(c2, []) if e is not entry
                              and e["server"] == entry["server"]]
                    second = others[(pi + ctx.seed) % len(others)] if others and (pi + ctx.seed) % 2 else None
                    pinned_case(ctx, kex, cls, entry, kexlab.HOSTALGS[(pi + ctx.seed) % 7], second, sample=False)
        # ---- honest, client and server rank the kex methods differently ---------------------
        K = kexlab.KEXES
        for ki, M in enumerate(K):
            others = [x for x in K if x != M]
            rot = others[(ki + ctx.seed) % 9:] + others[:(ki + ctx.seed) % 9]
            cells = [
                # client puts M first (plus a few more), server has its default order
                ("client_first.%s" % M, [M] + rot[:3], None),
                # server puts M first, client lists the methods in reverse default order
                ("server_first.%s" % M, list(reversed(paramiko.Transport._preferred_kex)), [M] + rot),
                # lists that share exactly two methods, ranked oppositely
                ("two_common.%s" % M, [M, rot[0], rot[4]], [rot[4], rot[1], M]),
            ]
            if not ctx.quick:
                cells += [("client_first_full.%s" % M, [M] + rot, None),
                          ("server_first_default_client.%s" % M, None, [M] + rot),
                          ("both_first.%s" % M, [M] + rot, [rot[2], M] + [x for x in rot if x != rot[2]])]
            for ci, (cell, co, so) in enumerate(cells):
                m += 1
                if not ctx.mine(m):
                    continue
                kexorder_case(ctx, cell, co, so, kexlab.HOSTALGS[(ki + ci + ctx.seed) % 7], sample=False)
        # ---- honest group exchange with a single group of 1024 / 2048 / 4096 / 8192 bits ----
        for gi, gk in enumerate(("diffie-hellman-group-exchange-sha256", "diffie-hellman-group-exchange-sha1")):
            for bi, bits in enumerate((1024, 8192, 2048, 4096)):
                m += 1
                if not ctx.mine(m):
                    continue
                if ctx.quick and gi == 1 and bits >= 4096:
                    continue  # 4096/8192-bit exchanges cost seconds of CPU each: one hash in quick, both in thorough
                nre = 1 if (gi == 0 or not ctx.quick) else 0
                gexsize_case(ctx, gk, bits, kexlab.HOSTALGS[(bi + gi * 4 + ctx.seed) % 7], nre, sample=False)
        # ---- honest group exchange with non-default client requests ------------------------
        for gi, gk in enumerate(("diffie-hellman-group-exchange-sha1", "diffie-hellman-group-exchange-sha256")):
            for ri, spec in enumerate(GEX_RANGES):
                m += 1
                if not ctx.mine(m):
                    continue
                if ctx.quick and (ri + gi + ctx.seed) % 2 and spec not in ((512, 2048, 8192), (1024, 2048, 16384)):
                    continue
                gex_case(ctx, gk, kexlab.HOSTALGS[(ri + gi * 3) % 7], spec, (ri + gi) % 2 if ctx.quick else 1 + ri % 2,
                         sample=False)
        # ---- corruption stratum --------------------------------------------------------
        j = 0
        n = 0
        for ki, kex in enumerate(kexlab.KEXES):
            for fi, field in enumerate(FIELDS):
                if ctx.quick:
                    algs = [kexlab.HOSTALGS[(ki * 3 + fi + ctx.seed) % 7], kexlab.HOSTALGS[(ki + fi * 2 + 3 + ctx.seed) % 7]]
                    plan = [(algs[0], 0), (algs[1], 1 + (ki + fi + ctx.seed) % 3)]
                else:
                    plan = [(a, ex) for a in kexlab.HOSTALGS for ex in (0, 1, 2, 3)]
                for alg, ex in plan:
                    if not applicable(field, kex, alg):
                        alg = "ecdsa-sha2-nistp256" if ctx.quick else None
                    if alg is None or not applicable(field, kex, alg):
                        continue
                    j += 1
                    if not ctx.mine(j):
                        continue
                    corrupt_case(ctx, kex, alg, field, ex, sample=n < 2)
                    n += 1
    ctx.require("kexorder.sessions", 25)
    ctx.require("kexorder.engine_checks", 100)
    ctx.require("kexorder.sessions_where_the_first_choices_differ", 15)
    for M_ in kexlab.KEXES:
        ctx.require("kexorder.client_first.%s" % M_, 1)
        ctx.require("kexorder.server_first.%s" % M_, 1)
    ctx.require("gexsize.sessions", 6)
    for b_ in (1024, 2048, 4096, 8192):
        ctx.require("gexsize.%d" % b_, 1)
    ctx.require("gexsize.1024.exchanges", 2)
    ctx.require("gexsize.8192.exchanges", 2)
    ctx.require("pinned.sessions", 25)
    for c_ in kexpins.CLASSES:
        ctx.require("pinned.%s" % c_, 3)
        ctx.require("pinned.curve25519.%s" % c_, 1)
    ctx.require("pinned.group14.z1_lo", 2)
    ctx.require("pinned.group14.z1_hi", 2)
    ctx.require("gex.sessions", 8)
    ctx.require("gex.sessions.min_below_1024", 2)
    ctx.require("gex.sessions.max_above_8192", 2)
    ctx.require("gex.sessions.old_style", 2)
    ctx.require("key_derivations_checked", 600)
    ctx.require("rekey_key_derivations_checked_against_first_session_id", 300)
    ctx.require("multikey.sessions", 15)
    ctx.require("exchanges_with_changed_host_key", 15)
    ctx.require("remote_server_key_checks_per_exchange", 40)
    ctx.require("exchanges_compared", 100)
    ctx.require("rfc_hash_compared", 100)
    ctx.require("reply_signatures_verified_independently", 100)
    ctx.require("session_id_checks", 200)
    ctx.require("honest_rekeys_completed", 50)
    ctx.require("corrupted_replies_delivered.initial", 40)
    ctx.require("corrupted_replies_delivered.rekey", 40)
    ctx.require("aborts_observed", 80)
