"""C23 -- live channel IDs are unique within a transport and fit in 24 bits."""
import sys
import threading
import time
import weakref

import paramiko
from paramiko import OPEN_FAILED_ADMINISTRATIVELY_PROHIBITED, OPEN_SUCCEEDED

from vf import chanmon as cm
from vf import pair

META = dict(
    title="live channel ids unique and < 2^24",
    level="exploration",
    design_ref="§3 C23",
    technique="invariant at a hook: shadow set of live ids kept by wrapping ChannelMap.put/delete (serialised), "
              "checked on every registration and on every id handed out by Transport._next_channel",
    text="Both transports of a real pair start with _channel_counter a few steps below 2^24 and then see random "
         "sequences of local opens (session, direct-tcpip; x11 / forwarded-tcpip from the server side), peer opens "
         "that the application accepts or rejects, closes, local and peer opens issued at the same moment (with a "
         "delay injected between the peer-open path's _next_channel and its registration), wrap-around through 0 and "
         "the counter forced back onto an id that is still live. Every id registered must be in [0, 2^24), equal to "
         "the channel's own chanid, and not live in that transport's map; every id _next_channel returns must not be "
         "live. The wire view is cross-checked: sender-channel fields of CHANNEL_OPEN / OPEN_CONFIRMATION a side "
         "sends never name an id that is live on that side. Holds on the executions produced.",
    note="'Live' = registered in Transport._channels and the Channel object still alive (the map is weak-valued; the "
         "workload keeps every channel referenced).",
    rule="case = one pair with preset counters and a random action sequence (opens by kind and side, accept/reject "
         "policy, closes, concurrent open bursts, counter forcing); distinct = hash of the sequence; trivial = no "
         "channel registered",
    assumptions=["ChannelMap.put/delete are the only writers of the map"],
)

LIMIT = 1 << 24


def shards(tier):
    return 8 if tier == "quick" else 16


class Shadow:
    """Per-process monitor; one shadow dict per ChannelMap instance."""

    def __init__(self, ctx):
        self.ctx = ctx
        self.lock = threading.RLock()
        self.live = weakref.WeakKeyDictionary()  # ChannelMap -> {id: weakref(chan)}
        self.case = None
        self.delay_peer_open = 0.0
        self.race = None  # armed by run_race: dict(peer_inside=Event, local_done=Event, pause=s)

    def table(self, m):
        t = self.live.get(m)
        if t is None:
            t = self.live[m] = {}
        return t

    def is_live(self, m, cid, other_than=None):
        r = self.table(m).get(cid)
        o = r() if r is not None else None
        return o is not None and o is not other_than

    def install(self):
        from paramiko.transport import ChannelMap, Transport
        sh = self
        ctx = self.ctx
        o_put, o_del, o_next = ChannelMap.put, ChannelMap.delete, Transport._next_channel

        def put(m, chanid, chan):
            with sh.lock:
                path = sys._getframe(1).f_code.co_name
                ctx.count("registrations_checked")
                if not (0 <= chanid < LIMIT):
                    ctx.violation("channel id outside [0, 2^24) registered (%s)" % path,
                                  "id %d registered" % chanid, dict(case=sh.case, id=chanid))
                if chan.chanid != chanid:
                    ctx.violation("channel registered under an id different from its chanid (%s)" % path,
                                  "map key %d, chan.chanid %d" % (chanid, chan.chanid), dict(case=sh.case))
                if sh.is_live(m, chanid, other_than=chan):
                    ctx.violation("channel id assigned while another live channel holds it (%s)" % path,
                                  "id %d registered although a live channel uses it" % chanid,
                                  dict(case=sh.case, id=chanid, live=sorted(k for k in sh.table(m) if sh.is_live(m, k))[:20]))
                if chanid in (0, LIMIT - 1):
                    ctx.count("boundary_ids_registered")
                r = o_put(m, chanid, chan)
                sh.table(m)[chanid] = weakref.ref(chan)
                if sh.race is not None and path == "open_channel" and m is sh.race["map"]:
                    sh.race["local_done"].set()
                return r

        def delete(m, chanid):
            with sh.lock:
                r = o_del(m, chanid)
                sh.table(m).pop(chanid, None)
                ctx.count("releases_seen")
                return r

        def _next_channel(t):
            before = t._channel_counter
            cid = o_next(t)
            with sh.lock:
                ctx.count("ids_handed_out")
                if sh.is_live(t._channels, cid):
                    ctx.count("next_channel_returned_live_id")
                    ctx.violation("_next_channel returned an id that is live",
                                  "id %d handed out while a live channel uses it (counter was %d)" % (cid, before),
                                  dict(case=sh.case, id=cid, counter=before))
                if not (0 <= cid < LIMIT) or not (0 <= t._channel_counter < LIMIT):
                    ctx.violation("_next_channel left the 24-bit space",
                                  "returned %d, counter now %d" % (cid, t._channel_counter), dict(case=sh.case))
                if cid < before:
                    ctx.count("wraps_through_zero")
                if sh.is_live(t._channels, before):
                    ctx.count("skips_over_live_id")
            return cid

        o_get = ChannelMap.get

        def get(m, chanid):
            r = o_get(m, chanid)
            race = sh.race
            if race is not None and r is None and m is race["map"] and not race["peer_inside"].is_set():
                f = sys._getframe(1)
                if f.f_code.co_name == "_next_channel":
                    names = []
                    g = f.f_back
                    while g is not None and len(names) < 3:
                        names.append(g.f_code.co_name)
                        g = g.f_back
                    if "_parse_channel_open" in names:
                        # yield point: the peer-open path has just seen its candidate id free and has not yet
                        # advanced the counter.  Let a local open run now (it cannot, if the lock is held).
                        race["peer_inside"].set()
                        ctx.count("peer_open_paused_in_next_channel")
                        if race["local_done"].wait(race["pause"]):
                            ctx.count("local_open_registered_during_pause")
            return r

        ChannelMap.get = get
        ChannelMap.put, ChannelMap.delete, Transport._next_channel = put, delete, _next_channel

        from paramiko.channel import Channel
        o_init = Channel.__init__

        def init(self, chanid):
            # perturbation: the peer-open path has chosen its id and released the transport lock; registration
            # comes only after this constructor -- stretch that window
            if sh.delay_peer_open and sys._getframe(1).f_code.co_name == "_parse_channel_open":
                time.sleep(sh.delay_peer_open)
                ctx.count("peer_open_windows_stretched")
            o_init(self, chanid)

        Channel.__init__ = init


def gen_case(rng, quick):
    n = rng.randint(10, 40)
    acts = []
    for _ in range(n):
        a = rng.choice(("c_session", "c_session", "c_direct", "s_x11", "s_fwd", "close", "close", "burst", "burst",
                        "force_live", "reject_next", "near_wrap"))
        acts.append((a, rng.getrandbits(16)))
    return dict(c0=LIMIT - rng.randint(0, 6), s0=LIMIT - rng.randint(0, 6), acts=acts,
                peer_delay=rng.choice((0, 0.001, 0.004)))


def wire_crosscheck(ctx, p, case):
    """Independent view from the tap: an id a side announces (sender channel of its CHANNEL_OPEN /
    OPEN_CONFIRMATION) must not be one it announced before and has not yet seen closed by the peer
    (a channel is unlinked only when the peer's CLOSE, or an OPEN_FAILURE, is read)."""
    for side in ("c", "s"):
        live = set()
        for e in p.rec.snapshot():
            if e.get("kind") != "msg" or e["side"] != side or not (cm.OPEN <= e["type"] <= cm.FAILURE):
                continue
            t = e["type"]
            m = cm.parse(e["payload"])
            if e["dir"] == "out" and t in (cm.OPEN, cm.OPEN_OK):
                cid = m["sender"]
                ctx.count("wire_ids_checked")
                if cid >= LIMIT:
                    ctx.violation("channel id >= 2^24 announced on the wire", "sender channel %d" % cid, dict(case=case))
                if cid in live:
                    ctx.violation("channel id announced on the wire while still open on that side",
                                  "%s announced id %d again before the earlier channel was closed by the peer" % (side, cid),
                                  dict(case=case, id=cid))
                live.add(cid)
            elif e["dir"] == "in" and t in (cm.OPEN_FAIL, cm.CLOSE):
                live.discard(m["rcpt"])


def run_case(ctx, sh, case, rng):
    pol = {}
    srv_state = dict(reject=0)

    def chan_policy(kind, chanid):
        if sh.delay_peer_open:
            time.sleep(sh.delay_peer_open)
        if srv_state["reject"] > 0:
            srv_state["reject"] -= 1
            return OPEN_FAILED_ADMINISTRATIVELY_PROHIBITED
        return OPEN_SUCCEEDED

    def direct_policy(chanid, origin, dest):
        return chan_policy("direct-tcpip", chanid)

    rec = None
    p = pair.Pair(rng=rng)
    p.server.policy.update(check_channel_request=chan_policy, check_channel_direct_tcpip_request=direct_policy,
                           check_port_forward_request=lambda a, port: 4000, check_channel_x11_request=True)
    sh.case = case
    keep = []  # strong references: liveness must not depend on GC
    accepted = []
    try:
        if not p.start() or not p.auth():
            ctx.inconclusive("handshake failed")
            return
        p.tc.request_port_forward("127.0.0.1", 4000, handler=lambda ch, a, b: accepted.append(ch))
        boot = p.tc.open_session()
        keep.append(boot)
        boot.request_x11(handler=lambda ch, addr: accepted.append(ch))
        with p.tc.lock:
            p.tc._channel_counter = case["c0"] & (LIMIT - 1)
        with p.ts.lock:
            p.ts._channel_counter = case["s0"] & (LIMIT - 1)
        sh.delay_peer_open = case["peer_delay"]
        errors = []

        def opener(kind):
            try:
                if kind == "c_session":
                    keep.append(p.tc.open_session(timeout=30))
                elif kind == "c_direct":
                    keep.append(p.tc.open_channel("direct-tcpip", ("h", 1), ("o", 2), timeout=30))
                elif kind == "s_x11":
                    keep.append(p.ts.open_x11_channel(("x", 6000)))
                elif kind == "s_fwd":
                    keep.append(p.ts.open_forwarded_tcpip_channel(("o", 1), ("127.0.0.1", 4000)))
                ctx.count("opens_ok")
            except paramiko.ChannelException:
                ctx.count("opens_rejected")
            except Exception as e:
                if str(e) == "Unable to open channel.":
                    # two rejections racing for Transport.saved_exception: the second caller gets the generic error
                    ctx.count("opens_rejected")
                else:
                    errors.append("%s: %r" % (kind, e))

        for a, r in case["acts"]:
            if a in ("c_session", "c_direct", "s_x11", "s_fwd"):
                opener(a)
            elif a == "reject_next":
                srv_state["reject"] += 1 + r % 2
            elif a == "close":
                live = [c for c in keep if not c.closed]
                if live:
                    c = live[r % len(live)]
                    c.close()
                    if r % 3:
                        pair.wait_for(lambda: p.link.quiescent(0.0), 2, 0.001)
            elif a == "burst":
                kinds = [("c_session", "c_direct", "s_x11", "s_fwd")[(r >> (2 * i)) % 4] for i in range(2 + r % 3)]
                ths = [threading.Thread(target=opener, args=(k,), daemon=True) for k in kinds]
                for t in ths:
                    t.start()
                for t in ths:
                    t.join(60)
                if any(t.is_alive() for t in ths):
                    ctx.inconclusive("concurrent open did not finish")
                    return
                ctx.count("concurrent_open_bursts")
            elif a == "force_live":
                # at a sequential point (no open in progress) put the counter onto an id that is live
                tr = p.tc if r % 2 else p.ts
                with tr.lock:
                    ids = sorted(c.get_id() for c in tr._channels.values())
                    if ids:
                        tr._channel_counter = ids[(r >> 1) % len(ids)]
                        ctx.count("counter_forced_onto_live_id")
            elif a == "near_wrap":
                tr = p.tc if r % 2 else p.ts
                with tr.lock:
                    tr._channel_counter = (LIMIT - 1 - (r >> 1) % 3) & (LIMIT - 1)
        sh.delay_peer_open = 0.0
        p.wait_quiet(0.02, 5)
        if errors:
            ctx.inconclusive("open errors: %s" % errors[:3])
        wire_crosscheck(ctx, p, case)
        ctx.count("cases_run")
        ctx.count("channels_kept", len(keep) + len(accepted))
    finally:
        sh.delay_peer_open = 0.0
        sh.case = None
        p.close()


def run_stray(ctx, sh, case, rng):
    """A hostile peer sends an unsolicited CHANNEL_OPEN_FAILURE naming an *established* channel, then the id counter
    is brought back onto that id and more channels are opened.  The established channel must stay registered, keep
    receiving data, and its id must not be handed to a second channel."""
    from vf.attacker import Attacker
    role = case["role"]
    a = Attacker(role=role, rng=rng)
    sh.case = case
    v = a.victim
    keep = []
    try:
        if not a.start(auth=True):
            ctx.inconclusive("attacker handshake failed (stray failure)")
            return
        a.takeover()
        with v.lock:
            v._channel_counter = case["start"] & (LIMIT - 1)
        next_aid = [7000]

        def open_one():
            """One more channel between attacker and victim; returns the victim's Channel."""
            aid = next_aid[0]
            next_aid[0] += 1
            mark = a.inbox_mark()
            if role == "client":
                a.send(cm.OPEN, "session", aid, 1 << 20, 32768)
                r = a.wait_inbox(lambda e: e["type"] == cm.OPEN_OK, 20, mark)
                return v.accept(20) if r is not None else None
            holder = {}
            th = threading.Thread(target=lambda: holder.__setitem__("c", v.open_session(timeout=30)), daemon=True)
            th.start()
            r = a.wait_inbox(lambda e: e["type"] == cm.OPEN, 20, mark)
            if r is None:
                return None
            a.send(cm.OPEN_OK, cm.parse(bytes([cm.OPEN]) + r["payload"])["sender"], aid, 1 << 20, 32768)
            th.join(30)
            return holder.get("c")

        first = [open_one() for _ in range(case["before"])]
        if any(c is None for c in first):
            ctx.inconclusive("could not establish channels (stray failure)")
            return
        keep += first
        est = first[case["target"] % len(first)]
        L = est.get_id()

        def deliver(tag):
            """True/False = delivered or not, decided logically: the victim handles messages in order, so once it has
            answered a probe sent *after* the data, the data has been dispatched.  None = could not tell."""
            blob = ("%s-%d" % (tag, L)).encode()
            a.send(cm.DATA, L, blob)
            if not a.probe_alive(30):
                return None
            if not est.recv_ready():
                return False
            est.settimeout(0.0)
            try:
                return est.recv(100) == blob
            except Exception:
                return False

        if deliver("pre") is not True:
            ctx.inconclusive("established channel did not receive data before the stray failure")
            return
        a.send(cm.OPEN_FAIL, L, case["reason"], "", "")
        if not a.probe_alive(20):
            ctx.inconclusive("victim not alive after the stray OPEN_FAILURE")
            return
        ctx.count("stray_open_failures_sent")
        seen = set()

        def flag(sig, what):
            if sig not in seen:
                seen.add(sig)
                ctx.violation(sig, what, dict(case=case, id=L))

        if v._channels.get(L) is not est:
            flag("established channel dropped from the channel map by a stray OPEN_FAILURE",
                 "Transport._channels no longer holds the in-use channel %d" % L)
        d = deliver("post")
        if d is None:
            ctx.inconclusive("victim stopped answering probes (stray failure)")
            return
        if not d:
            flag("data for an established channel not delivered after a stray OPEN_FAILURE",
                 "CHANNEL_DATA for channel %d no longer reaches its Channel" % L)
        else:
            ctx.count("data_delivered_after_stray_failure")
        with v.lock:
            v._channel_counter = L  # sequential point: bring the counter back onto the established id
        for _ in range(case["after"]):
            c2 = open_one()
            if c2 is None:
                ctx.inconclusive("open after the stray failure did not complete")
                return
            keep.append(c2)
            ctx.count("opens_after_stray_failure")
            if c2.get_id() == L and c2 is not est:
                flag("id of an established channel handed to a second channel after a stray OPEN_FAILURE",
                     "a new channel got id %d while the established one is still open" % L)
        if deliver("late") is False:
            flag("data for an established channel not delivered after a stray OPEN_FAILURE",
                 "CHANNEL_DATA for channel %d no longer reaches its Channel (after further opens)" % L)
        ctx.count("stray_failure_cases")
        return True
    finally:
        sh.case = None
        a.close()


def run_pending(ctx, sh, case, rng):
    """The id the counter wraps onto is held by a channel in state {pending: open sent, peer has not answered;
    confirmed; peer-opened, not yet accepted by the application}.  The next open must get another id.  Decided from the
    victim's tap: sender ids of its CHANNEL_OPEN / OPEN_CONFIRMATION messages among live-or-pending channels."""
    from vf.attacker import Attacker
    role = case["role"]  # attacker's role
    a = Attacker(role=role, rng=rng)
    sh.case = case
    v = a.victim
    keep, threads, errs = [], [], []
    try:
        if not a.start(auth=True):
            ctx.inconclusive("attacker handshake failed (pending opens)")
            return
        a.takeover()
        next_aid = [500]

        def local_open(kind="session"):
            """victim.open_channel in a thread; returns (thread, sender id seen on the wire)"""
            mark = a.inbox_mark()
            holder = {}

            def run():
                try:
                    holder["chan"] = v.open_channel(kind, src_addr=("x", 1), timeout=60) if kind == "x11" else v.open_session(timeout=60)
                    keep.append(holder["chan"])
                except Exception as e:
                    errs.append(repr(e))

            th = threading.Thread(target=run, daemon=True)
            th.start()
            threads.append(th)
            r = a.wait_inbox(lambda e: e["type"] == cm.OPEN, 20, mark)
            return th, (cm.parse(bytes([cm.OPEN]) + r["payload"])["sender"] if r is not None else None)

        def answer(vid):
            next_aid[0] += 1
            a.send(cm.OPEN_OK, vid, next_aid[0], 1 << 20, 32768)

        def peer_open():
            """attacker opens a channel on the victim (victim = server); returns the victim's id"""
            next_aid[0] += 1
            mark = a.inbox_mark()
            a.send(cm.OPEN, "session", next_aid[0], 1 << 20, 32768)
            r = a.wait_inbox(lambda e: e["type"] == cm.OPEN_OK, 20, mark)
            return cm.parse(bytes([cm.OPEN_OK]) + r["payload"])["sender"] if r is not None else None

        base = case["base"]
        with v.lock:
            v._channel_counter = base
        occ = case["occupant"]
        local_kind = "session" if role == "server" else "x11"
        pending = []
        if occ == "pending":
            th, occ_id = local_open(local_kind)
            pending.append(occ_id)
        elif occ == "confirmed":
            th, occ_id = local_open(local_kind)
            if occ_id is not None:
                answer(occ_id)
                th.join(20)
        else:  # peer-opened, never accepted by the application
            occ_id = peer_open()
        if occ_id is None:
            ctx.inconclusive("occupant channel not established (pending opens)")
            return
        ctx.count("wrap_occupant_" + occ.replace("-", "_"))
        # wrap: counter to the top of the id space, one answered open there, the next allocation comes back to `base`
        with v.lock:
            v._channel_counter = LIMIT - 1
        if role == "server":
            th, top = local_open(local_kind)
            if top is not None:
                answer(top)
                th.join(20)
        else:
            top = peer_open()
        if top == LIMIT - 1 and base == 0:
            ctx.count("natural_wraps_onto_the_occupied_id")
        with v.lock:
            if v._channel_counter != base:
                v._channel_counter = base  # (base != 0: put the counter onto the occupant directly)
        # the open issued while the occupant holds the id
        second = []
        for k in range(case["more"]):
            if case["second"] == "local":
                th2, sid = local_open(local_kind)
                pending.append(sid)
            else:
                sid = peer_open()
            second.append(sid)
            ctx.count("opens_issued_onto_an_occupied_id")
        dup = [sid for sid in second if sid == occ_id]
        if None in second:
            ctx.inconclusive("open onto the occupied id was not observed on the wire")
        if dup:
            ctx.violation("channel id of a %s channel handed out again after the counter wrapped onto it" % occ,
                          "the victim announced sender id %d for a new channel while the %s channel with that id is still "
                          "live/pending" % (occ_id, occ), dict(case=case, occupant=occ_id, second=second))
        elif second and None not in second:
            ctx.count("wrap_onto_occupied_id_skipped")
        # answer what is still pending: every open must complete
        for sid in pending:
            if sid is not None:
                answer(sid)
        for th in threads:
            th.join(30)
        alive = [th for th in threads if th.is_alive()]
        if alive and not dup:
            ok, st = cm.blocked_at_quiescence(alive, a.link, ctx.pick(10, 20))
            if ok:
                ctx.violation("open_channel never completed although the peer answered it",
                              "an open is parked with the link drained after every CHANNEL_OPEN on the wire was confirmed",
                              dict(case=case, stacks=st))
            else:
                ctx.inconclusive("an open did not complete (pending opens)")
        pair.wait_for(lambda: a.link.quiescent(0.05), 5)
        ctx.count("pending_open_cases")
        return True
    finally:
        sh.case = None
        a.close()


def run_race(ctx, sh, rng, trials):
    """Deterministic yield injection for one race: the server's transport thread handles a peer CHANNEL_OPEN and is
    paused inside _next_channel right after ChannelMap.get() reported its candidate id free (before the counter
    moves); meanwhile an application thread calls open_channel on the same (server) transport.  Judged by the
    shadow-set monitor (duplicate registration / _next_channel returning a live id)."""
    p = pair.Pair(rng=rng)
    p.server.policy.update(check_channel_x11_request=True)
    sh.case = dict(kind="local-open-vs-peer-open", trials=trials)
    keep, inbound = [], []
    try:
        if not p.start() or not p.auth():
            ctx.inconclusive("handshake failed (race stratum)")
            return
        boot = p.tc.open_session()
        keep.append(boot)
        boot.request_x11(handler=lambda ch, addr: inbound.append(ch))
        for k in range(trials):
            with p.ts.lock:
                p.ts._channel_counter = rng.choice((5, 100, LIMIT - 1, LIMIT - 2, 0))
            race = dict(peer_inside=threading.Event(), local_done=threading.Event(), pause=0.15, map=p.ts._channels)
            errs = []

            def peer_open():
                try:
                    keep.append(p.tc.open_session(timeout=30))
                except Exception as e:
                    errs.append(repr(e))

            def local_open():
                if not race["peer_inside"].wait(10):
                    errs.append("peer open never reached _next_channel")
                    return
                ctx.count("local_open_started_during_pause")
                try:
                    keep.append(p.ts.open_x11_channel(("x", 6000 + k)))
                except Exception as e:
                    errs.append(repr(e))

            tl = threading.Thread(target=local_open, daemon=True)
            tp = threading.Thread(target=peer_open, daemon=True)
            sh.race = race
            tl.start()
            tp.start()
            tp.join(60)
            tl.join(60)
            sh.race = None
            if tp.is_alive() or tl.is_alive():
                ctx.inconclusive("race trial did not finish")
                return
            if errs and not ctx.violations:
                ctx.inconclusive("race trial errors: %s" % errs[:2])
            ctx.count("race_trials")
        p.wait_quiet(0.02, 5)
        wire_crosscheck(ctx, p, sh.case)
        ctx.case(("c23-race", ctx.shard, trials), sample=sh.case)
    finally:
        sh.race = None
        sh.case = None
        p.close()


def run(ctx):
    cm.install()
    sh = Shadow(ctx)
    sh.install()
    rng = ctx.rng
    ctx.guard(run_race, ctx, sh, rng, ctx.pick(6, 30))
    for i in range(ctx.pick(4, 24)):
        j = i * ctx.nshards + ctx.shard
        role = ("server", "client")[j % 2]
        occs = ("pending", "confirmed") if role == "server" else ("pending", "confirmed", "peer-opened-unaccepted")
        case = dict(kind="wrap-onto-occupied-id", role=role, occupant=occs[j // 2 % len(occs)], base=(0, 0, 7)[j // 3 % 3],
                    second=("local", "peer")[j // 4 % 2] if role == "client" else "local", more=1 + j // 8 % 2)
        r = ctx.guard(run_pending, ctx, sh, case, rng)
        ctx.case(("c23-pending", repr(case), i), sample=case if i == 0 else None, nontrivial=bool(r))
    for i in range(ctx.pick(4, 24)):
        j = i * ctx.nshards + ctx.shard
        case = dict(kind="stray-open-failure-for-established-channel", role=("client", "server")[j % 2], before=1 + j % 3,
                    target=j // 2, after=1 + j // 3 % 3, reason=1 + j % 4, start=(0, 5, LIMIT - 1, LIMIT - 2)[j // 2 % 4])
        r = ctx.guard(run_stray, ctx, sh, case, rng)
        ctx.case(("c23-stray", repr(case)), sample=case if i == 0 else None, nontrivial=bool(r))
    n = ctx.pick(15, 200)
    dl = ctx.deadline(30, 400)
    for i in range(n):
        if time.time() > dl:
            break
        case = gen_case(rng, ctx.quick)
        before = ctx.counters.get("registrations_checked", 0)
        ctx.guard(run_case, ctx, sh, case, rng)
        ctx.case(("c23", repr(case)), sample=case if i < 2 else None,
                 nontrivial=ctx.counters.get("registrations_checked", 0) > before)
    ctx.require("registrations_checked", 1000)
    ctx.require("ids_handed_out", 1000)
    ctx.require("wraps_through_zero", 50)
    ctx.require("skips_over_live_id", 30)
    ctx.require("counter_forced_onto_live_id", 30)
    ctx.require("concurrent_open_bursts", 50)
    ctx.require("opens_rejected", 20)
    ctx.require("releases_seen", 200)
    ctx.require("boundary_ids_registered", 20)
    ctx.require("race_trials", 30)
    ctx.require("pending_open_cases", 24)
    ctx.require("wrap_occupant_pending", 8)
    ctx.require("wrap_onto_occupied_id_skipped", 24)
    ctx.require("stray_failure_cases", 24)
    ctx.require("data_delivered_after_stray_failure", 24)
    ctx.require("opens_after_stray_failure", 40)
    ctx.require("peer_open_paused_in_next_channel", 30)
    ctx.require("local_open_started_during_pause", 30)
