"""C29 — SFTP bulk transfers are exact or fail loudly."""
import shutil
import tempfile
import threading
import time

from vf import iso, sftpxfer as X

META = dict(
    title="put/putfo/get/getfo exact or raise under single read/write faults",
    level="fault_enumeration",
    design_ref="§3 C29",
    technique="fault enumeration on a real SFTPClient<->SFTPServer pair: for every request position of a transfer the "
              "server answers that READ/WRITE with each SFTP status code (or a short count); outcome oracle "
              "returned => destination bytes == source bytes",
    text="For each transfer shape (put, putfo, get, getfo, hand-written pipelined SFTPFile; sizes from 0 to 1 MiB incl. "
         "chunk-boundary sizes and seed-drawn sizes; confirm on/off, callback on/off, prefetch on/off, capped prefetch) a "
         "fault-free run counts the READ/WRITE requests the server sees; then every position x every status code 1..8 is "
         "injected once (complete single-fault enumeration for those shapes), plus short reads at every position. The "
         "server's own log proves each fault was delivered. A transfer that returns must have copied exactly the source "
         "bytes. Calls that never return are judged by the request ledger. Complete for the listed shapes and single "
         "faults only; multi-fault sequences are not enumerated, except the cross {write k rejected (first/middle/last "
         "or all k when <=4)} x {CLOSE answered with error/EOF status, connection lost at CLOSE, connection lost before CLOSE}, "
         "and the cross {synchronous stat()/listdir() on the same client after chunk j (from the put/putfo callback, or between two "
         "writes of the hand-driven file)} x {WRITE k rejected, every code} for j before and at/after k; the close-plan cross was first judged by: the caller receives the exception the rejected write's status produced (identity on the exception "
         "chain).",
    note="Trusted: harness server (vf.sftpfaults.FaultyHandle) and pipe. Raising on a fault-free transfer is not judged "
         "(the statement allows it) but at least one exact fault-free transfer per shape is required for a verdict.",
    rule="case = (op, size, options, fault kind/position/code); distinct = hash of that tuple; trivial = the scripted "
         "fault position was never reached (not counted)",
    assumptions=["one fault per transfer", "the served file does not change during a download"],
    exhaustive=False,
)


def shards(tier):
    return 8 if tier == "quick" else 16


TIMEOUT = {"quick": 400, "thorough": 1500}


def shapes(ctx):
    rng_sizes = []
    import random

    r = random.Random(ctx.seed * 7 + 1)  # same on every shard: the enumeration must be identical
    rng_sizes = [r.randint(2, 32767), r.randint(32769, 300000)]
    if ctx.quick:
        sizes = [0, 1, 32768, 40000, 100000] + rng_sizes[:1]
    else:
        sizes = [0, 1, 32767, 32768, 32769, 65536, 100000, 200000, 327680, 1048576] + rng_sizes
    out = []
    q = ctx.quick
    for size in sizes:
        for op in ("put", "putfo"):
            for confirm in (True, False):
                for cb in (False, True):
                    if q and cb != (op == "put"):
                        continue  # quick: callback on for put, off for putfo
                    out.append(dict(op=op, size=size, confirm=confirm, callback=cb))
        for bufsize, wsize in ((-1, 32768), (8192, 5000), (65536, 40000)):
            out.append(dict(op="pfile", size=size, bufsize=bufsize, wsize=wsize))
        for op in ("get", "getfo"):
            for cb in (False, True):
                if q and cb != (op == "get"):
                    continue
                out.append(dict(op=op, size=size, prefetch=False, callback=cb))
                for maxreq in (None, 2):
                    out.append(dict(op=op, size=size, prefetch=True, maxreq=maxreq, callback=cb))
    for i, s in enumerate(out):
        s["cseed"] = 1000 + i + ctx.seed
    return out


def opts(case):
    o = case["op"]
    if o in ("put", "putfo"):
        return "confirm=%s" % case["confirm"]
    if o == "pfile":
        return "buffered" if case["bufsize"] > 1 else "unbuffered"
    return "prefetch=%s" % case["prefetch"]


def signature(case, out):
    f = case.get("fault")
    fam = {"put": "put/putfo", "putfo": "put/putfo", "get": "get/getfo", "getfo": "get/getfo", "pfile": "pipelined SFTPFile"}[case["op"]]
    if out["status"] == "hang":
        tail = "->".join(out["chain"][-4:-2]) if len(out["chain"]) >= 4 else "->".join(out["chain"])
        what = ("no fault" if not f else "the server stopped answering WRITEs" if f[0] == "stall" else
                "%s answered with %s" % (f[0].upper(), "a short count" if f[0].startswith("short") else "status " + ("EOF" if f[2] == 1 else "error")))
        return "hang: %s (%s) blocked in %s with every request answered, after %s" % (fam, opts(case), tail, what)
    if not f and (case.get("declared") is not None or case.get("stat_lag")):
        return ("%s (%s): the declared/stat'ed file size differs from what the source yields and the upload is not "
                "complete (destination is %s)" % (case["op"], opts(case), "a prefix of the source" if out.get("dest_is_prefix") else "different"))
    if not f and case.get("source"):
        return ("putfo (%s): source whose read() returns short counts before its end is not copied completely "
                "(destination is %s)" % (opts(case), "a prefix of the source" if out.get("dest_is_prefix") else "different"))
    if not f:
        return "%s (%s): fault-free transfer returns but destination != source" % (fam, opts(case))
    if f[0] == "stall":
        if out.get("transport") == "ssh":
            fam += " over a real Channel"
        return ("%s returns normally although the connection was gone before close() started and the statuses of the last "
                "pipelined WRITEs were never received (server holds fewer chunks than the source)" % fam)
    if f[0] == "write":
        how = ("its status was read but raised nothing" if out.get("write_status_examined", out.get("fault_status_examined"))
               else "its status is discarded unread")
        if out.get("close_plan", "ok") != "ok":
            how += "; " + plan_class(out["close_plan"]) + (" (real Channel)" if out.get("transport") == "ssh" else "")
        if case.get("sync") and not out.get("write_status_examined", out.get("fault_status_examined")) and out.get("sync_before_rejected_write") is False:
            how = "its status was taken off the wire by an interleaved synchronous request and never examined"
        if fam == "put/putfo":
            if case["confirm"]:
                return ("put/putfo(confirm=True) returns normally although a pipelined WRITE was rejected (%s; the size "
                        "check passes because a later chunk extends the file)" % how)
            return "put/putfo(confirm=False) returns normally although a pipelined WRITE was rejected (%s)" % how
        return "pipelined SFTPFile: close() returns normally although a WRITE was rejected (%s)" % how
    if f[0] == "read":
        if f[2] == 1 and out.get("dest_is_prefix"):
            return ("get/getfo (%s) returns a truncated copy: a READ inside the file answered with EOF status is taken as end "
                    "of file (transferred size is not checked against stat)" % opts(case))
        return "get/getfo (%s) returns normally with wrong bytes after a READ was answered with status %s" % (
            opts(case), "EOF" if f[2] == 1 else "error")
    return "%s (%s) returns normally with wrong bytes after a short server read" % (fam, opts(case))


PLAN_CLASS = {"ok": "CLOSE succeeds", "status:1": "CLOSE answered with EOF status", "drop_at_close": "connection lost at CLOSE",
              "drop_before_close": "connection lost before CLOSE is sent",
              "gone_before_close": "connection gone after the last WRITE and before close starts"}


def plan_class(plan):
    return PLAN_CLASS.get(plan, "CLOSE answered with an error status")


def judge_reported(ctx, case, out):
    """Oracle for a delivered write rejection: by the time the call returns or raises, the caller holds the
    exception that the rejected write's status produced (the object itself, or chained to what was raised)."""
    if out["status"] != "ok" or out.get("outcome") != "raised":
        return  # returned normally / hang: judged by judge()
    ctx.count("rejected_write_outcomes_checked")
    if out.get("write_error_reported"):
        ctx.count("rejected_writes_reported")
        return
    # The statement asks for *an* exception no later than close(): a different exception (e.g. the lost
    # connection at CLOSE, or the CLOSE's own error status) still tells the caller the transfer failed, so it
    # is counted, not flagged.  (An earlier, stricter oracle demanded the write's own error object and
    # alarmed on the unchanged tree for 'connection lost at CLOSE' - a false alarm, see DESIGN 7.3.)
    ctx.count("rejected_writes_reported_by_another_exception")
    ctx.count("other_exception_" + plan_class(out.get("close_plan", "ok")).replace(" ", "_"))


def judge(ctx, case, out, counted=True):
    f = case.get("fault")
    if out["status"] == "watchdog":
        ctx.inconclusive("transfer exceeded its cap without the blocked-at-quiescence evidence: %r" % (out.get("chain"),))
        return
    if out["status"] == "hang":
        ctx.count("hangs_by_request_ledger")
        wit = dict(case=case, observed=out)
        if ctx.counters.get("hang_replays_in_subprocess", 0) < 2:
            res = iso.call("vf.sftpxfer:iso_case", case, timeout=60)
            ctx.count("hang_replays_in_subprocess")
            inner = (res.get("value") or {}).get("status")
            if inner == "hang":
                ctx.count("hang_replays_blocked_again")
            wit["subprocess_replay"] = dict(status=res.get("status"), inner=inner)
        ctx.violation(signature(case, out), "%s never returns: %d requests sent, %d answered, caller waits in recv()"
                      % (case["op"], out["requests"], out["responses"]), wit)
        return
    if out["outcome"] == "raised":
        ctx.count("transfers_raised")
        ctx.count("raised_" + out["exc"])
        return
    ctx.count("transfers_returned")
    ctx.count("destinations_compared")
    if out["exact"]:
        ctx.count("returned_exact")
        if not f:
            ctx.count("faultfree_transfers_exact")
        return
    ctx.count("returned_but_not_exact")
    ctx.violation(signature(case, out), "%s returned normally but the destination (%s bytes) is not the source (%s bytes)"
                  % (case["op"], out["dest_len"], out["src_len"]), dict(case=case, observed=out))


def run(ctx):
    import logging

    logging.getLogger("paramiko").addHandler(logging.NullHandler())
    logging.getLogger("paramiko").propagate = False
    threading.excepthook = lambda a: None
    root = tempfile.mkdtemp(prefix="vf-c29-")
    end = ctx.deadline(300, 1300)
    idx = 0
    stopped = False
    try:
        for shape in shapes(ctx):
            idx += 1
            if not ctx.mine(idx):
                continue
            # fault-free probe: learns how many READ / WRITE requests this shape makes
            base = dict(shape, fault=None)
            out = X.run_case(base, root)
            ctx.case(base, sample=dict(base, observed={k: out.get(k) for k in ("outcome", "exact", "reads", "writes")}) if idx % 40 == 1 else None)
            ctx.count("shapes")
            judge(ctx, base, out)
            if out["status"] != "ok":
                continue
            upload = shape["op"] in ("put", "putfo", "pfile")
            nreq = out["writes"] if upload else out["reads"]
            ctx.count("fault_positions", nreq)
            faults = []
            for k in range(nreq):
                for code in X.CODES:
                    faults.append(["write" if upload else "read", k, code])
                if not upload:
                    faults.append(["short", k, 1])
                    faults.append(["short", k, 1000])
            if not upload:
                faults.append(["shortall", 5000])
                faults.append(["shortall", 32767])
            for fault in faults:
                if time.time() > end:
                    stopped = True
                    break
                case = dict(shape, fault=fault)
                o = X.run_case(case, root)
                if o["status"] == "ok" and not o.get("fault_delivered"):
                    # the position was not reached (e.g. the transfer ended earlier): nothing was injected
                    ctx.case(case, nontrivial=False)
                    ctx.count("fault_not_reached")
                    if not (fault[0] == "short" or fault[0] == "shortall"):
                        judge(ctx, case, o)
                    continue
                ctx.case(case, sample=dict(case, observed={k: o.get(k) for k in ("outcome", "exact", "exc", "exc_text")})
                         if len(ctx.samples) < 4 and fault[1] == 1 else None)
                ctx.count("faults_delivered")
                ctx.count("faults_delivered_%s" % fault[0])
                if fault[0] in ("read", "write"):
                    ctx.count("faults_code_%s" % X.CODE_NAMES[fault[2]])
                judge(ctx, case, o)
                if fault[0] == "write":
                    judge_reported(ctx, case, o)
            # ---- write rejected x CLOSE of the same handle fails too ----------------------
            if upload and not stopped:
                ks = list(range(nreq)) if nreq <= 4 else [0, nreq // 2, nreq - 1]
                wcodes = [3, 4] if ctx.quick else [1, 3, 4, 8]
                plans = ["status:4", "status:1", "drop_at_close", "drop_before_close", "gone_before_close"] + ([] if ctx.quick else ["status:3", "status:8"])
                cells = [(None, None, pl) for pl in plans] + [(k, c, pl) for k in ks for c in wcodes for pl in plans]
                # the server stalls from write k on (neither applied nor answered) and the connection is gone before close()
                cells += [(k, "stall", "gone_before_close") for k in (ks if nreq else [])]
                for k, code, plan in cells:
                    if time.time() > end:
                        stopped = True
                        break
                    if nreq == 0 and plan == "drop_before_close":
                        continue
                    if nreq == 0 and plan == "gone_before_close":
                        continue
                    fl = None if k is None else ["stall", k] if code == "stall" else ["write", k, code]
                    case = dict(shape, fault=fl, close=plan, nwrites=nreq)
                    o = X.run_case(case, root)
                    if code == "stall":
                        if o["status"] == "ok" and not (o.get("close_fault_delivered") and o.get("stalled_writes")):
                            ctx.case(case, nontrivial=False)
                            ctx.count("fault_not_reached")
                            continue
                        ctx.case(case, sample=dict(case, observed={x: o.get(x) for x in ("outcome", "exc", "stalled_writes")})
                                 if k == 0 and len(ctx.samples) < 6 else None)
                        ctx.count("connection_gone_with_stalled_writes_cells")
                        ctx.count("writes_never_answered", o.get("stalled_writes", 0))
                        judge(ctx, case, o)
                        continue
                    if o["status"] == "ok" and not (o.get("close_fault_delivered") and (k is None or o.get("fault_delivered"))):
                        ctx.case(case, nontrivial=False)
                        ctx.count("fault_not_reached")
                        continue
                    ctx.case(case, sample=dict(case, observed={x: o.get(x) for x in ("outcome", "exc", "write_error_reported")})
                             if k == 0 and plan == "drop_at_close" and code == 3 and len(ctx.samples) < 6 else None)
                    if k is None:
                        ctx.count("close_fault_only_cells")
                    else:
                        ctx.count("write_and_close_fault_cells")
                        ctx.count("cells_" + plan_class(plan).replace(" ", "_"))
                    judge(ctx, case, o)
                    if k is not None:
                        judge_reported(ctx, case, o)
            # ---- a synchronous request on the same client between the pipelined writes ----------
            # (progress callback of put/putfo calling stat()/listdir(); stat() between two writes of the
            # hand-driven file) x a rejected write, before and after the sync request
            if upload and nreq >= 2 and not stopped:
                ncalls = nreq if shape["op"] != "pfile" else -(-shape["size"] // shape["wsize"])
                ks = list(range(nreq)) if nreq <= 6 else sorted({0, 1, 2, nreq // 2, nreq - 2, nreq - 1})
                cells = []
                for k in ks:
                    for j in sorted({0, k - 1}):
                        if 0 <= j < min(k, ncalls):
                            cells += [(j, k, c) for c in X.CODES]  # sync before the rejected write: every code
                    if k < ncalls:
                        cells += [(j, k, c) for j in sorted({k, ncalls - 1}) for c in ([3, 4] if ctx.quick else X.CODES)]
                for j, k, code in cells:
                    if time.time() > end:
                        stopped = True
                        break
                    case = dict(shape, fault=["write", k, code], sync=[j, "stat" if (j + k) % 2 else "listdir"])
                    o = X.run_case(case, root)
                    if o["status"] == "ok" and not (o.get("fault_delivered") and o.get("sync_done") and o.get("statuses_taken_by_sync")):
                        ctx.case(case, nontrivial=False)
                        ctx.count("fault_not_reached")
                        if o.get("fault_delivered"):
                            judge(ctx, case, o)
                        continue
                    before = bool(o.get("sync_before_rejected_write"))
                    ctx.case(case, sample=dict(case, observed={x: o.get(x) for x in ("outcome", "exc", "statuses_taken_by_sync", "sync_before_rejected_write")})
                             if j == 0 and k == 1 and code == 3 and len(ctx.samples) < 6 else None)
                    ctx.count("sync_between_writes_cells")
                    ctx.count("sync_%s_rejected_write_cells" % ("before" if before else "after"))
                    ctx.count("sync_cells_%s" % ("put" if shape["op"] != "pfile" else "pfile"))
                    ctx.count("write_statuses_taken_by_sync_request", o.get("statuses_taken_by_sync", 0))
                    judge(ctx, case, o)
            if stopped:
                ctx.count("stopped_by_time_cap")
                ctx.inconclusive("time cap reached before the fault enumeration was complete")
                break
        else:
            ctx.count("exhaustive_window_complete")
        # ---- putfo() from a local source that returns short reads before its end (no server fault) ----
        if ctx.quick:
            ssizes = [2, 40000, 70000, 100000, 131072 + ctx.seed % 977]
        else:
            ssizes = [2, 3000, 32767, 32768, 32769, 65536, 100000, 200000, 327680, 1048576, 40000 + ctx.seed % 9973]
        j = 0
        for size in ssizes:
            for pattern in X.SOURCE_PATTERNS:
                for confirm in (True, False):
                    for cb in (False, True):
                        j += 1
                        if not ctx.mine(j) or time.time() > end:
                            continue
                        case = dict(op="putfo", size=size, cseed=5000 + j + ctx.seed, confirm=confirm, callback=cb,
                                    source=pattern, fault=None)
                        o = X.run_case(case, root)
                        if o["status"] == "ok" and not o.get("source_short_reads"):
                            ctx.case(case, nontrivial=False)
                            ctx.count("source_pattern_not_short")
                            judge(ctx, case, o)
                            continue
                        ctx.case(case, sample=dict(case, observed={x: o.get(x) for x in ("outcome", "exact", "source_short_reads", "writes")})
                                 if pattern == "boundary" and size == 100000 and len(ctx.samples) < 6 else None)
                        ctx.count("short_source_cells")
                        ctx.count("short_source_cells_" + pattern)
                        ctx.count("source_short_reads_returned", o.get("source_short_reads", 0))
                        judge(ctx, case, o)
        # ---- declared file_size of putfo() / stat'ed size of put() differs from what the source yields ----
        dsizes = [1, 40000, 100000, 70000 + ctx.seed % 977] if ctx.quick else [1, 3000, 32768, 32769, 65536, 100000, 200000, 327680, 1048576, 50000 + ctx.seed % 9973]
        j = 0
        for size in dsizes:
            decl = [("zero", 0), ("exact", size), ("smaller_by_1", size - 1), ("smaller_by_chunk", size - 32768), ("half", size // 2),
                    ("larger", size + 1000)]
            for cls, d in decl:
                if d < 0 or (cls != "exact" and d == size) or (cls != "zero" and d == 0):
                    continue
                for confirm in (True, False):
                    for cb in (False, True):
                        for source in (None, "random"):
                            j += 1
                            if not ctx.mine(j) or time.time() > end:
                                continue
                            case = dict(op="putfo", size=size, cseed=7000 + j + ctx.seed, confirm=confirm, callback=cb,
                                        declared=d, source=source, fault=None)
                            o = X.run_case(case, root)
                            ctx.case(case, sample=dict(case, observed={x: o.get(x) for x in ("outcome", "exact", "callback_totals", "writes")})
                                     if cls == "half" and size == 100000 and cb and len(ctx.samples) < 6 else None)
                            ctx.count("declared_size_cells")
                            ctx.count("declared_size_" + cls)
                            judge(ctx, case, o)
            for lag in (1, 32768, size // 2):
                if not 0 < lag <= size:
                    continue
                for confirm in (True, False):
                    for cb in (False, True):
                        j += 1
                        if not ctx.mine(j) or time.time() > end:
                            continue
                        case = dict(op="put", size=size, cseed=7000 + j + ctx.seed, confirm=confirm, callback=cb, stat_lag=lag, fault=None)
                        o = X.run_case(case, root)
                        if o.get("lagged_stat") is None:
                            ctx.case(case, nontrivial=False)
                            continue
                        ctx.case(case)
                        ctx.count("put_file_grown_after_stat_cells")
                        judge(ctx, case, o)
        # ---- connection gone before close(), over a REAL Transport pair (the Channel's own closed state) ----
        rsizes = [100000] if ctx.quick else [40000, 100000, 327680]
        j = 0
        for size in rsizes:
            nw = -(-size // 32768)
            faults = [["write", min(1, nw - 1), 3], ["write", nw - 1, 4], ["stall", 0], ["stall", nw - 1]]
            if not ctx.quick:
                faults += [["write", 0, 4], ["stall", nw // 2], ["write", nw // 2, 8]]
            for op, confirm in (("put", False), ("putfo", False), ("putfo", True), ("pfile", None)):
                for fault in faults:
                    j += 1
                    if not ctx.mine(j) or time.time() > end:
                        continue
                    case = dict(op=op, size=size, cseed=9000 + j + ctx.seed, confirm=confirm, fault=fault,
                                close="gone_before_close", nwrites=nw, bufsize=-1, wsize=32768, callback=True)
                    try:
                        o = X.run_case_ssh(case, root)
                    except Exception:
                        import traceback

                        ctx.inconclusive("ssh harness error: " + traceback.format_exc()[-500:])
                        continue
                    if o["status"] == "ok" and not (o.get("client_channel_reported_closed") and o.get("fault_delivered")):
                        ctx.case(case, nontrivial=False)
                        ctx.count("fault_not_reached")
                        continue
                    ctx.case(case, sample=dict(case, observed={x: o.get(x) for x in ("outcome", "exc", "exc_text", "stalled_writes",
                                                                                   "client_channel_reported_closed")})
                             if fault[0] == "stall" and len(ctx.samples) < 6 else None)
                    ctx.count("gone_before_close_cells_over_real_channel")
                    ctx.count("real_channel_cells_%s" % ("stalled_writes" if fault[0] == "stall" else "rejected_write"))
                    judge(ctx, case, o)
                    if fault[0] == "write" and o["status"] == "ok" and o.get("outcome") == "raised":
                        ctx.count("real_channel_rejected_write_raised_" + o["exc"])
    finally:
        shutil.rmtree(root, ignore_errors=True)
    ctx.require("gone_before_close_cells_over_real_channel", ctx.pick(10, 60))
    ctx.require("real_channel_cells_stalled_writes", ctx.pick(4, 25))
    ctx.require("real_channel_cells_rejected_write", ctx.pick(4, 25))
    ctx.require("declared_size_cells", ctx.pick(120, 400))
    for cls in ("zero", "exact", "smaller_by_1", "smaller_by_chunk", "half", "larger"):
        ctx.require("declared_size_" + cls, ctx.pick(12, 40))
    ctx.require("put_file_grown_after_stat_cells", ctx.pick(25, 80))
    ctx.require("shapes", ctx.pick(60, 200))
    ctx.require("faultfree_transfers_exact", ctx.pick(60, 200))
    ctx.require("faults_delivered", ctx.pick(1000, 10000))
    ctx.require("faults_delivered_write", ctx.pick(300, 4000))
    ctx.require("faults_delivered_read", ctx.pick(500, 5000))
    ctx.require("destinations_compared", ctx.pick(200, 2000))
    ctx.require("write_and_close_fault_cells", ctx.pick(300, 3000))
    ctx.require("close_fault_only_cells", ctx.pick(80, 400))
    ctx.require("rejected_write_outcomes_checked", ctx.pick(600, 6000))
    ctx.require("connection_gone_with_stalled_writes_cells", ctx.pick(40, 150))
    for pl in ("status:4", "status:1", "drop_at_close", "drop_before_close", "gone_before_close"):
        ctx.require("cells_" + plan_class(pl).replace(" ", "_"), ctx.pick(60, 500))
    ctx.require("short_source_cells", ctx.pick(60, 150))
    ctx.require("source_short_reads_returned", ctx.pick(500, 3000))
    for pt in X.SOURCE_PATTERNS:
        ctx.require("short_source_cells_" + pt, ctx.pick(8, 20))
    ctx.require("sync_between_writes_cells", ctx.pick(400, 4000))
    ctx.require("sync_before_rejected_write_cells", ctx.pick(250, 2500))
    ctx.require("sync_after_rejected_write_cells", ctx.pick(80, 1200))
    ctx.require("sync_cells_put", ctx.pick(200, 2000))
    ctx.require("sync_cells_pfile", ctx.pick(100, 1000))
    for c in X.CODE_NAMES.values():
        ctx.require("faults_code_" + c, ctx.pick(100, 1000))
