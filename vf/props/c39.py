"""C39 — SSH wire encoding round-trips; mpints are canonical (RFC 4251 §5)."""
import struct

from paramiko.message import Message

META = dict(
    title="wire encoding round-trip / canonical mpint",
    level="exploration",
    design_ref="§3 C39",
    technique="runtime contract: reference RFC 4251 encoder + write/read-back oracle on the real Message class",
    text="Random typed field sequences are written with the real Message and read back; every read is "
         "followed by the so-far+remainder==whole invariant; every mpint's bytes are compared with an "
         "independent RFC 4251 encoder (int.to_bytes). Integers are drawn around every sign/byte boundary "
         "up to 4096 bits. Holds on the executions produced, not for all inputs.",
    note="Trusts Python's int.to_bytes/struct as the reference encoder. Field sequences are random, not enumerated.",
    rule="case = one field sequence (1-12 typed fields) or one boundary integer; distinct = hash of the "
         "field types and values; trivial (not counted) = nothing",
    assumptions=["int.to_bytes(signed=True) with minimal length is RFC 4251's two's-complement form"],
)


def shards(tier):
    return 4 if tier == "quick" else 16


def ref_mpint(n):
    if n == 0:
        body = b""
    elif n > 0:
        body = n.to_bytes(n.bit_length() // 8 + 1, "big", signed=True)
    else:
        body = n.to_bytes((~n).bit_length() // 8 + 1, "big", signed=True)
    return struct.pack(">I", len(body)) + body


def boundary_ints(rng, maxbits):
    out = [0, 1, -1, 2, -2]
    for bits in list(range(1, 80)) + [127, 128, 129, 255, 256, 257, 511, 512, 1023, 1024, 2047, 2048, 4095, 4096]:
        if bits > maxbits:
            continue
        p = 1 << bits
        for d in (-2, -1, 0, 1, 2):
            out.append(p + d)
            out.append(-(p + d))
    return out


def rand_int(rng, maxbits=4096):
    kind = rng.random()
    bits = rng.choice([rng.randint(0, 72), rng.randint(0, 600), rng.randint(0, maxbits)])
    if kind < 0.04:
        return 0
    n = rng.getrandbits(bits) if bits else 0
    if kind < 0.3 and bits >= 1:
        n |= 1 << (bits - 1)  # high bit set
    if kind > 0.7:
        n = -n
    return n


def check_mpint(ctx, n):
    m = Message()
    m.add_mpint(n)
    got = m.asbytes()
    ctx.count("mpint_encodings_compared")
    want = ref_mpint(n)
    if got != want:
        if n == 0:
            sig = "mpint zero not encoded as the empty string"
        else:
            sig = "mpint non-canonical (%s, %s)" % (
                "negative" if n < 0 else "positive",
                "longer" if len(got) > len(want) else "shorter" if len(got) < len(want) else "different bytes",
            )
        ctx.violation(sig, "add_mpint(%d-bit %s) wrote %s, RFC 4251 form is %s"
                      % (abs(n).bit_length(), "neg" if n < 0 else "int", got[:24].hex(), want[:24].hex()),
                      dict(n=str(n)[:200], got=got, want=want))
    back = Message(got).get_mpint()
    if back != n:
        ctx.violation("mpint round-trip changed the value",
                      "get_mpint(add_mpint(n)) != n", dict(n=str(n)[:200], back=str(back)[:200]))


NAME_CHARS = "abcdefghijklmnopqrstuvwxyz0123456789-@.+=_/*"


def rand_field(rng):
    t = rng.choice(["byte", "bool", "u32", "u64", "aint", "string", "text", "list", "mpint"])
    if t == "byte":
        return t, bytes([rng.randrange(256)])
    if t == "bool":
        return t, rng.random() < 0.5
    if t == "u32":
        return t, rng.choice([0, 1, 0x7FFFFFFF, 0x80000000, 0xFEFFFFFF, 0xFF000000, 0xFFFFFFFF, rng.getrandbits(32)])
    if t == "u64":
        return t, rng.choice([0, 1, (1 << 32) - 1, 1 << 32, (1 << 63), (1 << 64) - 1, rng.getrandbits(64)])
    if t == "aint":
        return t, rng.choice([0, 1, 0xFEFFFFFF, 0xFF000000, 0xFF000001, 0xFFFFFFFF, 1 << 32, (1 << 64) + 5,
                              rng.getrandbits(rng.randint(1, 200))])
    if t == "string":
        ln = rng.choice([0, 1, 2, 3, 4, 5, rng.randint(0, 40), rng.randint(0, 3000)])
        return t, bytes(rng.getrandbits(8) for _ in range(ln))
    if t == "text":
        ln = rng.choice([0, 1, rng.randint(0, 30)])
        alphabet = "abcXYZ 09,;é中\U0001f600\x00\n"
        return t, "".join(rng.choice(alphabet) for _ in range(ln))
    if t == "list":
        k = rng.randint(1, 6)
        return t, ["".join(rng.choice(NAME_CHARS) for _ in range(rng.randint(1, 20))) for _ in range(k)]
    return t, rand_int(rng)


WRITE = dict(byte="add_byte", bool="add_boolean", u32="add_int", u64="add_int64", aint="add_adaptive_int",
             string="add_string", text="add_string", list="add_list", mpint="add_mpint")
READ = dict(byte="get_byte", bool="get_boolean", u32="get_int", u64="get_int64", aint="get_adaptive_int",
            string="get_string", text="get_text", list="get_list", mpint="get_mpint")


def check_sequence(ctx, fields):
    m = Message()
    for t, v in fields:
        getattr(m, WRITE[t])(v)
    whole = m.asbytes()
    r = Message(whole)
    for i, (t, v) in enumerate(fields):
        got = getattr(r, READ[t])()
        ctx.count("fields_read_back")
        if got != v or type(got) is not type(v):
            ctx.violation("field round-trip mismatch (%s)" % t,
                          "a %s written into a Message was read back differently" % t,
                          dict(fields=fields, index=i, got=got))
            return
        sofar = r.get_so_far()
        rem = r.get_remainder()
        ctx.count("sofar_remainder_checks")
        if sofar + rem != whole:
            ctx.violation("so-far + remainder != whole message",
                          "get_so_far()+get_remainder() lost or duplicated bytes after reading a %s" % t,
                          dict(fields=fields, index=i, sofar=sofar, rem=rem))
            return
        # get_so_far / get_remainder must not move the read position
        if r.get_remainder() != rem:
            ctx.violation("get_remainder moved the read position", "second get_remainder differs",
                          dict(fields=fields, index=i))
            return


def run(ctx):
    rng = ctx.rng
    # boundary integers: enumerated, partitioned over shards
    bi = boundary_ints(rng, 4096)
    for i, n in enumerate(bi):
        if not ctx.mine(i):
            continue
        ctx.case(("int", n), sample=dict(kind="boundary-int", n=str(n)[:80]) if i < 40 else None)
        check_mpint(ctx, n)
    n_rand = ctx.pick(20000, 150000)
    for i in range(n_rand):
        n = rand_int(rng)
        ctx.case(("int", n))
        check_mpint(ctx, n)
    n_seq = ctx.pick(6000, 60000)
    for i in range(n_seq):
        fields = [rand_field(rng) for _ in range(rng.randint(1, 12))]
        ctx.case(("seq", fields), sample=dict(kind="field-sequence", fields=fields) if i < 2 else None)
        check_sequence(ctx, fields)
        for t, v in fields:
            if t == "mpint":
                check_mpint(ctx, v)
    # long strings: lengths around every power of two up to a few MiB (limits inside the reader), each
    # followed by more fields so that a short read shows up as a framing error too
    big = sorted({(1 << k) + d for k in range(12, 23) for d in (-1, 0, 1, 17)} | {3 * (1 << 20) + 17})
    for i, ln in enumerate(big):
        if not ctx.mine(i):
            continue
        body = rng.randbytes(ln)
        for t in ("string", "text"):
            v = body if t == "string" else body.decode("latin-1").encode("latin-1").decode("latin-1")
            fields = [("u32", 7), (t, v), ("mpint", -(1 << 31)), ("string", b"tail"), ("bool", True)]
            ctx.case(("bigstr", t, ln), nontrivial=True)
            ctx.count("long_string_fields_checked")
            check_sequence(ctx, fields)
    ctx.require("long_string_fields_checked", 4)
    ctx.require("mpint_encodings_compared", 1000)
    ctx.require("fields_read_back", 1000)
