"""C12 — unknown message types get UNIMPLEMENTED carrying that packet's sequence
number and the session continues; UNIMPLEMENTED itself is never answered."""
import struct
import time

from vf import attacker, core

META = dict(
    title="unknown message types get UNIMPLEMENTED; session continues",
    level="exploration",
    design_ref="§3 C12",
    technique="scripted attacker (authenticated, both roles) + victim WireTap: reply type/seqno oracle and liveness probe",
    text="An authenticated hostile peer (a real Transport taken over after a genuine handshake) sends every "
         "message type 0..255 that has no handler in the victim's live dispatch tables, with empty, random and "
         "valid-looking payloads. From the victim's own wire tap the monitor requires exactly one "
         "SSH_MSG_UNIMPLEMENTED whose uint32 equals the sequence number the victim's packetizer assigned to the "
         "offending packet, none at all for type 3, and then a global request that the victim must still answer. "
         "Holds for the executions produced (every type, three payload classes, two roles), not for all payloads.",
    note="The set of unhandled types is computed from the victim's live _handler_table, _channel_handler_table, "
         "auth_handler._handler_table, _expected_packet and the run loop's special cases 1/2/4; if Transport.run grew a "
         "new special case the oracle would need the same. The attacker is paramiko too, but verdicts only use the "
         "victim's tap and API state.",
    rule="case = (victim role, message type, payload class, payload bytes); distinct = hash of those; "
         "non-trivial = the type has no handler in the victim's tables at the time of sending",
    assumptions=["packets of <= 32 KiB payload are legal input for the packet layer",
                 "the victim processes inbound packets sequentially, so the probe's reply orders after the reply under test"],
)

MSG_UNIMPLEMENTED = 3
PAYLOAD_KINDS = ("empty", "random", "valid")
PAYLOAD_SIZES = (0, 1, 255, 4096, 32768, 34999, 35000, 35001, 40000, 65536, 102400, 262144)


def shards(tier):
    return 8 if tier == "quick" else 16


TIMEOUT = {"quick": 240, "thorough": 1500}


def handled_now(v):
    """Types the victim's run loop would dispatch (or special-case) right now."""
    h = {1, 2, 4}
    h |= set(v._handler_table)
    h |= set(v._channel_handler_table)
    ah = v.auth_handler
    if ah is not None:
        h |= set(ah._handler_table)
    if len(v._expected_packet) > 0:
        h |= set(range(30, 42)) | set(v._expected_packet)
    return h


def reference_unhandled(vrole, auth_handler_present):
    """Independent role/state specification of what a transport handles (RFC 4253/4252/4254 roles; triaged
    against the unchanged tree): both roles act on 1,2,4 (special-cased), EXT_INFO 7, KEXINIT 20, NEWKEYS 21 and the
    connection-layer types 80-82, 90-100; only a server acts on SERVICE_REQUEST 5, USERAUTH_REQUEST 50 and
    INFO_RESPONSE 61; only a client that has started authenticating acts on SERVICE_ACCEPT 6, USERAUTH_FAILURE/
    SUCCESS/BANNER 51-53 and PK_OK/INFO_REQUEST 60.  Everything else is unhandled in that role and state.  The
    victim's live tables are *not* the reference: a tree whose tables hand a role the other role's handlers would
    otherwise define its own defect away."""
    common = {1, 2, 4, 7, 20, 21, 80, 81, 82, 90, 91, 92} | set(range(93, 101))
    if not auth_handler_present:
        mine = set()
    elif vrole == "server":
        mine = {5, 50, 61}
    else:
        mine = {6, 51, 52, 53, 60}
    return set(range(256)) - common - mine


def judged_unhandled(ctx, v, vrole, ptype):
    """True when the type must be treated as unhandled: by the live tables, or by the reference although the live
    tables claim a handler (counted)."""
    live = ptype not in handled_now(v)
    ref = ptype in reference_unhandled(vrole, v.auth_handler is not None)
    if ref and not live and len(v._expected_packet) == 0:
        ctx.count("live_tables_claim_a_handler_the_role_should_not_have")
        return True
    if live and not ref:
        ctx.count("live_tables_lack_a_handler_of_the_reference")
    return live


def s(x):
    if isinstance(x, str):
        x = x.encode()
    return struct.pack(">I", len(x)) + x


def valid_looking(rng, ptype):
    """A payload shaped like what a message of that number (or a neighbour) carries."""
    u32 = lambda n: struct.pack(">I", n & 0xFFFFFFFF)
    if ptype == 3:
        return u32(rng.randrange(0, 50))
    if ptype in (5, 6):
        return s(rng.choice(["ssh-userauth", "ssh-connection"]))
    if 30 <= ptype <= 49:
        n = rng.getrandbits(rng.choice([255, 256, 2047]))
        b = n.to_bytes(n.bit_length() // 8 + 1, "big")
        return rng.choice([s(b), s(b) + s(b"ssh-ed25519") + s(bytes(64)), u32(1024) + u32(2048) + u32(8192)])
    if ptype == 50:
        return s("u") + s("ssh-connection") + s("password") + b"\x00" + s("pw")
    if ptype == 51:
        return s("publickey,password") + b"\x00"
    if ptype in (52, 53):
        return rng.choice([b"", s("banner text\n") + s("en")])
    if 54 <= ptype <= 79:
        return rng.choice([s("ssh-ed25519") + s(bytes(51)), u32(1) + s("response"), s(bytes(rng.randint(1, 40)))])
    if 80 <= ptype <= 127:
        return rng.choice([u32(rng.randrange(4)) + s("exec") + b"\x01" + s("id"),
                           u32(rng.randrange(4)) + u32(32768), s("session") + u32(0) + u32(1 << 21) + u32(32768)])
    return rng.choice([s("vendor-extension@example.com") + u32(rng.getrandbits(32)),
                       u32(rng.getrandbits(32)) + b"\x01" + s(bytes(rng.getrandbits(8) for _ in range(rng.randint(0, 64))))])


def make_payload(rng, ptype, kind, big):
    if kind == "empty":
        return b""
    if kind == "random":
        n = rng.choice([1, 2, 3, 4, 5, rng.randint(1, 64), rng.randint(1, 1024)])
        if big:
            n = rng.choice([n, rng.randint(1024, 32000), 32000])
        return rng.randbytes(n)
    return valid_looking(rng, ptype)


CIPHER_FAMILIES = {
    "ctr": ["aes128-ctr", "aes192-ctr", "aes256-ctr"],
    "cbc": ["aes128-cbc", "aes256-cbc", "3des-cbc"],
    "gcm": ["aes128-gcm@openssh.com", "aes256-gcm@openssh.com"],
}


def negotiated_strict(rec, role):
    """Strict kex as negotiated on the wire: both first KEXINITs carry the other side's marker."""
    def kexlist(side):
        for e in rec.snapshot():
            if e.get("kind") == "msg" and e["side"] == side and e["dir"] == "out" and e["type"] == 20:
                p = e["payload"]
                n = int.from_bytes(p[17:21], "big")
                return p[21:21 + n].split(b",")
        return []

    a, v = kexlist("a"), kexlist("v")
    cl, sv = (a, v) if role == "client" else (v, a)
    return b"kex-strict-c-v00@openssh.com" in cl and b"kex-strict-s-v00@openssh.com" in sv


def sender_seq(rec, ev_n, strict):
    """Sequence number of the attacker's packet recorded as event `ev_n`, counted independently of any
    packetizer counter: packets the attacker put on the wire, restarting after each of its NEWKEYS when
    strict kex was negotiated (RFC 4253 6.4 + OpenSSH strict-kex extension)."""
    c = 0
    for e in rec.snapshot():
        if e.get("kind") == "msg" and e["side"] == "a" and e["dir"] == "out":
            if e["n"] == ev_n:
                return c
            c = 0 if (strict and e["type"] == 21) else (c + 1) & 0xFFFFFFFF
    return None


class Session:
    """One attacker<->victim connection, reused until the victim dies."""

    def __init__(self, ctx, role, family=None, strict=True, auth=True):
        self.role = role
        self.cell = None
        kw = {}
        if family is not None:
            import paramiko

            allowed = [ctx.rng.choice(CIPHER_FAMILIES[family])]
            kw = dict(disabled_algorithms=dict(ciphers=[c for c in paramiko.Transport._preferred_ciphers if c not in allowed]),
                      strict_kex=strict)
        self.att = attacker.Attacker(role, rng=ctx.rng, victim_kw=dict(kw), attacker_kw=dict(kw))
        ok = self.att.start(auth=auth, timeout=60)
        self.ok = ok
        if ok:
            self.att.takeover()
        self.dead = not ok

    def usable(self):
        v = self.att.victim
        return (not self.dead) and v.is_active() and self.att.att.is_active() and not v.in_kex

    def close(self):
        self.att.close()


def wait_probe(att, start, limit=40.0):
    """Send the liveness probe; wait for its answer or for the victim to end.
    Returns 'alive' | 'dead' | 'timeout'."""
    v = att.victim
    try:
        att.send(80, "vf-probe@verif", True)
    except Exception:
        pass  # link already closed by the victim: decided below from the victim's state
    end = time.monotonic() + limit
    while time.monotonic() < end:
        r = att.wait_inbox(lambda e: e["type"] in (81, 82), 0.05, start)
        if r is not None:
            return "alive" if v.is_active() else "dead"
        if not v.is_active():
            return "dead"
    return "timeout"


def run_case(ctx, sess, ptype, kind, payload, named, interleave=True):
    att = sess.att
    v = att.victim
    # IGNORE messages are never answered: they desynchronise the victim's inbound and outbound
    # sequence counters so a reply quoting the wrong counter cannot match by coincidence
    if interleave and ctx.rng.random() < 0.4:
        try:
            for _ in range(ctx.rng.randint(1, 3)):
                att.send(2, ctx.rng.randbytes(ctx.rng.randint(0, 12)))
                ctx.count("ignore_messages_interleaved")
        except Exception:
            pass
    mark = att.mark()
    istart = att.inbox_mark()
    desc = dict(role="victim=" + ("server" if sess.role == "client" else "client"), type=ptype, kind=kind,
                payload=payload, has_debug_name=named)
    try:
        sent_seq = att.send_msg(attacker.build(ptype, ("raw", payload)))
    except Exception as e:
        ctx.inconclusive("attacker could not send type %d: %r" % (ptype, e))
        sess.dead = True
        return
    state = wait_probe(att, istart)
    if state == "timeout":
        ctx.inconclusive("no probe answer and victim still active after 40 s (type %d)" % ptype)
        sess.dead = True
        return
    vin = [e for e in att.victim_msgs("in", since=mark) if e["type"] == ptype]
    vout = att.victim_msgs("out", since=mark)
    ctx.count("victim_inbound_seen", len(vin))
    if not vin:
        errs = [e for e in att.rec.snapshot() if e.get("kind") == "readerr" and e["side"] == "v" and e["n"] >= mark]
        if errs and len(payload) > 32768:
            # The statement quantifies over arbitrary payloads and the unchanged packet layer takes any length, so
            # this is judged; it gets its own signature because RFC 4253 6.1 only obliges implementations to take
            # 32768-byte payloads / 35000-byte packets (a deliberate cap would be listed as known under it).
            ctx.count("oversize_packet_refused_by_packet_layer")
            ctx.violation("unknown-type packet with a payload above 32768 bytes ends the session in the packet layer (%s)"
                          % errs[0]["exc"],
                          "the victim could not read a %d-byte packet of an unhandled type; no UNIMPLEMENTED, session ended"
                          % len(payload), dict(case=dict(desc, payload=payload[:32], payload_len=len(payload)), readerr=errs[0]))
        elif errs:
            ctx.violation("victim packet layer rejected a legal packet of unknown type (%s)" % errs[0]["exc"],
                          "the victim could not read the packet carrying the unknown type; session ended",
                          dict(case=desc, readerr=errs[0]))
        else:
            ctx.inconclusive("victim never read the crafted packet (type %d)" % ptype)
        sess.dead = True
        return
    # the reference is the number of that packet *as counted by the sender*, computed from the order of the
    # attacker's packets on the wire (not from either side's packetizer counter)
    mine_out = [e for e in att.rec.snapshot() if e.get("kind") == "msg" and e["side"] == "a" and e["dir"] == "out"
                and e["n"] >= mark and e["type"] == ptype and e["payload"] == bytes([ptype]) + payload]
    seq_in = sender_seq(att.rec, mine_out[0]["n"], negotiated_strict(att.rec, sess.role)) if mine_out else None
    base = getattr(sess, "seq_base", None)
    if base is not None and mine_out:
        # the harness moved both packet counters to `preset` at event n0: count the attacker's packets from there
        n0, preset = base
        k = len([e for e in att.rec.snapshot() if e.get("kind") == "msg" and e["side"] == "a" and e["dir"] == "out"
                 and n0 <= e["n"] < mine_out[0]["n"]])
        seq_in = (preset + k) & 0xFFFFFFFF
        if getattr(sess, "seq_target", None) is not None:
            if seq_in != sess.seq_target:
                ctx.inconclusive("sequence preset missed its target (%#x instead of %#x)" % (seq_in, sess.seq_target))
                sess.dead = True
                return
            ctx.count("seqno_boundary_%#010x_cases" % seq_in)
    if seq_in is None:
        ctx.inconclusive("could not locate the crafted packet in the attacker's tap")
        sess.dead = True
        return
    if vin[0]["seq"] != seq_in:
        ctx.count("victim_inbound_counter_differs_from_sender_count")
    # replies: everything the victim sent after reading the packet, minus the one answer to the probe
    replies = [e for e in vout if e["n"] > vin[0]["n"]]
    probe_answers = [e for e in replies if e["type"] in (81, 82)]
    others = [e for e in replies if e["type"] not in (81, 82)]
    unimpl = [e for e in others if e["type"] == MSG_UNIMPLEMENTED]
    ctx.count("unimplemented_replies_seen", len(unimpl))
    excerpt = [dict(type=e["type"], payload=e["payload"][:16], seq=e["seq"]) for e in replies[:6]]
    wit = dict(case=desc, victim_in_seq=seq_in, victim_replies=excerpt, victim_active=v.is_active(),
               saved_exception=repr(v.saved_exception))
    died = state == "dead"
    if died:
        ctx.count("victim_transport_deaths")
        exc = v.saved_exception
        sig = core.exc_signature(exc) if exc is not None else "no exception recorded"
        if ptype == MSG_UNIMPLEMENTED:
            ctx.violation("UNIMPLEMENTED received: transport ended (%s)" % sig,
                          "the session did not survive an inbound SSH_MSG_UNIMPLEMENTED", wit)
        else:
            ctx.violation("unhandled message type ends the transport: %s (type %s a debug name in MSG_NAMES)"
                          % (sig, "has" if named else "without"),
                          "type %d has no handler; instead of UNIMPLEMENTED + continuing, the transport thread ended with %r"
                          % (ptype, exc), wit)
        sess.dead = True
        return
    ctx.count("probes_answered")
    if ptype == MSG_UNIMPLEMENTED:
        ctx.count("unimplemented_sent_to_victim")
        if others:
            ctx.violation("UNIMPLEMENTED was answered with message type %d" % others[0]["type"],
                          "an inbound SSH_MSG_UNIMPLEMENTED must never be answered", wit)
        return
    if not unimpl:
        ctx.violation("no UNIMPLEMENTED reply to an unhandled type" + (" (answered with type %d)" % others[0]["type"] if others else ""),
                      "type %d has no handler but the victim did not send SSH_MSG_UNIMPLEMENTED" % ptype, wit)
        return
    if len(unimpl) != 1 or len(others) != 1:
        ctx.violation("more than one reply to an unhandled type (types %s)" % sorted(set(e["type"] for e in others)),
                      "exactly one UNIMPLEMENTED is expected for one unhandled packet", wit)
        return
    body = unimpl[0]["payload"]
    ctx.count("reply_seqno_compared")
    if getattr(sess, "seq_target", None) is not None:
        ctx.count("seqno_boundary_%#010x_compared" % seq_in)
    if sess.cell:
        ctx.count("cell_%s_seq_compared" % sess.cell)
    if len(body) != 5 or struct.unpack(">I", body[1:5])[0] != seq_in:
        got = struct.unpack(">I", body[1:5])[0] if len(body) >= 5 else None
        rel = "malformed" if got is None else ("its own outbound counter" if got == unimpl[0]["seq"] else "off by %d" % (got - seq_in))
        ctx.violation("UNIMPLEMENTED carries the wrong sequence number",
                      "reply names packet %r (%s), the rejected packet was number %d" % (got, rel, seq_in), wit)
        return
    if probe_answers and probe_answers[0]["n"] < unimpl[0]["n"]:
        ctx.violation("UNIMPLEMENTED sent after later traffic was answered",
                      "the reply to the unknown packet was sent after the reply to a later request", wit)
        return
    ctx.count("unimplemented_ok")


# ---------------------------------------------------------------------------
# stratum: unknown types processed while the victim's own re-key KEXINIT is out and the peer's has not arrived

def tolerant_tap(rec):
    """Attacker-side packetizer that can swallow UNIMPLEMENTED (the replies under test) while the attacker
    tool is itself inside the key exchange and would otherwise abort on an unexpected packet type."""
    from vf import tap as _tap

    base = _tap.make_tap(rec, "a")

    class Tolerant(base):
        swallow = False
        swallowed = 0

        def read_message(self):
            while True:
                ptype, m = super().read_message()
                if ptype == MSG_UNIMPLEMENTED and self.swallow:
                    self.swallowed += 1
                    continue
                return ptype, m

    return Tolerant


def wait_until(cond, limit):
    end = time.monotonic() + limit
    while time.monotonic() < end:
        if cond():
            return True
        time.sleep(0.003)
    return bool(cond())


def run_rekey_session(ctx, role, trigger):
    import threading

    from vf import tap as _tap

    rng = ctx.rng
    rec = _tap.Recorder()
    att = None
    for attempt in range(3):
        att = attacker.Attacker(role, rng=rng, recorder=rec, attacker_kw=dict(packetizer_class=tolerant_tap(rec)))
        if att.start(auth=True, timeout=60):
            break
        att.close()
        att = None
        rec = _tap.Recorder()
    if att is None:
        ctx.inconclusive("re-key stratum: handshake failed three times")
        return
    try:
        att.takeover()
        v = att.victim
        vrole = "server" if role == "client" else "client"
        gate = att.link.ba if role == "client" else att.link.ab  # victim -> attacker
        desc = dict(stratum="pending re-key", victim_role=vrole, trigger=trigger)
        gate.hold()
        mark = att.mark()
        th = None
        if trigger == "api":
            th = threading.Thread(target=lambda: v.renegotiate_keys(), daemon=True)
            th.start()
        else:
            v.packetizer.REKEY_PACKETS = 1  # instance attribute: the next packet read crosses the threshold
            att.send(2, b"")
        if not wait_until(lambda: att.victim_msgs("out", types=(20,), since=mark), 60):
            ctx.inconclusive("re-key stratum: victim did not send KEXINIT (%s)" % trigger)
            return
        if trigger != "api":
            del v.packetizer.REKEY_PACKETS
        ctx.count("rekey_trigger_" + trigger)
        kex_n = att.victim_msgs("out", types=(20,), since=mark)[0]["n"]
        att.att.packetizer.swallow = True
        cand = sorted(t for t in range(1, 20) if t not in handled_now(v))
        if len(v._expected_packet) > 0 or not v.in_kex:
            ctx.inconclusive("re-key stratum: victim not in the expected state (in_kex=%s expected=%r)" % (v.in_kex, v._expected_packet))
            return
        chosen = rng.sample(cand, min(len(cand), rng.randint(4, 8)))
        if MSG_UNIMPLEMENTED not in chosen and rng.random() < 0.5:
            chosen.append(MSG_UNIMPLEMENTED)
        sent = []
        for ptype in chosen:
            if rng.random() < 0.3:
                att.send(2, rng.randbytes(rng.randint(0, 8)))
            kind = rng.choice(PAYLOAD_KINDS)
            payload = make_payload(rng, ptype, kind, False)
            seq = att.send_msg(attacker.build(ptype, ("raw", payload)))
            sent.append((ptype, kind, payload, seq))
        fseq = att.send(2, b"")
        if not wait_until(lambda: any(e["seq"] == fseq for e in att.victim_msgs("in", types=(2,), since=mark))
                          or not v.is_active(), 60):
            ctx.inconclusive("re-key stratum: victim did not read the fence")
            return
        peer_kex_in = [e for e in att.victim_msgs("in", types=(20,), since=mark)]
        if peer_kex_in:
            ctx.inconclusive("re-key stratum: peer KEXINIT reached the victim although the gate was held")
            return
        vin = {e["seq"]: e for e in att.victim_msgs("in", since=mark)}
        vout = att.victim_msgs("out", since=kex_n)
        unimpl = [e for e in vout if e["type"] == MSG_UNIMPLEMENTED]
        for (ptype, kind, payload, seq) in sent:
            ctx.case(("c12-rekey", role, trigger, ptype, kind, payload),
                     sample=dict(desc, type=ptype, payload_kind=kind, payload=payload[:24]) if ptype == chosen[0] and trigger == "api" else None)
            ctx.count("rekey_window_cases")
            e = vin.get(seq)
            if e is None or e["type"] != ptype or e["n"] < kex_n:
                ctx.inconclusive("re-key stratum: victim did not read crafted type %d inside the window" % ptype)
                continue
            mine = [u for u in unimpl if len(u["payload"]) == 5 and struct.unpack(">I", u["payload"][1:5])[0] == seq]
            wit = dict(case=dict(desc, type=ptype, payload=payload, kind=kind), victim_in_seq=seq,
                       victim_sent_after_own_kexinit=[dict(type=o["type"], payload=o["payload"][:12]) for o in vout[:12]],
                       victim_active=v.is_active(), saved_exception=repr(v.saved_exception))
            if ptype == MSG_UNIMPLEMENTED:
                ctx.count("rekey_window_unimplemented_sent_to_victim")
                if mine:
                    ctx.violation("UNIMPLEMENTED was answered with message type 3 during a pending re-key",
                                  "an inbound SSH_MSG_UNIMPLEMENTED must never be answered", wit)
                continue
            if len(mine) == 1:
                ctx.count("rekey_window_unimplemented_ok")
            elif not mine:
                ctx.violation("no UNIMPLEMENTED reply to an unhandled type while own re-key KEXINIT is pending",
                              "type %d (allowed during key exchange) was read after the victim sent KEXINIT and before the "
                              "peer's KEXINIT arrived; no SSH_MSG_UNIMPLEMENTED with its sequence number was sent" % ptype, wit)
            else:
                ctx.violation("more than one UNIMPLEMENTED for one packet during a pending re-key",
                              "exactly one reply is expected", wit)
        n_expected = len([1 for (t, _, _, _) in sent if t != MSG_UNIMPLEMENTED])
        if len(unimpl) > n_expected:
            ctx.violation("UNIMPLEMENTED sent for a packet that was not unhandled during a pending re-key",
                          "the victim sent more UNIMPLEMENTED messages than unhandled packets were read",
                          dict(case=desc, sent=[(t, q) for (t, _, _, q) in sent],
                               unimplemented=[u["payload"] for u in unimpl]))
        # let the exchange complete and check that the session survived
        gate.release()
        done = wait_until(lambda: (not v.in_kex and not att.att.in_kex and (th is None or not th.is_alive())
                                   and len(att.victim_msgs("in", types=(21,), since=mark)) > 0) or not v.is_active()
                          or not att.att.is_active(), 90)
        if not v.is_active():
            exc = v.saved_exception
            ctx.violation("session ended during the re-key that followed unhandled messages: %s"
                          % (core.exc_signature(exc) if exc is not None else "no exception recorded"),
                          "the session did not keep working", dict(case=desc, exception=repr(exc)))
            return
        if not done or not att.att.is_active():
            ctx.inconclusive("re-key stratum: exchange did not complete (attacker active=%s, exc=%r)"
                             % (att.att.is_active(), att.att.saved_exception))
            return
        ctx.count("rekeys_completed")
        att.att.packetizer.swallow = False
        state = wait_probe(att, att.inbox_mark())
        if state == "alive":
            ctx.count("rekey_probes_answered")
        elif state == "dead":
            ctx.violation("session ended after the re-key that followed unhandled messages",
                          "liveness probe after the completed exchange was not answered", dict(case=desc))
        else:
            ctx.inconclusive("re-key stratum: probe timeout")
    finally:
        att.close()


def run_cipher_cells(ctx):
    """cipher family x {strict, non-strict} x {before, after a re-key} x victim role: the UNIMPLEMENTED reply must
    quote the sender-side packet count in every cell."""
    import threading

    cells = [(role, fam, strict, phase) for role in ("client", "server") for fam in ("ctr", "cbc", "gcm")
             for strict in (True, False) for phase in ("before", "after")]
    reps = ctx.pick(1, 4)
    for rep in range(reps):
        for i, (role, fam, strict, phase) in enumerate(cells):
            if not ctx.mine(i + rep):
                continue
            if time.time() > ctx.deadline(200, 1300):
                ctx.count("cases_not_run_time_cap")
                return
            label = "%s_%s_%s_rekey" % (fam, "strict" if strict else "nonstrict", phase)
            sess = None
            for attempt in range(3):
                cand = Session(ctx, role, family=fam, strict=strict)
                if cand.ok:
                    sess = cand
                    break
                cand.close()
            if sess is None:
                ctx.inconclusive("cipher cell %s: handshake failed three times" % label)
                continue
            try:
                v = sess.att.victim
                if v.remote_cipher not in CIPHER_FAMILIES[fam] or v.local_cipher not in CIPHER_FAMILIES[fam] \
                        or negotiated_strict(sess.att.rec, role) != strict:
                    ctx.inconclusive("cipher cell %s: negotiated %s/%s strict=%s" % (label, v.local_cipher, v.remote_cipher,
                                                                                 negotiated_strict(sess.att.rec, role)))
                    continue
                if phase == "after":
                    for k in range(ctx.rng.choice([1, 1, 2])):
                        th = threading.Thread(target=lambda: v.renegotiate_keys(), daemon=True)
                        before = len(sess.att.victim_msgs("in", types=(21,)))
                        th.start()
                        th.join(90)
                        if th.is_alive() or not wait_until(lambda: not v.in_kex and not sess.att.att.in_kex
                                                           and len(sess.att.victim_msgs("in", types=(21,))) > before, 60):
                            break
                    if v.in_kex or not v.is_active() or len(sess.att.victim_msgs("in", types=(21,))) < 2:
                        ctx.inconclusive("cipher cell %s: re-key did not complete (victim active=%s exc=%r)"
                                         % (label, v.is_active(), v.saved_exception))
                        continue
                    ctx.count("cell_rekeys_completed")
                sess.cell = label
                cand_types = sorted(t for t in range(256) if t not in handled_now(v))
                import paramiko.common as pc

                named = [t for t in cand_types if t in pc.MSG_NAMES]
                chosen = ctx.rng.sample(named, 3) + ctx.rng.sample(cand_types, ctx.pick(3, 5))
                for ptype in chosen:
                    if not sess.usable():
                        break
                    kind = ctx.rng.choice(PAYLOAD_KINDS)
                    payload = make_payload(ctx.rng, ptype, kind, False)
                    ctx.case(("c12-cell", role, label, ptype, kind, payload),
                             sample=dict(stratum="cipher cell", cell=label, cipher=v.local_cipher,
                                         victim_role="server" if role == "client" else "client", type=ptype,
                                         payload_kind=kind) if ptype == chosen[0] and fam == "gcm" and phase == "after" else None)
                    ctx.count("cell_cases")
                    run_case(ctx, sess, ptype, kind, payload, ptype in pc.MSG_NAMES)
            except Exception:
                import traceback

                ctx.inconclusive("harness error in cipher cell %s: %s" % (label, traceback.format_exc()[-600:]))
            finally:
                sess.close()


def apply_debug_config(v, cfg, tag):
    """Receiver-side debug configuration on the victim (public API only)."""
    import logging

    if cfg in ("hexdump", "hexdump_logchannel_debug"):
        v.set_hexdump(True)
    if cfg in ("logchannel_debug", "hexdump_logchannel_debug"):
        name = "vf.c12.victim." + tag
        lg = logging.getLogger(name)
        lg.setLevel(logging.DEBUG)
        lg.propagate = False

        class Fmt(logging.Handler):
            n = 0

            def emit(self, record):
                Fmt.n += 1
                self.format(record)  # really render every record, as a file/stream handler would

        h = Fmt()
        h.setFormatter(logging.Formatter("%(levelname)s %(name)s %(message)s"))
        lg.addHandler(h)
        v.set_log_channel(name)
        return Fmt
    return None


def rekey_now(sess, times=1):
    """Complete `times` re-keys started by the victim. True when done and both sides are out of the exchange."""
    import threading

    v = sess.att.victim
    for k in range(times):
        th = threading.Thread(target=lambda: v.renegotiate_keys(), daemon=True)
        before = len(sess.att.victim_msgs("in", types=(21,)))
        th.start()
        th.join(90)
        if th.is_alive() or not wait_until(lambda: not v.in_kex and not sess.att.att.in_kex
                                           and len(sess.att.victim_msgs("in", types=(21,))) > before, 60):
            return False
    return v.is_active() and not v.in_kex


def run_type_sweep(ctx, label, role, types, setup=None, after_rekey=False, family=None, auth=True, sizes=None):
    """One session per (label, role); every given type that is unhandled gets one case."""
    import paramiko.common as pc

    sess = None
    done = 0
    for ptype in types:
        if time.time() > ctx.deadline(220, 1350):
            ctx.count("cases_not_run_time_cap")
            break
        if sess is None or not sess.usable():
            if sess is not None:
                sess.close()
            sess = None
            for attempt in range(3):
                cand = Session(ctx, role, family=family, auth=auth)
                if cand.ok:
                    sess = cand
                    break
                cand.close()
            if sess is None:
                ctx.inconclusive("%s: handshake failed three times" % label)
                return
            if setup is not None:
                setup(sess)
            if after_rekey:
                if not rekey_now(sess, ctx.rng.choice([1, 1, 2])):
                    ctx.inconclusive("%s: re-key did not complete" % label)
                    sess.close()
                    return
                ctx.count("%s_rekeys_completed" % label)
                if sess.att.victim.kex_engine is not None:
                    ctx.count("%s_kex_engine_still_set" % label)
            sess.cell = label
        v = sess.att.victim
        if v.in_kex or len(v._expected_packet) > 0:
            ctx.inconclusive("%s: victim unexpectedly inside a key exchange" % label)
            break
        size = None
        if isinstance(ptype, tuple):
            ptype, size = ptype
        if not judged_unhandled(ctx, v, "server" if role == "client" else "client", ptype):
            continue
        if size is not None:
            kind = "size:%d" % size
            payload = ctx.rng.randbytes(size)
            ctx.count("payload_size_%d_cases" % size)
        else:
            kind = ctx.rng.choice(PAYLOAD_KINDS)
            payload = make_payload(ctx.rng, ptype, kind, False)
        ctx.case(("c12-sweep", label, role, ptype, kind, payload),
                 sample=dict(stratum=label, victim_role="server" if role == "client" else "client", type=ptype,
                             payload_kind=kind) if done == 0 and role == "client" else None)
        done += 1
        ctx.count("%s_cases" % label)
        try:
            run_case(ctx, sess, ptype, kind, payload, ptype in pc.MSG_NAMES)
        except Exception:
            import traceback

            ctx.inconclusive("harness error in %s: %s" % (label, traceback.format_exc()[-500:]))
            sess.dead = True
    if sess is not None:
        sess.close()


def run_debug_and_kexrange(ctx):
    jobs = []
    for role in ("client", "server"):
        for ci, cfg in enumerate(("hexdump", "logchannel_debug", "hexdump_logchannel_debug")):
            # quick: every type under one of the three configurations (rotated by seed); thorough: under all three
            types = [t for t in range(256) if not ctx.quick or ((t + ctx.seed) % 3 == ci
                                                                and ((t // 3) % 2 == 0) == (role == "client"))]
            jobs.append(("debugcfg_" + cfg, role, types, cfg, False))
        for phase in ("before", "after"):
            jobs.append(("kexrange_%s_rekey" % phase, role, list(range(30, 50)), None, phase == "after"))
    extra = []
    for role in ("client", "server"):
        vrole = "server" if role == "client" else "client"
        # type x recipient role x auth state, types 1..100 (both states; unauthenticated = key exchange done, no
        # authentication started/finished)
        for authed in (True, False):
            extra.append(("rolematrix_%s_%s" % (vrole, "authed" if authed else "unauth"), role, list(range(1, 101)), authed))
        # payload size as a dimension (everything the packet layer accepts)
        sized = []
        for size in PAYLOAD_SIZES:
            for t in ctx.rng.sample([0, 6 if vrole == "server" else 5, 8, 30, 49, 62, 89, 101, 192, 255], ctx.pick(2, 4)) + [3]:
                sized.append((t, size))
        extra.append(("payloadsize_%s" % vrole, role, sized, True))
    for k, (label, role, types, authed) in enumerate(extra):
        if not ctx.mine(k + 3):
            continue
        run_type_sweep(ctx, label, role, types, auth=authed)
    for j, (label, role, types, cfg, after) in enumerate(jobs):
        # big sweeps are split over shards by type, small ones go to one shard each
        if len(types) > 50:
            mine = [t for t in types if ctx.mine(t + j)]
        else:
            mine = types if ctx.mine(j) else []
        if not mine:
            continue
        fmt = {}

        def setup(sess, _cfg=cfg, _label=label, _role=role):
            if _cfg:
                fmt["h"] = apply_debug_config(sess.att.victim, _cfg, "%s.%s.%d" % (_label, _role, ctx.shard))
                if sess.att.victim.get_hexdump() != ("hexdump" in _cfg):
                    ctx.inconclusive("%s: hexdump setting not applied" % _label)

        run_type_sweep(ctx, label, role, mine, setup=setup if cfg else None, after_rekey=after)
        if fmt.get("h") is not None:
            ctx.count("debug_log_records_rendered", fmt["h"].n)


SEQ_BOUNDARIES = (0xFFFF, 0x7FFFFFFF, 0x80000000, 0xFEFFFFFF, 0xFF000000, 0xFF000001, 0xFFFFFFFE, 0xFFFFFFFF, 0, 1)


def preset_counters(ctx, sess, value):
    """On a quiescent connection move the attacker's outbound and the victim's inbound packet counter together
    (what a long-lived connection reaches by itself). Both ends stay consistent, so MACs keep verifying."""
    att = sess.att
    if wait_probe(att, att.inbox_mark()) != "alive":
        return False
    v = att.victim
    if v.in_kex or att.att.in_kex:
        return False
    n0 = att.mark()
    att.att.packetizer._Packetizer__sequence_number_out = value & 0xFFFFFFFF
    v.packetizer._Packetizer__sequence_number_in = value & 0xFFFFFFFF
    sess.seq_base = (n0, value & 0xFFFFFFFF)
    return True


def run_seqno_boundaries(ctx):
    """Sequence numbers across the uint32 range (and across the wrap) in the UNIMPLEMENTED reply."""
    import paramiko.common as pc

    cells = [(role, fam, strict) for role in ("client", "server") for fam in ("ctr", "gcm", "cbc")
             for strict in (False, True) if not (fam == "cbc" and strict)]
    for i, (role, fam, strict) in enumerate(cells):
        if not ctx.mine(i + 5):
            continue
        if time.time() > ctx.deadline(230, 1380):
            ctx.count("cases_not_run_time_cap")
            return
        sess = None
        for attempt in range(3):
            cand = Session(ctx, role, family=fam, strict=strict)
            if cand.ok:
                sess = cand
                break
            cand.close()
        if sess is None:
            ctx.inconclusive("seqno stratum: handshake failed three times")
            continue
        try:
            v = sess.att.victim
            sess.cell = "seqno_%s_%s" % (fam, "strict" if strict else "nonstrict")
            for target in SEQ_BOUNDARIES:
                for rep in range(ctx.pick(1, 3)):
                    if not sess.usable():
                        break
                    pad = ctx.rng.randint(0, 3)
                    if not preset_counters(ctx, sess, (target - pad) & 0xFFFFFFFF):
                        ctx.inconclusive("seqno stratum: connection not quiescent/alive before the preset")
                        sess.dead = True
                        break
                    for _ in range(pad):
                        sess.att.send(2, ctx.rng.randbytes(ctx.rng.randint(0, 6)))
                    sess.seq_target = target
                    cand_types = sorted(t for t in range(256) if judged_unhandled(ctx, v, "server" if role == "client" else "client", t)
                                        and t != MSG_UNIMPLEMENTED)
                    ptype = ctx.rng.choice(cand_types)
                    kind = ctx.rng.choice(PAYLOAD_KINDS)
                    payload = make_payload(ctx.rng, ptype, kind, False)
                    ctx.case(("c12-seqno", role, fam, strict, target, ptype, kind, payload),
                             sample=dict(stratum="sequence number boundary", seqno="%#010x" % target, cipher=v.local_cipher,
                                         strict_kex=strict, type=ptype) if target == 0xFF000000 and role == "client" else None)
                    run_case(ctx, sess, ptype, kind, payload, ptype in pc.MSG_NAMES, interleave=False)
                    sess.seq_target = None
        except Exception:
            import traceback

            ctx.inconclusive("harness error in seqno stratum: " + traceback.format_exc()[-600:])
        finally:
            sess.close()


def run_rekey_stratum(ctx):
    n = ctx.pick(1, 4)
    for rep in range(n):
        for role in ("client", "server"):
            for trigger in ("api", "threshold"):
                if time.time() > ctx.deadline(200, 1300):
                    ctx.count("cases_not_run_time_cap")
                    return
                try:
                    run_rekey_session(ctx, role, trigger)
                except Exception:
                    import traceback

                    ctx.inconclusive("harness error in re-key stratum: " + traceback.format_exc()[-700:])


def run(ctx):
    rng = ctx.rng
    import paramiko.common as pc

    names = set(pc.MSG_NAMES)
    # enumerated part: every type x role x payload class (quick: one class per type, rotated by seed,
    # plus all three classes for the types that have a debug name)
    plan = []
    for role in ("client", "server"):
        for ptype in range(256):
            for ki, kind in enumerate(PAYLOAD_KINDS):
                if ctx.quick and ptype not in names and (ptype + ctx.seed) % 3 != ki:
                    continue
                plan.append((role, ptype, kind, False))
    if not ctx.quick:
        for role in ("client", "server"):
            for ptype in range(256):
                plan.append((role, ptype, "random", True))
                plan.append((role, ptype, "valid", False))
    mine = [c for i, c in enumerate(plan) if ctx.mine(i)]
    rng.shuffle(mine)
    mine.sort(key=lambda c: c[0])  # one role after the other so sessions are reused
    deadline = ctx.deadline(150, 1200)
    sessions = {}
    n_sessions = 0
    samples = 0
    for role, ptype, kind, big in mine:
        if time.time() > deadline:
            ctx.count("cases_not_run_time_cap")
            continue
        sess = sessions.get(role)
        if sess is None or not sess.usable():
            if sess is not None:
                sess.close()
            sess = None
            for attempt in range(3):
                cand = Session(ctx, role)
                n_sessions += 1
                if cand.ok:
                    sess = cand
                    break
                cand.close()
            if sess is None:
                ctx.inconclusive("handshake with the victim failed three times (role %s)" % role)
                break
            sessions[role] = sess
        v = sess.att.victim
        if not judged_unhandled(ctx, v, "server" if role == "client" else "client", ptype):
            ctx.count("types_with_handler_skipped")
            continue
        payload = make_payload(rng, ptype, kind, big)
        named = ptype in names
        ctx.case(("c12", role, ptype, kind, payload),
                 sample=dict(victim_role="server" if role == "client" else "client", type=ptype, payload_kind=kind,
                             payload=payload[:24], payload_len=len(payload)) if samples < 2 or (ptype == 3 and samples < 4) else None)
        samples += 1
        ctx.count("cases_named_type" if named else "cases_unnamed_type")
        ctx.count("cases_victim_" + ("server" if role == "client" else "client"))
        try:
            run_case(ctx, sess, ptype, kind, payload, named)
        except Exception:
            import traceback

            ctx.inconclusive("harness error in case (%s,%d,%s): %s" % (role, ptype, kind, traceback.format_exc()[-600:]))
            sess.dead = True
    for sess in sessions.values():
        sess.close()
    ctx.count("sessions", n_sessions)
    run_rekey_stratum(ctx)
    run_cipher_cells(ctx)
    run_debug_and_kexrange(ctx)
    run_seqno_boundaries(ctx)
    for b in SEQ_BOUNDARIES:
        ctx.require("seqno_boundary_%#010x_compared" % b, 6)
    for fam, st in (("ctr", "nonstrict"), ("gcm", "nonstrict"), ("cbc", "nonstrict"), ("ctr", "strict"), ("gcm", "strict")):
        ctx.require("cell_seqno_%s_%s_seq_compared" % (fam, st), 12)
    for cfg in ("hexdump", "logchannel_debug", "hexdump_logchannel_debug"):
        ctx.require("cell_debugcfg_%s_seq_compared" % cfg, 55 if ctx.quick else 380)
    ctx.require("debug_log_records_rendered", 400)
    for ph in ("before", "after"):
        ctx.require("cell_kexrange_%s_rekey_seq_compared" % ph, 36)
    ctx.require("kexrange_after_rekey_rekeys_completed", 2)
    for cell in ("server_authed", "server_unauth", "client_authed", "client_unauth"):
        ctx.require("cell_rolematrix_%s_seq_compared" % cell, 55)
    for vr in ("server", "client"):
        ctx.require("cell_payloadsize_%s_seq_compared" % vr, 20)
    for size in PAYLOAD_SIZES:
        ctx.require("payload_size_%d_cases" % size, 4)
    for fam in ("ctr", "cbc", "gcm"):
        for st in ("strict", "nonstrict"):
            for ph in ("before", "after"):
                ctx.require("cell_%s_%s_%s_rekey_seq_compared" % (fam, st, ph), 6 if ctx.quick else 24)
    ctx.require("cell_rekeys_completed", 8)
    ctx.require("rekey_window_cases", 100 if ctx.quick else 400)
    ctx.require("rekey_window_unimplemented_ok", 80 if ctx.quick else 320)
    ctx.require("rekeys_completed", 20)
    ctx.require("rekey_probes_answered", 20)
    ctx.require("rekey_trigger_api", 8)
    ctx.require("rekey_trigger_threshold", 8)
    ctx.require("victim_inbound_seen", 300 if ctx.quick else 1500)
    ctx.require("unimplemented_replies_seen", 20)
    ctx.require("reply_seqno_compared", 20)
    ctx.require("unimplemented_sent_to_victim", 2)
