"""C42 — BufferedFile wrappers preserve stream content and line structure.

Sequential reference-model check (no scheduling).  Reference = the underlying byte
stream.  A scripted stream (random chunking of reads, partial writes, three ways of
signalling EOF) sits under a BufferedFile subclass; a second driver puts a real
ChannelFile on a real Channel with a stub transport.

Judged (and nothing more than the statement says):
  reads   every result is the next bytes of the stream (prefix rule); read(n>0)/read() return
          something unless the stream is exhausted; readline(size) returns exactly the next
          line: it ends at the first newline, or at `size` bytes, or at end of stream; the
          concatenation of everything returned plus a final drain equals the stream.
  'U'     universal-newline mode translates newlines, so only line structure is judged:
          size limits, at most one newline and only at the end, no stray CR, and the
          non-newline bytes equal those of the stream, in order.
  writes  the bytes that reached the stream are always a prefix of what was written; equal to
          it after flush()/close(); with bufsize=1 everything through the last newline written
          has reached the stream when write() returns.
"""
from paramiko.channel import ChannelFile
from paramiko.file import BufferedFile

from vf.chanstub import make_channel, msg_data, sent_data

META = dict(
    title="BufferedFile content and line structure",
    level="exploration",
    design_ref="§3 C42",
    technique="sequential reference-model oracle (the underlying byte stream) over scripted streams and a real "
              "ChannelFile on a stub-transport Channel",
    text="Random byte streams rich in CR/LF are served through a scripted stream with random chunking (1 byte .. "
         "request size), EOF signalled as b'', None or EOFError, and partial writes; bufsize in {-1,0,1,2,3,5,8,64,8192}, "
         "binary/text/universal-newline modes; random programs of read(n)/read()/readline()/readline(k)/next()/"
         "for-iteration/readlines and write/writelines/flush/close. Every returned value is compared with the next "
         "bytes of the stream, every write with the bytes the stream has received. A sample runs through a real "
         "ChannelFile over Channel.recv/sendall. A separate stratum opens ChannelFile/ChannelStderrFile/ChannelStdinFile "
         "with makefile*('wb', n) for unbuffered, line and block buffering and ends with flush+close, close only, or a "
         "partial line pending: on a stub-transport Channel the emitted DATA/EXTENDED_DATA/EOF messages are parsed, over "
         "a real transport pair the peer reads until EOF; the peer must hold exactly the bytes written, before the EOF of "
         "a stdin file, and close() must not raise. Holds for the cases produced.",
    note="Text mode uses ASCII streams (a size-limited read can split a UTF-8 sequence, which the statement does not "
         "cover). Universal-newline mode is judged on line structure only.",
    rule="case = (stream bytes, chunk policy, EOF style, mode, bufsize, op program); distinct = hash of all of it; "
         "trivial = program produced no data in either direction",
    assumptions=["the scripted stream never returns more than requested and never an empty chunk before EOF"],
)


def shards(tier):
    return 4 if tier == "quick" else 16


BUFSIZES = [-1, 0, 1, 2, 3, 5, 8, 64, 8192]


class Runaway(BaseException):
    """The wrapper keeps asking an exhausted stream for more: the library loop does not end."""


EOF_ASKS_LIMIT = 2000


class Violation(Exception):
    def __init__(self, sig, what, extra=None):
        Exception.__init__(self, sig)
        self.sig, self.what, self.extra = sig, what, extra or {}


# ------------------------------------------------------------------ scripted stream
class Scripted(BufferedFile):
    def __init__(self, src, mode, bufsize, rng, policy, eof_style, wpolicy):
        BufferedFile.__init__(self)
        self.src = src
        self.rpos = 0
        self.sink = bytearray()
        self.rng = rng
        self.policy = policy
        self.eof_style = eof_style
        self.wpolicy = wpolicy
        self.read_calls = 0
        self.write_calls = 0
        self.eof_asks = 0
        self._set_mode(mode, bufsize)

    def _read(self, size):
        self.read_calls += 1
        if self.rpos >= len(self.src) or size <= 0:
            self.eof_asks += 1
            if self.eof_asks > EOF_ASKS_LIMIT:
                raise Runaway()
            if self.eof_style == "raise":
                raise EOFError()
            return None if self.eof_style == "none" else b""
        if isinstance(self.policy, list):  # explicit deliveries: one per call, cut to the request
            n = self.policy[0]
            if n <= size:
                self.policy.pop(0)
            else:
                self.policy[0] = n - size
                n = size
        elif self.policy == "byte":
            n = 1
        elif self.policy == "small":
            n = self.rng.randint(1, 3)
        elif self.policy == "full":
            n = size
        else:
            n = self.rng.randint(1, size) if self.rng.random() < 0.7 else self.rng.randint(1, min(size, 4))
        n = max(1, min(n, size))
        d = self.src[self.rpos:self.rpos + n]
        self.rpos += len(d)
        return d

    def _write(self, data):
        self.write_calls += 1
        data = bytes(data)
        if self.wpolicy == "all" or len(data) <= 1:
            n = len(data)
        elif self.wpolicy == "byte":
            n = 1
        else:
            n = self.rng.randint(1, len(data))
        self.sink += data[:n]
        return n

    def received(self):
        return bytes(self.sink)


# ------------------------------------------------------------------ real ChannelFile
class JitChannel:
    """Forwards to a real Channel; feeds the next scripted chunk just before a recv that
    would otherwise find the buffer empty (stands in for the transport thread)."""

    def __init__(self, src, rng, policy):
        self.chan, self.t = make_channel(window=1 << 20, max_packet=1 << 15, out_window=1 << 24,
                                         out_max_packet=rng.choice([65, 67, 72, 96, 4096]))
        self.src = src
        self.rpos = 0
        self.rng = rng
        self.policy = policy
        self.read_calls = 0
        self.eof_asks = 0

    def recv(self, n):
        self.read_calls += 1
        c = self.chan
        if c.eof_received and len(c.in_buffer) == 0:
            self.eof_asks += 1
            if self.eof_asks > EOF_ASKS_LIMIT:
                raise Runaway()
        if len(c.in_buffer) == 0 and not c.eof_received:
            if self.rpos >= len(self.src):
                c._handle_eof(None)
            else:
                k = self.policy.pop(0) if isinstance(self.policy, list) else \
                    1 if self.policy == "byte" else self.rng.randint(1, 3) if self.policy == "small" else \
                    self.rng.randint(1, 40)
                d = self.src[self.rpos:self.rpos + k]
                self.rpos += len(d)
                c._feed(msg_data(d))
        return c.recv(n)

    def sendall(self, data):
        return self.chan.sendall(data)


class RealCF(ChannelFile):
    def received(self):
        return sent_data(self.channel.t)

    @property
    def read_calls(self):
        return self.channel.read_calls

    @property
    def write_calls(self):
        return len(self.channel.t.sent)


# ------------------------------------------------------------------ generators
def gen_stream(rng, ascii_only):
    n = rng.choice([0, 1, 2, 3, rng.randint(0, 30), rng.randint(0, 120), rng.randint(0, 400)])
    style = rng.choice(["lines", "lines", "dense", "raw"])
    out = bytearray()
    hi = 0x7F if ascii_only else 0xFF
    while len(out) < n:
        r = rng.random()
        if style == "dense":
            out += rng.choice([b"\n", b"\r", b"\r\n", b"a", b"\n\n", b"\r\r", b"\n\r", b"xy"])
        elif style == "lines":
            out += bytes(rng.choice(b"abcdefgh XYZ0189\t") for _ in range(rng.choice([0, 0, 1, 2, 5, 9, rng.randint(0, 40)])))
            out += rng.choice([b"\n", b"\n", b"\n", b"\r\n", b"\r", b""])
        else:
            if r < 0.2:
                out += rng.choice([b"\n", b"\r", b"\r\n"])
            else:
                out.append(rng.randint(0, hi))
    out = bytes(out[:n]) if rng.random() < 0.5 else bytes(out)
    if rng.random() < 0.3 and out and not out.endswith(b"\n"):
        out += b"\n"
    return out


def gen_read_prog(rng, universal):
    ops = []
    for _ in range(rng.randint(1, 12)):
        r = rng.random()
        if universal:
            if r < 0.45:
                ops.append(("readline", None))
            elif r < 0.8:
                ops.append(("readline", rng.choice([0, 1, 2, 3, 4, 7, 20, -1])))
            elif r < 0.93:
                ops.append(("next",))
            else:
                ops.append(("for", rng.randint(1, 4)))
            continue
        if r < 0.25:
            ops.append(("read", rng.choice([0, 1, 1, 2, 3, 5, 8, 13, 64, 300])))
        elif r < 0.30:
            ops.append(("read", None if rng.random() < 0.5 else -1))
        elif r < 0.55:
            ops.append(("readline", None))
        elif r < 0.78:
            ops.append(("readline", rng.choice([0, 1, 2, 3, 4, 7, 20, 100, -1])))
        elif r < 0.88:
            ops.append(("next",))
        elif r < 0.95:
            ops.append(("for", rng.randint(1, 4)))
        elif r < 0.98:
            ops.append(("readlines", rng.choice([None, 1, 10])))
        else:
            ops.append(("readinto", rng.choice([1, 4, 50])))
    return ops


def gen_write_prog(rng):
    ops = []
    for _ in range(rng.randint(1, 12)):
        r = rng.random()
        if r < 0.7:
            k = rng.choice([0, 1, 1, 2, 3, 6, 10, rng.randint(0, 40), rng.randint(0, 200)])
            d = bytearray()
            while len(d) < k:
                x = rng.random()
                d += b"\n" if x < 0.15 else b"\r\n" if x < 0.2 else bytes([rng.randint(0, 255)])
            d = bytes(d[:k])
            if rng.random() < 0.15:
                s = "".join(rng.choice("ab\n é中") for _ in range(rng.randint(0, 8)))
                ops.append(("write", s))
            else:
                ops.append(("write", d))
        elif r < 0.8:
            ops.append(("writelines", [bytes(rng.choice(b"ab\n\r") for _ in range(rng.randint(0, 5)))
                                       for _ in range(rng.randint(0, 4))]))
        else:
            ops.append(("flush",))
    return ops


# ------------------------------------------------------------------ oracles
def as_bytes(x, binary, what):
    if binary:
        if not isinstance(x, bytes):
            raise Violation("wrong result type in binary mode", "%s returned %s in binary mode" % (what, type(x).__name__))
        return x
    if isinstance(x, str):
        return x.encode("utf-8")
    return bytes(x)


class ReadOracle:
    def __init__(self, src, universal, binary):
        self.src = src
        self.pos = 0
        self.universal = universal
        self.binary = binary
        self.got = bytearray()

    def rest(self):
        return self.src[self.pos:]

    def chunk(self, res, n, what):
        """read(n)/read(): next bytes of the stream, at most n, non-empty unless exhausted."""
        rest = self.rest()
        if not isinstance(res, bytes):
            raise Violation("read returned a non-bytes object", what + " returned " + type(res).__name__)
        if not rest.startswith(res):
            raise Violation("read(n)/read() returned bytes that are not the next bytes of the stream",
                            what + " diverged from the stream", dict(got=res, expected_prefix_of=rest[:len(res) + 8]))
        if n is not None and n >= 0 and len(res) > n:
            raise Violation("read(n) returned more than n bytes", what, dict(got=res, n=n))
        if len(res) == 0 and len(rest) > 0 and (n is None or n != 0):
            raise Violation("read returned empty before the end of the stream", what, dict(remaining=rest[:40]))
        self.pos += len(res)
        self.got += res

    def line(self, res, size, what):
        b = as_bytes(res, self.binary, what)
        lim = size if (size is not None and size >= 0) else None
        if lim is not None and len(b) > lim:
            raise Violation("readline(size) returned more than size bytes", what, dict(got=b, size=size))
        if self.universal:
            if b"\r" in b or b"\n" in b[:-1]:
                raise Violation("universal-newline line contains a newline before its end", what, dict(got=b))
            self.got += b
            return
        rest = self.rest()
        i = rest.find(b"\n")
        exp = rest if i < 0 else rest[:i + 1]
        if lim is not None:
            exp = exp[:lim]
        if b != exp:
            if not rest.startswith(b):
                sig = "readline returned bytes that are not the next bytes of the stream"
            elif b"\n" in b[:-1]:
                sig = "readline ran past a newline"
            elif len(b) < len(exp):
                sig = "readline stopped before the newline/size limit/end of stream"
            else:
                sig = "readline returned a different line than the stream holds"
            raise Violation(sig, what, dict(got=b, expected=exp))
        self.pos += len(b)
        self.got += b

    def final(self):
        if self.universal:
            strip = lambda x: bytes(x).replace(b"\r", b"").replace(b"\n", b"")  # noqa: E731
            if strip(self.got) != strip(self.src):
                raise Violation("universal-newline mode changed non-newline content",
                                "non-newline bytes returned differ from the stream's",
                                dict(got=bytes(self.got), src=self.src))
        elif bytes(self.got) != self.src:
            raise Violation("concatenation of everything returned differs from the stream",
                            "after draining, the data returned is not the underlying byte stream",
                            dict(got=bytes(self.got), src=self.src))


def run_reads(f, orc, prog, counters):
    for op in prog:
        k = op[0]
        if k == "read":
            res = f.read(op[1]) if op[1] is not None else f.read()
            orc.chunk(res, op[1], "read(%r)" % (op[1],))
            counters["read_results_compared"] += 1
        elif k == "readinto":
            buf = bytearray(op[1])
            n = f.readinto(buf)
            orc.chunk(bytes(buf[:n]), op[1], "readinto(%d)" % op[1])
            counters["read_results_compared"] += 1
        elif k == "readline":
            res = f.readline(op[1]) if op[1] is not None else f.readline()
            orc.line(res, op[1], "readline(%r)" % (op[1],))
            counters["lines_compared"] += 1
        elif k == "next":
            try:
                res = next(f)
            except StopIteration:
                res = b"" if orc.binary else ""
            orc.line(res, None, "next()")
            counters["lines_compared"] += 1
        elif k == "for":
            cnt = 0
            for res in f:
                orc.line(res, None, "iteration")
                counters["lines_compared"] += 1
                cnt += 1
                if cnt >= op[1]:
                    break
        elif k == "readlines":
            for res in f.readlines(op[1]):
                orc.line(res, None, "readlines()")
                counters["lines_compared"] += 1
    # drain
    for _ in range(len(orc.src) + 5):
        if orc.universal:
            res = f.readline()
            orc.line(res, None, "readline() [drain]")
            counters["lines_compared"] += 1
        else:
            res = f.read()
            orc.chunk(res, None, "read() [drain]")
            counters["read_results_compared"] += 1
        if len(res) == 0:
            break
    orc.final()
    counters["streams_fully_drained"] += 1


def check_sink(f, written, line_buffered, after, counters):
    got = f.received()
    counters["write_checks"] += 1
    if not written.startswith(got):
        if len(got) > len(written) or sorted(got) != sorted(written[:len(got)]):
            sig = "stream received bytes that were not written in that order (duplicate/garbled)"
        else:
            sig = "stream received the written bytes out of order"
        raise Violation(sig, "after %s the bytes at the stream are not a prefix of the bytes written" % after,
                        dict(received=got[-60:], written=written[-60:], n_received=len(got), n_written=len(written)))
    if after in ("flush", "close") and got != written:
        raise Violation("data missing at the stream after %s" % after,
                        "flush/close returned but the stream has not received everything written",
                        dict(n_received=len(got), n_written=len(written), missing=written[len(got):][:60]))
    if line_buffered and after == "write":
        i = written.rfind(b"\n")
        counters["line_buffer_checks"] += 1
        if len(got) < i + 1:
            raise Violation("line-buffered write returned with a completed line not yet at the stream",
                            "bufsize=1: bytes through the last newline written must have reached the stream",
                            dict(n_received=len(got), last_newline_at=i, tail=written[len(got):][:60]))


def run_writes(f, prog, line_buffered, counters, close=True, written=b""):
    for op in prog:
        if op[0] == "write":
            d = op[1]
            f.write(d)
            written += d.encode("utf-8") if isinstance(d, str) else d
            check_sink(f, written, line_buffered, "write", counters)
        elif op[0] == "writelines":
            f.writelines(op[1])
            written += b"".join(op[1])
            check_sink(f, written, line_buffered, "write", counters)
        elif op[0] == "flush":
            f.flush()
            check_sink(f, written, line_buffered, "flush", counters)
    if close:
        f.close()
        check_sink(f, written, line_buffered, "close", counters)
    return written


# ------------------------------------------------------------------ channel-backed file classes
# ChannelFile / ChannelStderrFile / ChannelStdinFile from makefile('wb', n) / makefile_stderr('wb', n) /
# makefile_stdin('wb', n) with write buffering and data still pending at close(): everything written must
# reach the peer complete and in order, before the EOF that closing a stdin file sends, and close() must
# not raise.  Level 1: real Channel on the stub transport (wire messages parsed independently).
# Level 2: real client/server Transport pair, the peer reads until EOF.
KINDS = ("stdin", "plain", "stderr")
BUF_CLASSES = {"unbuffered": [0, -1], "line": [1], "block": [2, 3, 8, 64, 8192]}
ENDINGS = ("flush_close", "close_only", "partial_line")


def gen_cf_writes(rng, ending):
    """A list of byte strings to write (flushes may be interleaved as None) shaped for the ending."""
    ops = []
    for _ in range(rng.randint(1, 6)):
        k = rng.choice([1, 2, 3, 7, rng.randint(1, 30), rng.randint(1, 120)])
        d = bytearray()
        while len(d) < k:
            x = rng.random()
            d += b"\n" if x < 0.15 else bytes([rng.choice(b"abcdefgh 0123456789\r")])
        ops.append(bytes(d[:k]))
        if rng.random() < 0.15:
            ops.append(None)
    while ops and ops[-1] is None:
        ops.pop()
    last = ops[-1]
    if ending == "partial_line":
        ops[-1] = last.rstrip(b"\n") + b"x"  # pending text after the last newline, no flush
    elif ending == "close_only" and rng.random() < 0.5:
        ops[-1] = last + b"\n"
    if ending == "flush_close":
        ops.append(None)
    return ops


def cf_open(chan, kind, bufsize):
    mode = "wb"
    if kind == "stdin":
        return chan.makefile_stdin(mode, bufsize)
    if kind == "stderr":
        return chan.makefile_stderr(mode, bufsize)
    return chan.makefile(mode, bufsize)


def cf_drive(f, ops):
    """Run the writes; returns (written, error) - error is (stage, exception) if anything raised."""
    written = b""
    try:
        for op in ops:
            if op is None:
                f.flush()
            else:
                f.write(op)
                written += op
    except Exception as e:  # noqa
        return written, ("write/flush", e)
    try:
        f.close()
    except Exception as e:  # noqa
        return written, ("close", e)
    return written, None


def cf_judge(ctx, desc, level, kind, written, err, got, eof_seen, data_after_eof):
    lvl = "stub channel" if level == "stub" else "transport pair"
    if err is not None:
        from vf.core import exc_signature

        ctx.violation("channel file %s() raised with buffered data pending (%s file, %s): %s"
                      % (err[0].split("/")[0], kind, lvl, exc_signature(err[1])),
                      "%s on a %s channel file raised %r" % (err[0], kind, err[1]), dict(desc, written=written, got=got))
        return
    if data_after_eof:
        ctx.violation("channel file data sent after EOF (%s file, %s)" % (kind, lvl),
                      "close() of the stdin file sent EOF before flushing the pending write buffer",
                      dict(desc, written=written, got=got))
    elif got != written:
        if written.startswith(got):
            what = "data missing at the peer after close()"
        else:
            what = "peer received bytes that were not written in that order"
        ctx.violation("%s (%s file, %s)" % (what, kind, lvl),
                      "the bytes the peer holds after close() differ from the bytes written",
                      dict(desc, written=written, got=got))
    elif kind == "stdin" and not eof_seen:
        ctx.violation("stdin file close() did not send EOF (%s)" % lvl,
                      "makefile_stdin().close() must shut the write side down", dict(desc, written=written))


def cf_stub_case(ctx, rng, counters, kind, bcls, ending, sample):
    import struct

    bufsize = rng.choice(BUF_CLASSES[bcls])
    ops = gen_cf_writes(rng, ending)
    chan, t = make_channel(out_window=1 << 24, out_max_packet=rng.choice([65, 70, 96, 4096, 1 << 15]))
    f = cf_open(chan, kind, bufsize)
    desc = dict(level="stub", kind=kind, bufsize=bufsize, ending=ending, writes=ops)
    written, err = cf_drive(f, ops)
    got = bytearray()
    eof_seen = False
    data_after_eof = False
    for raw in t.sent:
        ty = raw[0]
        if ty in (94, 95):
            off = 5 if ty == 94 else 9
            (ln,) = struct.unpack(">I", raw[off:off + 4])
            payload = raw[off + 4:off + 4 + ln]
            if (ty == 95) != (kind == "stderr"):
                ctx.violation("channel file wrote to the wrong stream (%s file)" % kind, "message type %d" % ty, desc)
            if eof_seen:
                data_after_eof = True
            got += payload
        elif ty == 96:
            eof_seen = True
    ctx.case(("cf-stub", kind, bufsize, ending, repr(ops)), sample=desc if sample else None)
    counters["chanfile_stub_" + kind] += 1
    counters["chanfile_stub_%s_%s" % (bcls, ending)] += 1
    counters["chanfile_wire_messages_parsed"] += len(t.sent)
    cf_judge(ctx, desc, "stub", kind, written, err, bytes(got), eof_seen, data_after_eof)
    f._closed = True


def cf_pair_stratum(ctx, counters, ncases):
    import threading

    from vf import pair

    rng = ctx.rng
    p = pair.Pair(rng=rng)
    if not p.start(timeout=90) or not p.auth():
        ctx.inconclusive("channel-file transport stratum: handshake failed: %r %r" % (p.client_exc, p.server_exc))
        return
    combos = [(k, b, e) for k in KINDS for b in BUF_CLASSES for e in ENDINGS]
    rng.shuffle(combos)
    try:
        for i in range(ncases):
            kind, bcls, ending = combos[i % len(combos)]
            bufsize = rng.choice(BUF_CLASSES[bcls])
            ops = gen_cf_writes(rng, ending)
            c, s = p.session(timeout=60)
            wchan, rchan = (s, c) if kind == "stderr" else (c, s)
            rchan.settimeout(60)
            box = dict(got=bytearray(), eof=False)

            def reader(rchan=rchan, kind=kind, box=box):
                try:
                    while True:
                        d = rchan.recv_stderr(4096) if kind == "stderr" else rchan.recv(4096)
                        if not d:
                            box["eof"] = True
                            return
                        box["got"] += d
                except Exception as e:  # noqa
                    box["exc"] = e

            th = threading.Thread(target=reader, daemon=True)
            th.start()
            f = cf_open(wchan, kind, bufsize)
            desc = dict(level="pair", kind=kind, bufsize=bufsize, ending=ending, writes=ops)
            written, err = cf_drive(f, ops)
            if kind != "stdin" or err is not None:
                try:
                    wchan.shutdown_write()  # lets the peer's read loop end; a stdin file does this itself
                except Exception:
                    pass
            th.join(90)
            ctx.case(("cf-pair", kind, bufsize, ending, repr(ops)), sample=desc if i == 0 else None)
            if th.is_alive() or "exc" in box:
                if err is None:
                    ctx.inconclusive("channel-file pair case: peer never saw EOF: %r %r" % (desc, box.get("exc")))
                    f._closed = True
                    continue
            counters["chanfile_pair_" + kind] += 1
            counters["chanfile_pair_%s_%s" % (bcls, ending)] += 1
            counters["chanfile_peer_bytes_read"] += len(box["got"])
            cf_judge(ctx, desc, "pair", kind, written, err, bytes(box["got"]), box["eof"], False)
            f._closed = True
            c.close()
            s.close()
    finally:
        p.close()


def channel_files(ctx, counters, nstub, npair):
    rng = ctx.rng
    combos = [(k, b, e) for k in KINDS for b in BUF_CLASSES for e in ENDINGS]
    for i in range(nstub):
        kind, bcls, ending = combos[i % len(combos)]
        cf_stub_case(ctx, rng, counters, kind, bcls, ending, sample=(i == 0))
    ctx.guard(cf_pair_stratum, ctx, counters, npair)


# ------------------------------------------------------------------ universal-newline line structure
# 'U' mode against a reference universal-newline splitter: the stream is cut into lines at CRLF | CR | LF,
# each terminator reported as one LF.  The splitter state must survive deliveries: a lone CR that ends a
# delivery is a complete line ending unless the NEXT delivery starts with LF; an LF met later at the start of
# the buffered data (an empty line) belongs to the stream and must be returned.
# Programs using only readline()/next()/for/readlines() are compared exactly, line by line.  When a size limit
# cuts a CRLF in two the library reports the LF as a further empty line; the statement ("lines end at
# newlines and respect size limits") does not settle that, so programs containing readline(k) are compared
# with a reference in which a CRLF may show as one or two LFs - everything else, including every empty
# line of the stream, is still exact.
import re as _re

_TOK = _re.compile(rb"([^\r\n]*)(\r\n|\r|\n|$)")


def ref_universal_lines(data):
    return [m.group(1) + (b"\n" if m.group(2) else b"") for m in _TOK.finditer(data) if m.group(0)]


def relaxed_universal_pattern(data):
    out = []
    for m in _TOK.finditer(data):
        if not m.group(0):
            continue
        out.append(_re.escape(m.group(1)))
        if m.group(2) == b"\r\n":
            out.append(rb"\n\n?")
        elif m.group(2):
            out.append(rb"\n")
    return _re.compile(b"".join(out), _re.S)


def gen_universal(rng):
    toks = [b"\n", b"\r", b"\r\n", b"\n\n", b"\r\r", b"\r\n\r\n", b"\n\r", b"a", b"bc", b"one", b"x y"]
    data = b"".join(rng.choice(toks) for _ in range(rng.randint(1, 14)))
    # deliveries: boundaries preferably right after a CR
    cuts = set()
    for i, ch in enumerate(data[:-1]):
        if ch == 13 and rng.random() < 0.6:
            cuts.add(i + 1)
        elif rng.random() < 0.15:
            cuts.add(i + 1)
    pos = [0] + sorted(cuts) + [len(data)]
    deliveries = [data[a:b] for a, b in zip(pos, pos[1:]) if b > a]
    return data, deliveries


def universal_case(ctx, rng, counters, idx):
    data, deliveries = gen_universal(rng)
    binary = rng.random() < 0.7
    real = rng.random() < 0.35
    mode = "r" + ("b" if binary else "") + "U"
    ops = []
    for _ in range(rng.randint(0, 8)):
        r = rng.random()
        ops.append(("readline", None) if r < 0.4 else ("readline", rng.choice([1, 2, 3, 4, 7, 20])) if r < 0.65 else
                   ("next",) if r < 0.8 else ("for", rng.randint(1, 3)) if r < 0.92 else ("readlines", None))
    if rng.random() < 0.5:
        ops = [o for o in ops if not (o[0] == "readline" and o[1] is not None)]
    sized = any(o[0] == "readline" and o[1] is not None for o in ops)
    # what the case exercises
    lone = 0
    empties_after = 0
    off = 0
    for i, d in enumerate(deliveries):
        off += len(d)
        if d.endswith(b"\r") and not (i + 1 < len(deliveries) and deliveries[i + 1].startswith(b"\n")):
            lone += 1
            rest_lines = ref_universal_lines(data[off:])
            if b"\n" in rest_lines:
                empties_after += 1
    counters["deliveries_ending_in_lone_cr"] += lone
    counters["empty_lines_after_a_lone_cr_delivery"] += empties_after
    lens = [len(d) for d in deliveries]
    if real:
        f = RealCF(JitChannel(data, rng, list(lens)), mode, -1)
    else:
        f = Scripted(data, mode, -1, rng, list(lens), rng.choice(["empty", "none", "raise"]), "all")
    desc = dict(kind="universal-newline", mode=mode, driver="ChannelFile" if real else "scripted",
                deliveries=deliveries, ops=ops)
    ctx.case(("U", mode, real, repr(deliveries), repr(ops)), sample=desc if idx < 1 else None)
    got = []
    try:
        def take(res, size, what):
            b = as_bytes(res, binary, what)
            if size is not None and len(b) > size:
                raise Violation("readline(size) returned more than size bytes", what, dict(got=b, size=size))
            if b"\r" in b or b"\n" in b[:-1]:
                raise Violation("universal-newline line contains a newline before its end", what, dict(got=b))
            got.append(b)
            counters["universal_lines_compared"] += 1
            return b

        for op in ops:
            if op[0] == "readline":
                take(f.readline(op[1]) if op[1] is not None else f.readline(), op[1], "readline(%r)" % (op[1],))
            elif op[0] == "next":
                try:
                    take(next(f), None, "next()")
                except StopIteration:
                    pass
            elif op[0] == "for":
                c = 0
                for res in f:
                    take(res, None, "iteration")
                    c += 1
                    if c >= op[1]:
                        break
            else:
                for res in f.readlines():
                    take(res, None, "readlines()")
        for _ in range(len(data) + 5):
            if not take(f.readline(), None, "readline() [drain]"):
                break
        got = [g for g in got if g]
        ref = ref_universal_lines(data)
        if not sized:
            counters["universal_exact_programs"] += 1
            if got != ref:
                i = next((j for j in range(min(len(got), len(ref))) if got[j] != ref[j]), min(len(got), len(ref)))
                if len(got) < len(ref) and got == [x for x in ref if x != b"\n"][:len(got)] or \
                        (i < len(ref) and ref[i] == b"\n"):
                    sig = "universal-newline mode swallowed an empty line of the stream"
                elif len(got) > len(ref):
                    sig = "universal-newline mode returned a line the stream does not hold"
                else:
                    sig = "universal-newline lines differ from the reference splitter"
                raise Violation(sig, "lines returned in 'U' mode differ from the CRLF|CR|LF split of the stream",
                                dict(got=got, expected=ref, first_difference=i))
        else:
            counters["universal_size_limited_programs"] += 1
            joined = b"".join(got)
            if not relaxed_universal_pattern(data).fullmatch(joined):
                exp = b"".join(ref)
                sig = ("universal-newline mode swallowed a newline of the stream" if joined.count(b"\n") < exp.count(b"\n")
                       and joined.replace(b"\n", b"") == exp.replace(b"\n", b"")
                       else "universal-newline output differs from the translated stream")
                raise Violation(sig, "data returned in 'U' mode (with size limits) is not the newline-translated stream",
                                dict(got=got, expected_translation=exp))
        counters["streams_fully_drained"] += 1
        if real:
            counters["universal_channelfile_cases"] += 1
    except Violation as v:
        ctx.violation(v.sig, v.what, dict(desc, detail=v.extra))
    except Runaway:
        ctx.violation("read operation does not terminate at end of stream", "runaway in 'U' mode", desc)
    except (IOError, UnicodeDecodeError, TypeError, ValueError, IndexError) as e:
        from vf.core import exc_signature

        ctx.violation("unexpected exception from a BufferedFile operation: " + exc_signature(e),
                      "a read in 'U' mode raised %r" % (e,), desc)
    finally:
        f._closed = True


# ------------------------------------------------------------------ one case
def one_case(ctx, rng, counters, idx):
    direction = rng.choice(["r", "r", "r", "w", "w", "rw"])
    universal = direction == "r" and rng.random() < 0.15
    binary = rng.random() < 0.6
    bufsize = rng.choice(BUFSIZES)
    real = rng.random() < 0.2
    policy = rng.choice(["byte", "small", "random", "random", "full"])
    eof_style = rng.choice(["empty", "none", "raise"])
    wpolicy = rng.choice(["all", "byte", "random", "random"])
    mode = {"r": "r", "w": rng.choice(["w", "a"]), "rw": rng.choice(["r+", "w+", "rw"])}[direction]
    mode += ("b" if binary else "") + ("U" if universal else "")
    src = gen_stream(rng, ascii_only=not binary) if "r" in direction else b""
    rprog = gen_read_prog(rng, universal) if "r" in direction else []
    wprog = gen_write_prog(rng) if "w" in direction else []
    desc = dict(mode=mode, bufsize=bufsize, driver="ChannelFile" if real else "scripted", chunking=policy,
                eof=eof_style, partial_writes=wpolicy, stream=src, reads=rprog, writes=wprog)
    if real:
        f = RealCF(JitChannel(src, rng, policy), mode, bufsize)
    else:
        f = Scripted(src, mode, bufsize, rng, policy, eof_style, wpolicy)
    nontrivial = bool(src) or any(op[0] != "flush" and op[1] for op in wprog)
    ctx.case((mode, bufsize, real, policy, eof_style, wpolicy, src, repr(rprog), repr(wprog)),
             sample=desc if idx < 3 else None, nontrivial=nontrivial)
    try:
        if direction == "rw":
            # interleave: first half of the writes, the reads, the rest of the writes
            h = len(wprog) // 2
            orc = ReadOracle(src, universal, binary)
            lb = bufsize == 1
            written = run_writes(f, wprog[:h], lb, counters, close=False)
            run_reads(f, orc, rprog, counters)
            f.flush()
            check_sink(f, written, lb, "flush", counters)
            run_writes(f, wprog[h:], lb, counters, close=True, written=written)
        elif direction == "r":
            run_reads(f, ReadOracle(src, universal, binary), rprog, counters)
        else:
            run_writes(f, wprog, bufsize == 1, counters)
        counters["stream_read_calls_observed"] += f.read_calls
        counters["stream_write_calls_observed"] += f.write_calls
        if real:
            counters["channelfile_cases"] += 1
        if universal:
            counters["universal_newline_cases"] += 1
    except Violation as v:
        ctx.violation(v.sig, v.what, dict(desc, detail=v.extra))
    except Runaway:
        ctx.violation("read operation does not terminate at end of stream",
                      "the wrapper asked the exhausted stream for more data %d times inside one program" % EOF_ASKS_LIMIT,
                      desc)
    except (IOError, UnicodeDecodeError, TypeError, ValueError, IndexError) as e:
        from vf.core import exc_signature

        ctx.violation("unexpected exception from a BufferedFile operation: " + exc_signature(e),
                      "a read/write/flush on an open file raised %r" % (e,), desc)
    finally:
        try:
            f._closed = True  # keep __del__ -> close() -> flush() from running against a dead stream
        except Exception:
            pass


def run(ctx):
    import collections

    counters = collections.Counter()
    rng = ctx.rng
    n = ctx.pick(6000, 60000)
    deadline = ctx.deadline(35, 400)
    import time

    channel_files(ctx, counters, ctx.pick(1350, 13500), ctx.pick(54, 162))
    for j in range(ctx.pick(4000, 40000)):
        universal_case(ctx, rng, counters, j)
    i = 0
    floor_cases = 1500  # count-based minimum behind the ctx.require floors; the time cap applies beyond it
    while i < n and (i < floor_cases or time.time() < deadline):
        one_case(ctx, rng, counters, i)
        i += 1
    for k, v in counters.items():
        ctx.count(k, v)
    for k in KINDS:
        ctx.require("chanfile_stub_" + k, 1000)
        ctx.require("chanfile_pair_" + k, 24)
    for b in BUF_CLASSES:
        for e in ENDINGS:
            ctx.require("chanfile_stub_%s_%s" % (b, e), 300)
            ctx.require("chanfile_pair_%s_%s" % (b, e), 8)
    ctx.require("chanfile_wire_messages_parsed", 5000)
    ctx.require("universal_lines_compared", 20000)
    ctx.require("universal_exact_programs", 3000)
    ctx.require("universal_size_limited_programs", 2000)
    ctx.require("universal_channelfile_cases", 2000)
    ctx.require("deliveries_ending_in_lone_cr", 5000)
    ctx.require("empty_lines_after_a_lone_cr_delivery", 2000)
    ctx.require("lines_compared", 2000)
    ctx.require("read_results_compared", 2000)
    ctx.require("write_checks", 2000)
    ctx.require("line_buffer_checks", 100)
    ctx.require("streams_fully_drained", 500)
    ctx.require("channelfile_cases", 100)
    ctx.require("stream_read_calls_observed", 2000)
    ctx.require("stream_write_calls_observed", 1000)
