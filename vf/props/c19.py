"""C19 -- channel senders respect the peer's window and max packet; receivers
never grant more window than their application consumed."""
import threading
import time

from vf import chanmon as cm
from vf import pair
from vf.attacker import Attacker

META = dict(
    title="channel window / max-packet accounting",
    level="exploration",
    design_ref="§3 C19",
    technique="wire-tap credit ledger: running sums per channel per direction over the sender's own tap "
              "(bytes sent vs window granted + adjustments *read*), and adjustments sent vs bytes the "
              "application took out of the channel (BufferedPipe.read hook)",
    text="Real client/server pairs (and a scripted hostile peer offering window 0 / tiny or huge packet sizes) move "
         "seeded data over channels whose window and packet sizes are drawn from the boundary sets of DESIGN §3 C19, "
         "with 1-4 application threads per direction mixing send/send_stderr/recv/recv_stderr and link latency "
         "delaying the adjustments. The oracle replays each side's tap in wire order: cumulative DATA+EXTENDED_DATA "
         "bytes must never exceed the initial window plus the WINDOW_ADJUST values that side had already read; no "
         "data string is longer than the peer's max packet (judged when it is >= 4096); the adjustments a side "
         "sent never exceed the bytes its application had read (plus bytes the library itself discarded). Holds on "
         "the executions produced.",
    note="Trusts the tap's ordering (send_message serialised by the tap lock; read records logged before dispatch). "
         "'Longer than max packet' is judged on the data string, the RFC 4254 reading.",
    rule="case = one (window, packet) configuration x thread layout x volume on a fresh transport pair, or one "
         "attacker-offered (window, packet) pair; distinct = hash of the configuration; trivial = a case in which "
         "no data message was observed",
    assumptions=["the in-memory link preserves order and content",
                 "the attacker transport is only a message source; verdicts come from the victim's tap"],
)

WINDOWS = [32768, 32769, 65535, 1 << 20, 1 << 31, (1 << 32) - 1]
PACKETS = [4096, 4097, 32768, (1 << 32) - 1]


def shards(tier):
    return 8 if tier == "quick" else 16


# ---------------------------------------------------------------------------
# oracle
def judge_instance(ctx, inst, case):
    """Replay one side's view of one channel."""
    if not inst.established:
        return
    ctx.count("channel_instances_judged")
    credit = inst.credit0
    sent = 0
    consumed = 0
    granted = 0
    received = 0
    reported = set()
    text = " [str payload: length taken in characters, sent as UTF-8 bytes]" if case.get("payload") == "nonascii-str" else ""
    for e in inst.ev:
        t, d = e["t"], e["d"]
        if d == "in" and t in (cm.DATA, cm.EXT):
            received += e["len"]
        if d == "in" and t == cm.ADJUST:
            credit += e["adj"]
            ctx.count("adjusts_read")
        elif d == "out" and t in (cm.DATA, cm.EXT):
            n = e["len"]
            sent += n
            ctx.count("data_msgs_out")
            ctx.count("data_bytes_out", n)
            if sent == credit:
                ctx.count("window_exactly_exhausted")
            if sent > credit and "w" not in reported:
                reported.add("w")
                ctx.violation(
                    "sender exceeded the peer's window (%s)%s" % (cm.NAMES[t], text),
                    "cumulative data bytes on a channel exceeded the initial window plus the adjustments read so far",
                    dict(case=case, chan=inst.desc(), sent=sent, credit=credit, excerpt=inst.excerpt()))
            if inst.peer_maxpkt >= 4096:
                ctx.count("packet_size_checks")
                if n == inst.peer_maxpkt - 64:
                    ctx.count("max_size_messages")
                if n > inst.peer_maxpkt and "p" not in reported:
                    reported.add("p")
                    ctx.violation(
                        "data message longer than the peer's max packet (%s)%s" % (cm.NAMES[t], text),
                        "a single data message carried more bytes than the peer's maximum packet size",
                        dict(case=case, chan=inst.desc(), length=n, excerpt=inst.excerpt()))
            else:
                ctx.count("data_msgs_under_clamp")
        elif d == "app" and t == "consume":
            consumed += e["len"]
            ctx.count("consume_events")
        elif d == "in" and t == cm.EXT and e.get("code") != 1:
            consumed += e["len"]  # discarded by the library on the application's behalf
            ctx.count("discarded_ext_read")
        elif d == "out" and t == cm.ADJUST:
            granted += e["adj"]
            ctx.count("adjusts_sent")
            if granted > received and "r" not in reported:
                reported.add("r")
                ctx.violation(
                    "receiver granted more window than the peer had sent",
                    "the sum of WINDOW_ADJUST values sent exceeded all data bytes received on the channel so far "
                    "(some bytes were credited more than once)",
                    dict(case=case, chan=inst.desc(), granted=granted, received=received, excerpt=inst.excerpt()))
            if granted > consumed and "g" not in reported:
                reported.add("g")
                ctx.violation(
                    "receiver granted more window than was consumed",
                    "the sum of WINDOW_ADJUST values sent exceeded the bytes the application had read",
                    dict(case=case, chan=inst.desc(), granted=granted, consumed=consumed, excerpt=inst.excerpt()))


def judge(ctx, rec, sides, case):
    ev = rec.snapshot()
    n = 0
    for side in sides:
        insts, stray = cm.ledger(ev, side)
        for inst in insts:
            judge_instance(ctx, inst, case)
            n += 1
    return n


# ---------------------------------------------------------------------------
# honest pair workload
class Flow:
    """One direction of traffic on one channel: writer(s) on `w`, reader(s) on `r`."""

    def __init__(self, name, w, r, n_out, n_err, rng, writers, readers, maxread):
        self.name, self.w, self.r = name, w, r
        self.out = cm.stream_bytes(name, "out", n_out)
        self.err = cm.stream_bytes(name, "err", n_err)
        self.rng = rng
        self.writers, self.readers, self.maxread = writers, readers, maxread
        self.got_out = bytearray()
        self.got_err = bytearray()
        self.errors = []
        self.threads = []

    def _guard(self, fn, *a):
        try:
            fn(*a)
        except Exception as e:
            self.errors.append("%s: %s %s" % (fn.__name__, type(e).__name__, e))

    def _w_one(self, data, stderr, seed):
        import random
        cm.send_all(self.w, data, random.Random(seed), stderr=stderr)

    def _w_both(self, seed):
        import random
        rng = random.Random(seed)
        po = pe = 0
        while po < len(self.out) or pe < len(self.err):
            use_err = (rng.random() < 0.5 and pe < len(self.err)) or po >= len(self.out)
            c = rng.randint(1, rng.choice((10, 1000, 9000, 70000)))
            if use_err:
                k = self.w.send_stderr(self.err[pe:pe + c])
                pe += k
            else:
                k = self.w.send(self.out[po:po + c])
                po += k
            if k <= 0:
                raise EOFError("send returned %r" % k)

    def _r_block(self, stderr, seed):
        import random
        rng = random.Random(seed)
        want = len(self.err if stderr else self.out)
        buf = self.got_err if stderr else self.got_out
        fn = self.r.recv_stderr if stderr else self.r.recv
        while len(buf) < want:
            b = fn(rng.randint(1, rng.choice((1, 64, 4096, self.maxread))))
            if not b:
                raise EOFError("stream ended after %d of %d" % (len(buf), want))
            buf += b

    def _r_poll(self, seed):
        import random
        rng = random.Random(seed)
        deadline = time.monotonic() + 120
        while len(self.got_out) < len(self.out) or len(self.got_err) < len(self.err):
            did = False
            if self.r.recv_ready():
                self.got_out += self.r.recv(rng.randint(1, rng.choice((1, 64, 4096, self.maxread))))
                did = True
            if self.r.recv_stderr_ready():
                self.got_err += self.r.recv_stderr(rng.randint(1, rng.choice((1, 64, 4096, self.maxread))))
                did = True
            if not did:
                if self.r.closed or time.monotonic() > deadline:
                    raise EOFError("reader gave up")
                time.sleep(0.0005)

    def start(self):
        s = self.rng.getrandbits(32)
        if self.writers == 1:
            self.threads.append(threading.Thread(target=self._guard, args=(self._w_both, s), daemon=True))
        else:
            self.threads.append(threading.Thread(target=self._guard, args=(self._w_one, self.out, False, s), daemon=True))
            self.threads.append(threading.Thread(target=self._guard, args=(self._w_one, self.err, True, s + 1), daemon=True))
        if self.readers == 1:
            self.threads.append(threading.Thread(target=self._guard, args=(self._r_poll, s + 2), daemon=True))
        else:
            self.threads.append(threading.Thread(target=self._guard, args=(self._r_block, False, s + 3), daemon=True))
            self.threads.append(threading.Thread(target=self._guard, args=(self._r_block, True, s + 4), daemon=True))
        for t in self.threads:
            t.start()


def gen_case(rng, quick, idx):
    wc, ws = rng.choice(WINDOWS), rng.choice(WINDOWS)
    pc, ps = rng.choice(PACKETS), rng.choice(PACKETS)
    if idx % 7 == 0:  # make sure the smallest/largest pairs come up in every shard
        wc, ws, pc, ps = WINDOWS[(idx // 7) % 6], WINDOWS[(idx // 7 + 3) % 6], PACKETS[(idx // 7) % 4], PACKETS[(idx // 7 + 1) % 4]
    dirs = rng.choice((["c2s"], ["s2c"], ["c2s", "s2c"]))
    flows = {}
    for d in dirs:
        w = ws if d == "c2s" else wc  # the window the *receiver* of this direction granted
        cap = 200_000 if quick else 600_000
        tot = min(cap, rng.choice((w // 3, w, 2 * w + 17, 5 * w)))
        frac = rng.choice((0.0, 0.5, 1.0, rng.random()))
        n_err = int(tot * frac)
        flows[d] = dict(n_out=tot - n_err, n_err=n_err, writers=rng.choice((1, 2)), readers=rng.choice((1, 2)),
                        maxread=rng.choice((100, 5000, 40000, 1 << 20)))
    lat = rng.choice((0, 0, 0.001, 0.004))
    return dict(kind="pair", wc=wc, pc=pc, ws=ws, ps=ps, flows=flows, latency=lat)


def run_pair_case(ctx, case, rng):
    p = pair.Pair(rng=rng, server_kw=dict(default_window_size=case["ws"], default_max_packet_size=case["ps"]))
    cm.watch(p.tc, p.rec, "c")
    cm.watch(p.ts, p.rec, "s")
    try:
        if not p.start() or not p.auth():
            ctx.inconclusive("handshake failed in a C19 pair case")
            return
        cm.diverge_ids(p, rng)
        c, s = p.session(window_size=case["wc"], max_packet_size=case["pc"])
        if c is not None and c.chanid != c.remote_chanid:
            ctx.count("channels_with_local_id_ne_remote_id")
        if s is None:
            ctx.inconclusive("server never saw the channel")
            return
        c.settimeout(120)
        s.settimeout(120)
        p.link.set_latency(case["latency"])
        flows = []
        for d, f in case["flows"].items():
            w, r = (c, s) if d == "c2s" else (s, c)
            flows.append(Flow("%s/%s" % (ctx.seed, d), w, r, f["n_out"], f["n_err"], rng, f["writers"], f["readers"],
                              f["maxread"]))
        for f in flows:
            f.start()
        ok = True
        for f in flows:
            for t in f.threads:
                t.join(150)
                if t.is_alive():
                    ok = False
        p.link.set_latency(0)
        p.wait_quiet(0.05, 5)
        for f in flows:
            if f.errors:
                ok = False
        if not ok:
            # liveness is C20's business; here an unfinished transfer only means the sums are partial
            ctx.inconclusive("C19 transfer did not finish: %s" % [f.errors for f in flows])
        n = judge(ctx, p.rec, ("c", "s"), case)
        ctx.count("pair_cases")
        if ok:
            for f in flows:
                if bytes(f.got_out) == f.out and bytes(f.got_err) == f.err:
                    ctx.count("transfers_complete")
    finally:
        p.close()


# ---------------------------------------------------------------------------
# attacker-offered extremes
def gen_attack(rng, idx):
    w0 = [0, 0, 1, 100, 4095, 32768, (1 << 32) - 1][idx % 7] if idx < 14 else rng.choice((0, 1, 63, 64, 65, 5000, 32768))
    p0 = [0, 1, 64, 100, 4095, 4096, 4097, 5000, (1 << 32) - 1][idx % 9] if idx < 18 else rng.choice(
        (0, 1, 63, 64, 65, 4031, 4032, 4095, 4096, 4160, 32768, (1 << 31)))
    return dict(kind="attacker", role=rng.choice(("client", "server")), w0=w0, p0=p0,
                total=rng.choice((1, 5000, 20000, 70000)), stderr=rng.random() < 0.4,
                adjusts=rng.choice(("small", "mixed", "big")), paced=rng.random() < 0.5, latency=rng.choice((0, 0, 0.002)),
                inbound=rng.choice((0, 3000, 50000)), vwin=rng.choice((32768, 65535)))


def run_attack_case(ctx, case, rng):
    role = case["role"]
    vkw = dict(default_window_size=case["vwin"], default_max_packet_size=32768)
    a = Attacker(role=role, rng=rng, victim_kw=vkw)
    cm.watch(a.victim, a.rec, "v")
    holder = {}
    try:
        if not a.start(auth=True):
            ctx.inconclusive("attacker handshake failed")
            return
        a.takeover()
        aid = 1000 + rng.randrange(1000)
        if role == "client":
            a.send(cm.OPEN, "session", aid, case["w0"], case["p0"])
            r = a.wait_inbox(lambda e: e["type"] == cm.OPEN_OK, 20)
            if r is None:
                ctx.inconclusive("victim did not confirm the attacker's channel")
                return
            vid = cm.parse(bytes([cm.OPEN_OK]) + r["payload"])["sender"]
            vchan = a.victim.accept(20)
        else:
            def opener():
                try:
                    holder["chan"] = a.victim.open_session(window_size=case["vwin"], timeout=30)
                except Exception as e:
                    holder["exc"] = e
            th = threading.Thread(target=opener, daemon=True)
            th.start()
            r = a.wait_inbox(lambda e: e["type"] == cm.OPEN, 20)
            if r is None:
                ctx.inconclusive("victim client sent no CHANNEL_OPEN")
                return
            vid = cm.parse(bytes([cm.OPEN]) + r["payload"])["sender"]
            a.send(cm.OPEN_OK, vid, aid, case["w0"], case["p0"])
            th.join(30)
            vchan = holder.get("chan")
        if vchan is None:
            ctx.inconclusive("no victim channel: %r" % holder.get("exc"))
            return
        vchan.settimeout(120)
        a.link.set_latency(case["latency"])
        total = case["total"]
        if case["adjusts"] == "small":
            total = min(total, 300)  # thousands of 1-byte credits would only repeat the same step
        data = cm.stream_bytes("atk", "err" if case["stderr"] else "out", total)
        errs = []

        def writer():
            import random
            try:
                cm.send_all(vchan, data, random.Random(rng.getrandbits(32)), stderr=case["stderr"])
            except Exception as e:
                errs.append(repr(e))

        wt = threading.Thread(target=writer, daemon=True)
        wt.start()
        credit = case["w0"]

        def received():
            tot = 0
            with a.inbox_cv:
                for e in a.inbox:
                    if e["type"] in (cm.DATA, cm.EXT):
                        tot += cm.parse(bytes([e["type"]]) + e["payload"])["len"]
            return tot

        end = time.monotonic() + 120
        while time.monotonic() < end:
            want = min(credit, total)
            if case["paced"] and not pair.wait_for(lambda: received() >= want, 60, 0.001):
                break
            if received() >= total:
                break
            adj = dict(small=rng.choice((0, 1, 2, 63, 64, 65)), mixed=rng.choice((0, 1, 100, 4032, 4096, 20000)),
                       big=rng.choice((32768, 1 << 20, (1 << 32) - 1)))[case["adjusts"]]
            a.send(cm.ADJUST, vid, adj)
            credit += adj
            ctx.count("attacker_adjusts_sent")
            if not case["paced"] and credit >= total:
                pair.wait_for(lambda: received() >= total, 60, 0.001)
        wt.join(60)
        if wt.is_alive() or errs:
            ctx.inconclusive("victim writer did not finish under attacker-paced credit: %s" % errs)
        # inbound phase: the attacker ignores the victim's window; the victim application reads
        inbound = case["inbound"]
        if inbound:
            got = [0]

            def reader():
                dl = time.monotonic() + 60
                while got[0] < inbound_app and time.monotonic() < dl:
                    if vchan.recv_ready():
                        got[0] += len(vchan.recv(rng.randint(1, 9000)))
                    elif vchan.recv_stderr_ready():
                        got[0] += len(vchan.recv_stderr(rng.randint(1, 9000)))
                    else:
                        time.sleep(0.0005)

            inbound_app = 0
            plan = []
            left = inbound
            while left > 0:
                k = min(left, rng.randint(1, 8000))
                code = rng.choice((None, None, 1, 1, 2, 0))
                plan.append((code, k))
                if code in (None, 1):
                    inbound_app += k
                left -= k
            rt = threading.Thread(target=reader, daemon=True)
            rt.start()
            for code, k in plan:
                blob = bytes(k)
                if code is None:
                    a.send(cm.DATA, vid, blob)
                else:
                    a.send(cm.EXT, vid, code, blob)
            rt.join(90)
            if rt.is_alive() or got[0] < inbound_app:
                ctx.inconclusive("victim reader did not get the attacker's data")
        a.link.set_latency(0)
        pair.wait_for(lambda: a.link.quiescent(0.05), 5)
        judge(ctx, a.rec, ("v",), case)
        ctx.count("attacker_cases")
        if case["p0"] < 4096:
            ctx.count("attacker_cases_packet_below_floor")
        if case["w0"] == 0:
            ctx.count("attacker_cases_window_zero")
    finally:
        a.close()


# ---------------------------------------------------------------------------
# text payloads: the limits are in bytes, whatever the type handed to send()
TEXT_ALPHABET = "a\u00e9\u4e2d\U0001f600\u07ff\u0800z"


def run_text(ctx, case, rng):
    import random as _r
    w, pk = case["window"], case["packet"]
    p = pair.Pair(rng=rng, server_kw=dict(default_window_size=w, default_max_packet_size=pk))
    cm.watch(p.tc, p.rec, "c")
    cm.watch(p.ts, p.rec, "s")
    try:
        if not p.start() or not p.auth():
            ctx.inconclusive("handshake failed (text stratum)")
            return
        cm.diverge_ids(p, rng)
        c, s = p.session(window_size=w, max_packet_size=pk)
        x, y = (c, s) if case["role"] == "c" else (s, c)
        rr = _r.Random(case["seed"])
        if case["payload"] == "nonascii-str":
            payload = "".join(rr.choice(TEXT_ALPHABET) for _ in range(case["chars"]))
        else:
            payload = "".join(rr.choice("abc xyz") for _ in range(case["chars"]))
        expect = payload.encode("utf-8")
        rd = cm.PollReader(y, rng.getrandbits(32), case["read"], keep=True).start()
        x.settimeout(60)
        errs = []

        def call():
            try:
                if case["api"] == "sendall":
                    (x.sendall_stderr if case["stderr"] else x.sendall)(payload)
                else:
                    fn = x.send_stderr if case["stderr"] else x.send
                    rest = payload
                    while rest:
                        k = fn(rest)
                        if k <= 0:
                            raise EOFError("send returned %r" % k)
                        rest = rest[k:]
            except Exception as e:
                errs.append(repr(e))

        t = threading.Thread(target=call, daemon=True)
        t.start()
        t.join(120)
        key = "err" if case["stderr"] else "out"
        pair.wait_for(lambda: rd.got[key] >= len(expect), 20, 0.002)
        p.wait_quiet(0.05, 5)
        rd.settle()
        rd.stop()
        if t.is_alive() or errs:
            ctx.inconclusive("text transfer did not finish: %s" % errs)
        judge(ctx, p.rec, ("c", "s"), case)
        ctx.count("text_cases")
        ctx.count("text_payload_bytes", len(expect))
        if bytes(rd.data[key]) == expect:
            ctx.count("text_payloads_delivered")
    finally:
        p.close()


# ---------------------------------------------------------------------------
# many tiny sends on one thread racing tiny adjusts delivered by the transport thread
def run_adjust_race(ctx, case, rng):
    """The out-window is updated by the application thread (charge in Channel._send's critical section) and by the
    transport thread (_window_adjust).  A hostile peer grants window in 1-3 byte steps while one application thread
    sends byte by byte and tries to send more than was ever granted; the interpreter's switch interval is lowered
    in some cases (more thread switches inside the critical sections).  Ledger: bytes sent <= initial window + adjusts read."""
    import sys
    role = case["role"]
    a = Attacker(role=role, rng=rng)
    cm.watch(a.victim, a.rec, "v")
    holder = {}
    old_si = sys.getswitchinterval()
    try:
        if not a.start(auth=True):
            ctx.inconclusive("attacker handshake failed (adjust race)")
            return
        a.takeover()
        aid = 555
        if role == "client":
            a.send(cm.OPEN, "session", aid, case["w0"], 32768)
            r = a.wait_inbox(lambda e: e["type"] == cm.OPEN_OK, 20)
            if r is None:
                ctx.inconclusive("no confirmation (adjust race)")
                return
            vid = cm.parse(bytes([cm.OPEN_OK]) + r["payload"])["sender"]
            vchan = a.victim.accept(20)
        else:
            th = threading.Thread(target=lambda: holder.__setitem__("chan", a.victim.open_session(timeout=30)), daemon=True)
            th.start()
            r = a.wait_inbox(lambda e: e["type"] == cm.OPEN, 20)
            if r is None:
                ctx.inconclusive("no CHANNEL_OPEN (adjust race)")
                return
            vid = cm.parse(bytes([cm.OPEN]) + r["payload"])["sender"]
            a.send(cm.OPEN_OK, vid, aid, case["w0"], 32768)
            th.join(30)
            vchan = holder.get("chan")
        if vchan is None:
            ctx.inconclusive("no victim channel (adjust race)")
            return
        vchan.settimeout(1.0)
        done = threading.Event()
        sent = [0]

        def writer():
            fn = vchan.send_stderr if case["stderr"] else vchan.send
            try:
                while sent[0] < case["attempt"]:
                    k = fn(b"\x2a" * case["chunk"])
                    if k <= 0:
                        break
                    sent[0] += k
            except Exception:
                pass  # window exhausted for good (socket.timeout): expected end
            done.set()

        sys.setswitchinterval(case["switch"])
        wt = threading.Thread(target=writer, daemon=True)
        wt.start()
        granted = 0
        for k in range(case["adjusts"]):
            adj = rng.choice((1, 1, 2, 3))
            a.send(cm.ADJUST, vid, adj)
            granted += adj
        sys.setswitchinterval(old_si)
        wt.join(60)
        if wt.is_alive():
            ctx.inconclusive("adjust-race writer did not end")
            return
        pair.wait_for(lambda: a.link.quiescent(0.05), 5)
        judge(ctx, a.rec, ("v",), case)
        ctx.count("adjust_race_cases")
        ctx.count("adjust_race_adjusts_read", len(a.victim_msgs("in", (cm.ADJUST,))))
        ctx.count("adjust_race_sends", len(a.victim_msgs("out", (cm.DATA, cm.EXT))))
        if sent[0] == case["w0"] + granted:
            ctx.count("adjust_race_window_used_exactly")
    finally:
        sys.setswitchinterval(old_si)
        a.close()


# ---------------------------------------------------------------------------
# extended data of non-stderr type codes mixed with stderr and normal data
EXT_CODES = (0, 1, 2, 7, 0xFFFFFFFF)
_T1 = bytes(0x80 | (i & 0x3F) for i in range(256))  # type-1 payload alphabet 0x80-0xBF
_TX = bytes(0xC0 | (i & 0x3F) for i in range(256))  # other type codes: 0xC0-0xFF
_T1_ONLY = bytes(range(0x80, 0xC0))
_TX_ONLY = bytes(range(0xC0, 0x100))


def gen_exttypes(rng, idx):
    w = (32768, 65536)[idx % 2]
    thr = w // 10
    mode = ("stderr_read", "not_read", "combine", "combine_midway")[idx // 2 % 4]
    sizes = ("below", "above", "mixed")[idx // 8 % 3]
    plan = []
    total = 0
    cap = rng.choice((w // 2, w, 2 * w))
    while total < cap:
        kind = rng.choice(("data", "ext1", "ext1", "extx", "extx", "extx"))
        if sizes == "below" or (sizes == "mixed" and rng.random() < 0.6):
            n = rng.choice((1, 2, 100, thr // 3, thr - 1, thr))
        else:
            n = rng.choice((thr + 1, thr + 100, 2 * thr, 9000))
        code = None if kind == "data" else 1 if kind == "ext1" else rng.choice((0, 2, 7, 0xFFFFFFFF))
        plan.append((code, n))
        total += n
    return dict(kind="exttypes", window=w, mode=mode, sizes=sizes, plan=plan, role=rng.choice(("client", "server")),
                maxread=rng.choice((50, 1000, 40000)))


def run_exttypes(ctx, case, rng):
    role = case["role"]
    a = Attacker(role=role, rng=rng, victim_kw=dict(default_window_size=case["window"], default_max_packet_size=32768))
    cm.watch(a.victim, a.rec, "v")
    holder = {}
    try:
        if not a.start(auth=True):
            ctx.inconclusive("attacker handshake failed (exttypes)")
            return
        a.takeover()
        aid = 31337
        if role == "client":
            a.send(cm.OPEN, "session", aid, 1 << 20, 32768)
            r = a.wait_inbox(lambda e: e["type"] == cm.OPEN_OK, 20)
            if r is None:
                ctx.inconclusive("no confirmation (exttypes)")
                return
            vid = cm.parse(bytes([cm.OPEN_OK]) + r["payload"])["sender"]
            vchan = a.victim.accept(20)
        else:
            th = threading.Thread(target=lambda: holder.__setitem__("chan", a.victim.open_session(
                window_size=case["window"], max_packet_size=32768, timeout=30)), daemon=True)
            th.start()
            r = a.wait_inbox(lambda e: e["type"] == cm.OPEN, 20)
            if r is None:
                ctx.inconclusive("no CHANNEL_OPEN (exttypes)")
                return
            vid = cm.parse(bytes([cm.OPEN]) + r["payload"])["sender"]
            a.send(cm.OPEN_OK, vid, aid, 1 << 20, 32768)
            th.join(30)
            vchan = holder.get("chan")
        if vchan is None:
            ctx.inconclusive("no victim channel (exttypes)")
            return
        mode = case["mode"]
        if mode == "combine":
            vchan.set_combine_stderr(True)
        got_out, got_err = bytearray(), bytearray()
        stop = threading.Event()
        idle = [0]
        errs = []

        def reader():
            rr = __import__("random").Random(rng.getrandbits(32))
            try:
                while not stop.is_set():
                    did = False
                    if vchan.recv_ready():
                        got_out.extend(vchan.recv(rr.randint(1, case["maxread"])))
                        did = True
                    if mode == "stderr_read" and vchan.recv_stderr_ready():
                        got_err.extend(vchan.recv_stderr(rr.randint(1, case["maxread"])))
                        did = True
                    if not did:
                        idle[0] += 1
                        time.sleep(0.0005)
            except Exception as e:
                errs.append(repr(e))

        rt = threading.Thread(target=reader, daemon=True)
        rt.start()
        want_out, want_err = bytearray(), bytearray()
        n_x = 0
        pos = dict(out=0, err=0)
        src_out = cm.stream_bytes("xt", "out", sum(n for c, n in case["plan"] if c is None))
        src_err = cm.stream_bytes("xt", "err", sum(n for c, n in case["plan"] if c == 1)).translate(_T1)
        for k, (code, n) in enumerate(case["plan"]):
            if mode == "combine_midway" and k == len(case["plan"]) // 2:
                vchan.set_combine_stderr(True)
            if code is None:
                b = src_out[pos["out"]:pos["out"] + n]
                pos["out"] += n
                want_out += b
                a.send(cm.DATA, vid, b)
            elif code == 1:
                b = src_err[pos["err"]:pos["err"] + n]
                pos["err"] += n
                want_err += b
                a.send(cm.EXT, vid, 1, b)
            else:
                a.send(cm.EXT, vid, code, bytes(n).translate(_TX))
                n_x += n
                ctx.count("ext_msgs_non_stderr_type")
                if n <= case["window"] // 10:
                    ctx.count("ext_msgs_non_stderr_type_below_threshold")
        if not a.probe_alive(30):
            ctx.inconclusive("victim stopped answering (exttypes)")
            return
        # reader drained: nothing readable and two idle rounds
        def drained():
            return not vchan.recv_ready() and not (mode == "stderr_read" and vchan.recv_stderr_ready())
        i0 = None
        ok = False
        end = time.monotonic() + 60
        while time.monotonic() < end:
            if drained() and a.link.quiescent(0.05):
                if i0 is None:
                    i0 = idle[0]
                elif idle[0] >= i0 + 3:
                    ok = True
                    break
            else:
                i0 = None
            time.sleep(0.002)
        stop.set()
        rt.join(10)
        if not ok or errs:
            ctx.inconclusive("reader did not drain (exttypes): %s" % errs)
            return
        pair.wait_for(lambda: a.link.quiescent(0.05), 5)
        judge(ctx, a.rec, ("v",), dict(kind="exttypes", window=case["window"], mode=mode, sizes=case["sizes"], role=role))
        ctx.count("exttypes_cases")
        ctx.count("exttypes_discarded_bytes", n_x)
        desc = dict(case=dict(case, plan=case["plan"][:12]), discarded=n_x)
        rs = bytes(got_err)
        ro = bytes(got_out)
        leak = len(rs.translate(None, bytes(range(0, 0xC0)))) + len(ro.translate(None, bytes(range(0, 0xC0))))
        if leak:
            ctx.violation("bytes of a non-stderr extended data type delivered to the application",
                          "%d bytes sent with data_type_code != 1 came out of recv/recv_stderr" % leak, desc)
        if mode == "stderr_read":
            ctx.count("stderr_bytes_read_back", len(rs))
            if rs.translate(None, _TX_ONLY) != bytes(want_err):
                ctx.violation("recv_stderr stream differs from the type-1 extended data sent",
                              "stderr read back is not exactly the type-1 bytes, in order (%d read, %d sent)" % (
                                  len(rs), len(want_err)), desc)
            if ro.translate(None, _TX_ONLY) != bytes(want_out):
                ctx.violation("recv stream differs from the data sent", "stdout read back differs", desc)
        elif mode == "not_read":
            ctx.count("stderr_left_unread_cases")
            if len(vchan.in_stderr_buffer) != len(want_err):
                ctx.violation("stderr buffer holds bytes that are not type-1 extended data",
                              "at quiescence in_stderr_buffer holds %d bytes, %d type-1 bytes were sent and none read" % (
                                  len(vchan.in_stderr_buffer), len(want_err)), desc)
        else:
            ctx.count("combined_cases")
            low, high = cm.split_streams(ro)
            t1 = high.translate(None, _TX_ONLY)
            rest = bytes(vchan.in_stderr_buffer._buffer) if mode == "combine_midway" else b""
            if low != bytes(want_out) or t1 + rest.translate(None, _TX_ONLY) != bytes(want_err):
                ctx.violation("combined stream does not carry exactly the data and the type-1 extended data sent",
                              "combined read-back: %d stdout (%d sent), %d stderr (%d sent)" % (
                                  len(low), len(want_out), len(t1) + len(rest), len(want_err)), desc)
    finally:
        a.close()


# ---------------------------------------------------------------------------
# two readers on one channel under the preemption engine (vf.sched)
def run_preempt(ctx, rng):
    """recv and recv_stderr from two application threads on one real channel, every single-preemption
    schedule at statement granularity over _check_add_window / recv / recv_stderr plus random
    perturbation.  One reader crosses the 10 % threshold, the other consumes a little more; the receiver
    clause is judged from the tap at quiescence (adjusts sent <= bytes the application read)."""
    from paramiko.channel import Channel
    from vf import sched

    W = 32768
    thr = W // 10
    plans = []  # (variant, Plan)
    for variant in ("recv-crosses", "stderr-crosses"):
        for order in (["A", "B"], ["B", "A"]):
            plans.append((variant, sched.Plan(order=order), True))
    todo = []
    with sched.Engine(sched.functions_of(Channel._check_add_window, Channel.recv, Channel.recv_stderr), name="vf.c19") as eng:
        p = pair.Pair(rng=rng)
        cm.watch(p.tc, p.rec, "c")
        cm.watch(p.ts, p.rec, "s")
        if not p.start() or not p.auth():
            ctx.inconclusive("handshake failed (preemption stratum)")
            return
        cm.diverge_ids(p, rng)
        keep = []

        def one(variant, plan):
            c, s = p.session(window_size=W)
            keep.append((c, s))
            big, small = thr + 24, 100
            if variant == "recv-crosses":
                s.send(b"\x01" * big)
                s.send_stderr(b"\x81" * small)
            else:
                s.send_stderr(b"\x81" * big)
                s.send(b"\x01" * small)
            want_out, want_err = (big, small) if variant == "recv-crosses" else (small, big)
            if not pair.wait_for(lambda: len(c.in_buffer) == want_out and len(c.in_stderr_buffer) == want_err, 20, 0.001):
                ctx.inconclusive("data did not arrive for a preemption run")
                return None
            crossing = c.recv if variant == "recv-crosses" else c.recv_stderr
            other = c.recv_stderr if variant == "recv-crosses" else c.recv
            crossing(thr - 6)  # below the threshold: in_window_sofar == thr - 6, no adjust yet
            if c.in_window_sofar != thr - 6:
                ctx.inconclusive("unexpected in_window_sofar before a preemption run")
                return None
            run = eng.execute([("A", lambda: crossing(30)), ("B", lambda: other(small))], plan)
            if run.hung or run.excs or run.harness_errors:
                ctx.inconclusive("preemption run did not end cleanly: %s %s" % (run.excs, run.harness_errors))
                return None
            ctx.count("preempt_runs")
            if plan.park is not None and run.park_reached:
                ctx.count("preempt_parks_reached")
                if any(q.endswith("_check_add_window") for r, q, l in run.during_park):
                    ctx.count("preempt_other_reader_in_check_add_window_during_park")
            seen_iids.add(run.iid)
            c.close()
            return run

        seen_iids = set()
        try:
            counts = {}
            for variant, plan, serial in plans:
                run = one(variant, plan)
                if run is not None:
                    counts[(variant, tuple(plan.order))] = dict(run.counts)
            idx = 0
            for (variant, order), cnt in sorted(counts.items()):
                for pl in sched.Engine.sweep_plans(list(order), cnt):
                    if ctx.mine(idx):
                        one(variant, pl)
                    idx += 1
            ctx.note("c19_single_preemption_plans", idx)
            for k in range(ctx.pick(6, 60)):
                variant = ("recv-crosses", "stderr-crosses")[k % 2]
                one(variant, sched.Plan(perturb=dict(seed="%d/%d/%d" % (ctx.seed, ctx.shard, k), prob=0.5)))
            p.wait_quiet(0.05, 5)
            case = dict(kind="two-readers-preempted", window=W, plans=idx)
            judge(ctx, p.rec, ("c",), case)
            ctx.count("preempt_distinct_interleavings", len(seen_iids))
            ctx.case(("preempt", ctx.shard, sorted(seen_iids)), sample=case)
        finally:
            p.close()


def run(ctx):
    cm.install()
    rng = ctx.rng
    ctx.guard(run_preempt, ctx, rng)
    for i in range(ctx.pick(3, 16)):
        j = i * ctx.nshards + ctx.shard
        case = dict(kind="text-payload", payload=("nonascii-str", "nonascii-str", "ascii-str")[j % 3], role="cs"[j % 2],
                    api=("sendall", "send")[j // 2 % 2], stderr=j // 4 % 2 == 1, window=(32768, 65535, 1 << 20)[j // 3 % 3],
                    packet=(4096, 32768)[j // 2 % 2], chars=(500, 20000, 60000)[j % 3 if j % 3 else (j // 3) % 3], read=(700, 40000)[j % 2],
                    seed=j)
        before = ctx.counters.get("text_cases", 0)
        ctx.guard(run_text, ctx, case, rng)
        ctx.case(tuple(sorted(case.items())), sample=case if i == 0 else None, nontrivial=ctx.counters.get("text_cases", 0) > before)
    for i in range(ctx.pick(2, 12)):
        j = i * ctx.nshards + ctx.shard
        adj = ctx.pick(800, 3000)
        case = dict(kind="tiny-sends-vs-tiny-adjusts", role=("client", "server")[j % 2], w0=(0, 1, 50)[j % 3], adjusts=adj,
                    chunk=(1, 1, 2)[j % 3], stderr=j % 4 == 3, attempt=4 * adj,
                    switch=(0.005, 0.0005, 0.00005)[j // 2 % 3])
        before = ctx.counters.get("adjust_race_cases", 0)
        ctx.guard(run_adjust_race, ctx, case, rng)
        ctx.case(tuple(sorted(case.items())) + (i,), sample=case if i == 0 else None,
                 nontrivial=ctx.counters.get("adjust_race_cases", 0) > before)
    for i in range(ctx.pick(6, 36)):
        case = gen_exttypes(rng, i * ctx.nshards + ctx.shard)
        before = ctx.counters.get("exttypes_cases", 0)
        ctx.guard(run_exttypes, ctx, case, rng)
        ctx.case(("exttypes", case["window"], case["mode"], case["sizes"], case["role"], len(case["plan"]), i),
                 sample=dict(case, plan=case["plan"][:8]) if i == 0 else None,
                 nontrivial=ctx.counters.get("exttypes_cases", 0) > before)
    n_pair = ctx.pick(10, 60)
    n_att = ctx.pick(8, 40)
    dl = ctx.deadline(30, 400)
    for i in range(n_pair):
        if time.time() > dl:
            break
        case = gen_case(rng, ctx.quick, i + ctx.shard)
        before = ctx.counters.get("data_msgs_out", 0)
        ctx.guard(run_pair_case, ctx, case, rng)
        ctx.case(("pair", sorted(case.items(), key=str)), sample=case if i < 2 else None,
                 nontrivial=ctx.counters.get("data_msgs_out", 0) > before)
    for i in range(n_att):
        if time.time() > dl:
            break
        case = gen_attack(rng, i * ctx.nshards + ctx.shard)
        before = ctx.counters.get("data_msgs_out", 0)
        ctx.guard(run_attack_case, ctx, case, rng)
        ctx.case(("att", sorted(case.items(), key=str)), sample=case if i < 1 else None,
                 nontrivial=ctx.counters.get("data_msgs_out", 0) > before)
    ctx.require("data_msgs_out", 500)
    ctx.require("adjusts_read", 50)
    ctx.require("adjusts_sent", 50)
    ctx.require("consume_events", 500)
    ctx.require("window_exactly_exhausted", 5)
    ctx.require("attacker_cases", 8)
    ctx.require("transfers_complete", 10)
    ctx.require("text_cases", 20)
    ctx.require("text_payload_bytes", 500000)
    ctx.require("text_payloads_delivered", 20)
    ctx.require("adjust_race_cases", 12)
    ctx.require("adjust_race_adjusts_read", 8000)
    ctx.require("adjust_race_sends", 6000)
    ctx.require("exttypes_cases", 36)
    ctx.require("ext_msgs_non_stderr_type_below_threshold", 200)
    ctx.require("exttypes_discarded_bytes", 200000)
    ctx.require("stderr_bytes_read_back", 20000)
    ctx.require("stderr_left_unread_cases", 8)
    ctx.require("combined_cases", 16)
    ctx.require("preempt_runs", 60)
    ctx.require("preempt_parks_reached", 30)
    ctx.require("preempt_other_reader_in_check_add_window_during_park", 10)
