"""C02 — tampered encrypted traffic is never accepted as different data."""
import time

import paramiko
from paramiko import util as putil

from vf import packetbench as pb
from vf import core

META = dict(
    title="tampered ciphertext is never accepted as different data",
    level="fault_enumeration",
    design_ref="§3 C02",
    technique="fault enumeration over recorded ciphertext streams replayed into freshly keyed real Packetizers; "
              "oracle: delivered list is an unmodified prefix of the sent list, then failure or end-of-stream; "
              "authentication monitor: no packet with a modified byte is delivered; runtime contract on "
              "util.constant_time_bytes_eq",
    text="For every cipher x MAC pair the tree offers (classic MAC-over-plaintext, -etm and AES-GCM framing), with and "
         "without compression and with a mid-stream key switch (the receiver's own sending direction keyed with an "
         "independently drawn suite: all inbound x outbound framing-family pairs), a real keyed sender records a stream of 3-8 messages. "
         "Every byte position of the encrypted part (thorough: the whole stream; quick: every position of the first two "
         "encrypted packets and a 10% sample of the rest) is subjected to: one-bit flip (thorough: all eight bits in the "
         "first two packets), all-bits flip, deletion, insertion of a random byte; plus truncation, whole-packet swap, "
         "drop and replay, and random multi-edits. Each edited stream is fed to a new real Transport/Packetizer keyed "
         "identically (in-band NEWKEYS handled by the real _parse_newkeys) until it fails or runs out of data; about half "
         "of the streams of every framing family are decoded by a receiver in its debugging configuration (DEBUG log "
         "channel + set_hexdump(True)). "
         "Long streams: 800-1500 packets in ONE key epoch (GCM on every shard, etm/classic too) with whole-packet replay / "
         "substitute / swap / drop-a-run edits at distances 1, 2, 255, 256, 257, 512, 768 (counter carries across byte "
         "boundaries). "
         "Deciding oracle: the delivered (type, payload) list must be a prefix of the sent list. Stronger monitor of the "
         "same mechanism: because every byte of an encrypted packet is covered by the MAC/tag in all three framing "
         "modes, no packet that overlaps the first modified byte may be delivered at all (catches truncated or skipped "
         "MAC comparison, which cannot yield different data without a 2^-32..2^-128 forgery). Holds on the executions "
         "produced; fault positions are enumerated completely for the recorded streams, the streams themselves are sampled.",
    note="Receiver failure type is not judged (C38's subject). 'Waits for more data' is observed as end-of-stream on the "
         "bench socket. constant_time_bytes_eq is additionally probed directly with operands of unequal length, which the "
         "packet layer itself never produces.",
    rule="case = (recorded stream, edit operation, position); distinct = hash of the edited stream; an edit that leaves the "
         "stream unchanged is trivial and not counted",
    assumptions=["the sender's stream is a valid stream (C01)", "forging a 96..512-bit MAC or a GCM tag by chance does not happen"],
)


def shards(tier):
    return 8 if tier == "quick" else 16


TIMEOUT = {"quick": 300, "thorough": 1700}


# ---------------------------------------------------------------------------
# contract on the comparison helper the MAC check relies on
# ---------------------------------------------------------------------------
class EqContract:
    def __init__(self, ctx):
        self.ctx = ctx
        self.real = putil.constant_time_bytes_eq
        contract = self

        def constant_time_bytes_eq(a, b):
            r = contract.real(a, b)
            contract.ctx.count("mac_compare_calls_observed")
            if bool(r) != (bytes(a) == bytes(b)):
                contract.report(a, b, r)
            return r

        putil.constant_time_bytes_eq = constant_time_bytes_eq

    def report(self, a, b, r):
        if len(a) != len(b):
            sig = "constant_time_bytes_eq returns %s for operands of different length" % bool(r)
        elif r:
            sig = "constant_time_bytes_eq returns True for different operands of equal length"
        else:
            sig = "constant_time_bytes_eq returns False for equal operands"
        self.ctx.violation(sig, "the MAC comparison helper disagrees with bytes equality", dict(a=bytes(a), b=bytes(b), result=bool(r)))

    def probe(self, rng):
        f = putil.constant_time_bytes_eq
        for _ in range(60):
            n = rng.choice([1, 4, 12, 16, 20, 32, 64])
            a = bytes(rng.getrandbits(8) for _ in range(n))
            k = rng.randrange(n)
            b = bytearray(a)
            b[k] ^= 1 << rng.randrange(8)
            for x, y in ((a, a), (a, bytes(b)), (a, a[:k]), (a[:k], a), (a, a + b"\x00"), (a + bytes(b[:1]), a), (b"", a), (a, b"")):
                self.ctx.count("mac_compare_direct_probes")
                try:
                    f(x, y)
                except Exception as e:
                    self.ctx.violation("constant_time_bytes_eq raised: %s" % core.exc_signature(e), repr(e), dict(a=x, b=y))


# ---------------------------------------------------------------------------
# recorded streams
# ---------------------------------------------------------------------------
BYFAM = pb.suites_by_family()


def record_stream(rng, cipher, mac, comp, role, rekey, quick, k=0):
    # the receiver's own sending direction gets an independent suite; its family cycles with k
    b = pb.Bench(rng, cipher, mac, comp, sender_role=role, strict=rng.random() < 0.25,
                 hash_name=rng.choice(pb.HASHES), rev=pb.draw_reverse(rng, k, BYFAM))
    b.rekey()
    bs = paramiko.Transport._cipher_info[cipher]["block-size"]
    n = rng.randint(3, 5) if quick else rng.randint(3, 8)
    rk_at = rng.randint(2, n - 1) if rekey else None
    for i in range(n):
        if i == rk_at:
            b.rekey()
        r = rng.random()
        if r < 0.5:
            ln = rng.randint(1, 2 * bs)
        elif r < 0.9:
            ln = rng.randint(1, 90)
        else:
            ln = rng.randint(100, 400)
        b.send(pb.rand_payload(rng, ln, comp != "none"))
    return b


class Recorded:
    def __init__(self, b, cipher, mac, comp):
        self.b = b
        self.wire = b.wire()
        self.sent = b.messages
        self.bounds = b.boundaries()
        self.enc0 = self.bounds[1]  # first byte after the clear NEWKEYS packet
        self.head = self.wire[:self.enc0]
        self.region = self.wire[self.enc0:]
        # per encrypted packet: (start, end, framing mode, mac length) relative to region
        self.pk = []
        epochs = b.spec["epochs"]
        for s in b.sent[1:]:
            e = epochs[s["epoch"] - 1]
            mode = pb.framing_mode(e["cipher"], e["mac"]) or "unknown-suite"
            if mode == "gcm":
                ml = pb.GCM_TAG
            elif mode == "unknown-suite":
                ml = paramiko.Transport._mac_info[e["mac"]]["size"]
            else:
                ml = pb.REF_MACS[e["mac"]]["out"]
            st = s["start"] - self.enc0
            self.pk.append((st, st + len(s["wire"]), mode, ml))
        self.sid = core._h(self.wire)
        self.hexdump = False
        self.desc = dict(cipher=cipher, mac=mac, comp=comp, role=b.spec["sender_role"], strict=b.spec["strict"],
                         epochs=len(epochs), messages=len(self.sent), encrypted_bytes=len(self.region))

    def locate(self, off):
        """(index into sent list, mode, region name) of the encrypted packet holding region offset `off`."""
        for i, (s, e, mode, ml) in enumerate(self.pk):
            if off < e:
                if mode in ("etm", "gcm") and off < s + 4:
                    where = "length field"
                elif off >= e - ml:
                    where = "MAC" if mode != "gcm" else "GCM tag"
                else:
                    where = "encrypted body" if mode != "classic" else "encrypted length+body"
                return i + 1, mode, where
        return len(self.pk) + 1, (self.pk[-1][2] if self.pk else "clear"), "bytes after the last packet"


def lcp(a, b):
    n = min(len(a), len(b))
    if a[:n] == b[:n]:
        return n
    lo, hi = 0, n
    while lo < hi:  # binary search on the first mismatch
        mid = (lo + hi + 1) // 2
        if a[:mid] == b[:mid]:
            lo = mid
        else:
            hi = mid - 1
    return lo


def decode(ctx, R, tampered, op):
    """Feed head + tampered region to a fresh receiver and judge."""
    if tampered == R.region:
        ctx.case((R.sid, op), nontrivial=False)
        ctx.count("edits_without_effect")
        return
    ctx.case((R.sid, op, tampered if op.startswith(("insert", "multi", "append")) else None))
    rx = R.b.receiver(hexdump=R.hexdump)
    rx.drain(R.head + tampered)
    ctx.count("tampered_streams_decoded")
    ctx.count("decodes_hexdump_%s" % ("on" if R.hexdump else "off"))
    ctx.count("op_" + op.split(":")[0].split("@")[0])
    got = rx.delivered
    k = lcp(R.region, tampered)
    idx, mode, where = R.locate(k)  # first packet (index in the sent list) not wholly inside the common prefix
    out = rx.outcome
    ctx.count("outcome_" + (out[0] if out[0] != "exc" else type(out[1]).__name__))
    ctx.count("edit_in_%s_%s" % (mode, where.replace(" ", "_").replace("+", "_")))
    opname = op.split(":")[0].split("@")[0]
    if R.hexdump:
        where = where + ", receiver in hexdump/debug mode"
    if got != R.sent[:len(got)]:
        i = next((j for j in range(len(got)) if j >= len(R.sent) or got[j] != R.sent[j]), len(got))
        ctx.violation("tampered stream: receiver delivered data that was not sent (%s framing, edit in %s)"
                      % (mode, where),
                      "delivered list is not a prefix of the sent list",
                      dict(stream=R.desc, op=op, first_modified_offset=k, delivered=len(got), index=i,
                           got=got[i][:64] if i < len(got) else None,
                           sent=R.sent[i][:64] if i < len(R.sent) else None))
        return
    if len(got) > idx:
        ctx.violation("modified packet accepted as authentic (%s framing, edit in %s)" % (mode, where),
                      "a packet overlapping the first modified byte was delivered (content equal to the original)",
                      dict(stream=R.desc, op=op, first_modified_offset=k, packet_index=idx, delivered=len(got)))
        return
    if len(got) < idx:
        ctx.count("delivered_fewer_than_untouched_prefix")  # allowed by the statement; C01's subject
    if out[0] not in ("exc", "eof"):
        ctx.violation("receiver neither failed nor waited after a tampered stream (%s)" % out[0], str(out[1]),
                      dict(stream=R.desc, op=op))


def single_byte_edits(ctx, rng, R, positions, all_bits_upto):
    reg = R.region
    for i in positions:
        ops = []
        if i < all_bits_upto:
            for bit in range(8):
                ops.append(("flip1:%d" % bit, reg[:i] + bytes([reg[i] ^ (1 << bit)]) + reg[i + 1:]))
        else:
            bit = rng.randrange(8)
            ops.append(("flip1:%d" % bit, reg[:i] + bytes([reg[i] ^ (1 << bit)]) + reg[i + 1:]))
        ops.append(("flipall", reg[:i] + bytes([reg[i] ^ 0xFF]) + reg[i + 1:]))
        ops.append(("delete", reg[:i] + reg[i + 1:]))
        ops.append(("insert", reg[:i] + bytes([rng.randrange(256)]) + reg[i:]))
        for op, t in ops:
            decode(ctx, R, t, "%s@%d" % (op, i))
        ctx.count("byte_positions_enumerated")


def structural_edits(ctx, rng, R, quick):
    reg = R.region
    pk = R.pk
    n = len(pk)
    parts = [reg[s:e] for s, e, _, _ in pk]
    cases = []
    for i in range(n):
        cases.append(("drop:%d" % i, b"".join(parts[:i] + parts[i + 1:])))
        cases.append(("replay:%d" % i, b"".join(parts[:i + 1] + [parts[i]] + parts[i + 1:])))
        for j in range(i + 1, n):
            if quick and j > i + 2:
                continue
            q = list(parts)
            q[i], q[j] = q[j], q[i]
            cases.append(("swap:%d,%d" % (i, j), b"".join(q)))
        cases.append(("replay_at_end:%d" % i, reg + parts[i]))
    for cut in (range(1, len(reg)) if not quick else sorted(set(rng.randrange(1, len(reg)) for _ in range(12)))):
        cases.append(("truncate:%d" % cut, reg[:cut]))
    cases.append(("append_garbage", reg + bytes(rng.getrandbits(8) for _ in range(rng.randint(1, 80)))))
    for _ in range(8 if quick else 60):
        t = bytearray(reg)
        for _ in range(rng.randint(2, 5)):
            r = rng.random()
            p = rng.randrange(len(t)) if t else 0
            if r < 0.5 and t:
                t[p] ^= rng.randrange(1, 256)
            elif r < 0.75 and t:
                del t[p]
            else:
                t.insert(p, rng.randrange(256))
        cases.append(("multi", bytes(t)))
    for op, t in cases:
        decode(ctx, R, t, op)


# ---------------------------------------------------------------------------
# long streams in one key epoch: packet-granular edits at distances around the byte boundaries of the counters
# ---------------------------------------------------------------------------
DISTANCES = (1, 2, 255, 256, 257, 512, 768)


def long_stream_edits(ctx, rng, cipher, mac, comp, npk, positions_per_distance):
    """600-1500 packets under ONE key epoch (every payload unique), then for each distance d: replay packet i after
    d packets, substitute packet i+d by packet i, swap i and i+d, drop the run i..i+d-1.  The AEAD invocation counter
    (GCM) / the sequence number in the MAC (classic, etm) must make every one of them fail: a counter whose carry
    across a byte boundary is broken repeats after 256 packets."""
    import struct as _st

    b = pb.Bench(rng, cipher, mac, comp, sender_role=rng.choice(["client", "server"]), strict=rng.random() < 0.25,
                 hash_name=rng.choice(pb.HASHES), rev=pb.draw_reverse(rng, npk, BYFAM))
    b.rekey()
    for i in range(npk):
        b.send(bytes([pb.rand_type(rng)]) + _st.pack(">I", i) + pb.rand_payload(rng, rng.randint(1, 12)))
    R = Recorded(b, cipher, mac, comp)
    R.desc["kind"] = "long stream, one key epoch"
    fam = pb.framing_mode(cipher, mac) or "unknown-suite"
    rx = b.receiver()
    rx.drain(R.wire)
    if rx.delivered == R.sent:
        ctx.count("long_streams_decoding_untampered")
    ctx.count("long_streams_recorded_%s" % fam)
    ctx.count("long_stream_packets", npk)
    ctx.note("long_stream_max_packets_in_one_epoch", max(ctx.notes.get("long_stream_max_packets_in_one_epoch", 0), npk))
    if len(ctx.samples) < 4:
        ctx.case(("long", R.sid), sample=dict(R.desc, packets=npk, distances=list(DISTANCES),
                                              ops="replay-after-d / substitute / swap / drop-run-of-d"))
    parts = [R.region[s_:e_] for s_, e_, _, _ in R.pk]
    n = len(parts)
    for d in DISTANCES:
        if d + 2 >= n:
            continue
        starts = set([rng.randint(0, 20)])
        while len(starts) < positions_per_distance:
            starts.add(rng.randint(0, min(n - d - 2, 300)))
        for i in sorted(starts):
            edits = [
                ("replay_after_%d:%d" % (d, i), parts[:i + d] + [parts[i]] + parts[i + d:]),
                ("substitute_at_%d:%d" % (d, i), parts[:i + d] + [parts[i]] + parts[i + d + 1:]),
                ("swap_at_%d:%d" % (d, i), parts[:i] + [parts[i + d]] + parts[i + 1:i + d] + [parts[i]] + parts[i + d + 1:]),
                ("drop_run_of_%d:%d" % (d, i), parts[:i] + parts[i + d:]),
            ]
            for op, q in edits:
                decode(ctx, R, b"".join(q), op)
                ctx.count("long_stream_edits_distance_%d" % d)
                ctx.count("long_stream_edits_%s" % fam)


def run(ctx):
    rng = ctx.rng
    eq = EqContract(ctx)
    eq.probe(rng)
    suites = pb.offered_suites()
    end = ctx.deadline(200, 400)
    variants = [("none", False)]
    if ctx.quick:
        passes = 1
    else:
        passes = 6
    k = 0
    fam_count = {}
    stopped = False
    for rep in range(passes):
        for (c, m) in suites:
            k += 1
            if not ctx.mine(k):
                continue
            plans = [("none", rep % 2 == 1)]
            # compression and a mid-stream key switch on a rotating subset (all suites over the passes in thorough)
            if (k // ctx.nshards + rep) % 3 == 0 or not ctx.quick:
                plans.append(("zlib", rng.random() < 0.5))
            if (k // ctx.nshards + rep) % 3 == 1:
                plans.append(("none", True))
            for comp, rekey in plans:
                if time.time() > end:
                    stopped = True
                    break
                role = rng.choice(["client", "server"])
                # reverse family cycles per forward family, so every (inbound, outbound) pair is populated evenly
                ff = pb.framing_mode(c, m)
                fam_count[ff] = fam_count.get(ff, 0) + 1
                b = record_stream(rng, c, m, comp, role, rekey, ctx.quick, k=fam_count[ff] + ctx.shard)
                R = Recorded(b, c, m, comp)
                # receiver-side debugging configuration (DEBUG log channel + set_hexdump) as a dimension:
                # alternates within each framing family, the whole enumeration of a stream runs under one setting
                R.hexdump = ((fam_count[ff] + ctx.shard) // 3) % 2 == 1
                ctx.count("streams_%s_hexdump_%s" % (ff, "on" if R.hexdump else "off"))
                # the untampered stream is C01's subject; here a receiver that fails on it is just a
                # receiver that fails: the fault enumeration and its oracles apply unchanged
                rx = b.receiver()
                rx.drain(R.wire)
                if rx.delivered == R.sent:
                    ctx.count("streams_decoding_untampered")
                else:
                    ctx.count("streams_not_decoding_untampered")
                fi = pb.framing_mode(c, m) or "unknown-suite"
                fo = pb.framing_mode(*b.rev) if b.rev else fi
                ctx.count("streams_rx_in_%s_out_%s" % (fi, fo))
                if fi != fo:
                    ctx.count("streams_mixed_family_pairs")
                ctx.count("streams_recorded")
                ctx.count("streams_%s" % (pb.framing_mode(c, m) or "unknown-suite"))
                if len(ctx.samples) < 3:
                    ctx.case(("stream", R.sid), sample=dict(R.desc, ops="flip1/flipall/delete/insert at every position "
                                                               "of the first two encrypted packets (+sample or all of the rest), "
                                                               "drop/replay/swap/truncate/multi"))
                two = R.pk[1][1] if len(R.pk) >= 2 else len(R.region)
                if ctx.quick:
                    rest = [i for i in range(two, len(R.region)) if rng.random() < 0.10]
                    positions = list(range(two)) + rest
                    allbits = 0
                else:
                    positions = list(range(len(R.region)))
                    allbits = two
                single_byte_edits(ctx, rng, R, positions, allbits)
                # insertion after the last byte
                decode(ctx, R, R.region + bytes([rng.randrange(256)]), "insert@%d" % len(R.region))
                ctx.count("first_two_packets_fully_enumerated")
                if not ctx.quick:
                    ctx.count("streams_fully_enumerated")
                structural_edits(ctx, rng, R, ctx.quick)
            if stopped:
                break
        if stopped:
            ctx.count("stopped_on_time_cap")
            break
    # long streams: GCM on every shard (both key sizes over the shards), etm / classic on alternating shards
    plans = []
    if BYFAM["gcm"]:
        plans.append(BYFAM["gcm"][(ctx.shard * 3) % len(BYFAM["gcm"])])
        if not ctx.quick:
            plans.append(rng.choice(BYFAM["gcm"]))
    other = "etm" if ctx.shard % 2 == 0 else "classic"
    if BYFAM[other]:
        plans.append(rng.choice(BYFAM[other]))
    for (c, m) in plans:
        npk = rng.randint(800, 900) if ctx.quick else rng.randint(900, 1500)
        long_stream_edits(ctx, rng, c, m, "none", npk, 2 if ctx.quick else 6)
    for f in pb.FAMILIES:
        if BYFAM[f]:
            ctx.require("long_streams_recorded_%s" % f, 8 if f == "gcm" else 3)
    for d in DISTANCES:
        ctx.require("long_stream_edits_distance_%d" % d, 64)
    ctx.require("long_stream_edits_gcm", 300)
    ctx.require("long_streams_decoding_untampered", 8)
    ctx.require("streams_recorded", len(suites))
    ctx.require("streams_decoding_untampered", len(suites) // 4)
    ctx.require("streams_mixed_family_pairs", len(suites) // 2)
    for f in pb.FAMILIES:
        if BYFAM[f]:
            ctx.require("streams_%s_hexdump_on" % f, 4)
            ctx.require("streams_%s_hexdump_off" % f, 4)
    ctx.require("decodes_hexdump_on", 8000)
    ctx.note("receiver_debug_log_records", pb.debug_records())
    for fi in pb.FAMILIES:
        for fo in pb.FAMILIES:
            if BYFAM[fi] and BYFAM[fo]:
                ctx.require("streams_rx_in_%s_out_%s" % (fi, fo), 3)
    ctx.require("first_two_packets_fully_enumerated", len(suites))
    ctx.require("tampered_streams_decoded", 20000)
    ctx.require("mac_compare_calls_observed", 5000)
    ctx.require("mac_compare_direct_probes", 100)
