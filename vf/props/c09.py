"""C09 — strict kex stops handshake sequence-number manipulation (Terrapin)."""
import threading

import paramiko
from paramiko.message import Message

from vf import core, kexlab, mitm, pair, tap

META = dict(
    title="strict kex: no tolerated message before the first NEWKEYS; seqnos restart at NEWKEYS",
    level="fault_enumeration",
    design_ref="§3 C09",
    technique="plaintext MITM injecting / deleting packets at every position of the initial handshake + victim "
              "wire tap (records read after the offending packet, sequence numbers of the first packet after "
              "every NEWKEYS) + API outcome",
    text="For every kex method, both victim roles and every position before the victim's inbound NEWKEYS "
         "(before KEXINIT ... before NEWKEYS), one packet of type IGNORE, UNIMPLEMENTED, DEBUG, 192 or a second "
         "KEXINIT is injected into the plaintext handshake of two unmodified Transports. With strict kex agreed "
         "the victim's tap must show no message read after the offending packet (for an injection before "
         "KEXINIT: after the KEXINIT that thereby was not the first packet) and the victim must become inactive. "
         "Terrapin shapes (inject IGNORE + delete the first or second encrypted packet after NEWKEYS) and "
         "deletion-only edits must never leave a session on which authentication and a channel round trip work. "
         "Honest strict sessions (0-2 rekeys, either initiator): on both peers and in both directions the first "
         "packet written and the first read attempted after every NEWKEYS carries sequence number 0. When strict "
         "is not agreed nothing is asserted (exception types are only counted). Control: IGNORE sent by the peer "
         "inside a *re*-exchange is counted as tolerated, not judged.",
    note="The injection space (position x type x role x kex) is enumerated completely under strict/strict in both "
         "tiers; cipher/MAC modes of the Terrapin shapes and the non-strict combinations are sampled in quick and "
         "enumerated in thorough. Only single-packet edits are covered.",
    rule="case = (stratum, kex, victim role, position, injected type / deleted packet, strict flags, cipher, mac); "
         "distinct = that tuple; trivial = the edit never reached the victim (rule did not fire)",
    assumptions=["one send() on the link is one SSH packet, so plaintext packets can be re-framed and encrypted "
                 "packets dropped whole"],
)

TYPES = (2, 3, 4, 192, 20)
TYPE_NAME = {2: "IGNORE", 3: "UNIMPLEMENTED", 4: "DEBUG", 192: "type-192", 20: "KEXINIT"}
# service / authentication / connection-layer messages: none of them is a key-exchange message either
UPPER_TYPES = (5, 6, 50, 51, 52, 53, 60, 61, 80, 81, 82, 90, 91, 92, 93, 94, 95, 96, 97, 98, 99, 100)
TYPE_NAME.update({5: "SERVICE_REQUEST", 6: "SERVICE_ACCEPT", 50: "USERAUTH_REQUEST", 51: "USERAUTH_FAILURE",
                  52: "USERAUTH_SUCCESS", 53: "USERAUTH_BANNER", 60: "USERAUTH_PK_OK", 61: "USERAUTH_INFO_RESPONSE",
                  80: "GLOBAL_REQUEST", 81: "REQUEST_SUCCESS", 82: "REQUEST_FAILURE", 90: "CHANNEL_OPEN",
                  91: "CHANNEL_OPEN_CONFIRMATION", 92: "CHANNEL_OPEN_FAILURE", 93: "CHANNEL_WINDOW_ADJUST",
                  94: "CHANNEL_DATA", 95: "CHANNEL_EXTENDED_DATA", 96: "CHANNEL_EOF", 97: "CHANNEL_CLOSE",
                  98: "CHANNEL_REQUEST", 99: "CHANNEL_SUCCESS", 100: "CHANNEL_FAILURE"})


def _u32(*v):
    import struct

    return b"".join(struct.pack(">I", x) for x in v)


_S = mitm.ssh_string
UPPER_PAYLOAD = {
    5: _S("ssh-userauth"), 6: _S("ssh-userauth"),
    50: _S("u") + _S("ssh-connection") + _S("none"), 51: _S("password") + b"\x00", 52: b"", 53: _S("hello") + _S(""),
    60: _S("ssh-ed25519") + _S(b"x"), 61: _u32(0),
    80: _S("vf@verif") + b"\x01", 81: b"", 82: b"",
    90: _S("session") + _u32(0, 2097152, 32768), 91: _u32(0, 0, 2097152, 32768), 92: _u32(0, 1) + _S("no") + _S(""),
    93: _u32(0, 1024), 94: _u32(0) + _S("data"), 95: _u32(0, 1) + _S("data"), 96: _u32(0), 97: _u32(0),
    98: _u32(0) + _S("shell") + b"\x01", 99: _u32(0), 100: _u32(0),
}
MODES = (
    ("aes128-ctr", "hmac-sha2-256"),
    ("aes256-cbc", "hmac-sha2-256-etm@openssh.com"),
    ("aes128-cbc", "hmac-sha1"),
    ("aes128-gcm@openssh.com", "hmac-sha2-256"),
    ("aes256-ctr", "hmac-sha2-512-etm@openssh.com"),
)
OK_EXC = ("SSHException", "MessageOrderError", "EOFError", "IncompatiblePeer", "ConnectionResetError", "timeout",
          "OSError", "NoneType", "BadAuthenticationType", "AuthenticationException")


def shards(tier):
    return 8 if tier == "quick" else 16


TIMEOUT = {"quick": 300, "thorough": 1500}


def payload_for(ptype, original):
    if ptype == 2:
        return mitm.ignore_payload(b"vf")
    if ptype == 3:
        return mitm.unimplemented_payload(0)
    if ptype == 4:
        return mitm.debug_payload(b"vf")
    if ptype == 20:
        return None  # filled in from the sender's own KEXINIT
    if ptype in UPPER_PAYLOAD:
        return bytes([ptype]) + UPPER_PAYLOAD[ptype]
    return mitm.unknown_payload(ptype)


# ---- reference handshake: how many plaintext packets does each direction carry? ----------------
_ref = {}


def reference(ctx, kex):
    """plaintext message types per direction up to and including NEWKEYS, plus the KEXINIT payloads."""
    if kex in _ref:
        return _ref[kex]
    lab = kexlab.Lab(ctx.rng, kex, "ssh-ed25519", with_mitm=True)
    try:
        if not lab.start(timeout=60):
            raise RuntimeError("reference handshake for %s failed: %r" % (kex, lab.pair.client_exc))
        r = {}
        for d in ("ab", "ba"):
            types = lab.mitm.plain_types(d)
            if not types or types[-1] != 21 or types[0] != 20:
                raise RuntimeError("unexpected plaintext sequence %r for %s %s" % (types, kex, d))
            r[d] = types
        _ref[kex] = r
        return r
    finally:
        lab.close()


MARKERS = ("first", "middle", "last", "twice")


def odd_marker(t, pos, log=None):
    """Make transport `t` (the victim's *peer*) list its kex-strict marker at another position of the
    kex_algorithms name-list: first, middle, last, or twice (first and last).  The KEXINIT is rewritten
    before it is sent *and* in the copy the sender keeps for the exchange hash, so the handshake stays
    consistent; the order of the real algorithm names is unchanged."""
    orig = t._send_message

    def send(m, _o=orig):
        raw = m.asbytes()
        if raw[:1] == b"\x14":
            (first,), _rest = kexlab.sshsig.read_strings(raw[17:], 1)
            names = first.decode().split(",")
            marks = [n for n in names if n.startswith("kex-strict-")]
            if marks:
                rest = [n for n in names if not n.startswith("kex-strict-")]
                mk = marks[0]
                if pos == "first":
                    new = [mk] + rest
                elif pos == "middle":
                    h = max(1, len(rest) // 2)
                    new = rest[:h] + [mk] + rest[h:]
                elif pos == "last":
                    new = rest + [mk]
                else:
                    new = [mk] + rest + [mk]
                raw2 = raw[:17] + kexlab.sshsig.s(",".join(new)) + raw[17 + 4 + len(first):]
                t.local_kex_init = t._latest_kex_init = raw2
                if log is not None:
                    log.append(new)
                return _o(Message(raw2))
        return _o(m)

    t._send_message = send


def first_only_marker(t, log=None):
    """Make transport `t` advertise its kex-strict marker in its FIRST KEXINIT only (the marker is only defined
    there; e.g. OpenSSH omits it on re-exchanges).  Rewritten before sending and in the copy kept for the hash."""
    orig = t._send_message
    state = {"n": 0}

    def send(m, _o=orig):
        raw = m.asbytes()
        if raw[:1] == b"\x14":
            state["n"] += 1
            if state["n"] > 1:
                (first,), _rest = kexlab.sshsig.read_strings(raw[17:], 1)
                names = [n for n in first.decode().split(",") if not n.startswith("kex-strict-")]
                raw2 = raw[:17] + kexlab.sshsig.s(",".join(names)) + raw[17 + 4 + len(first):]
                t.local_kex_init = t._latest_kex_init = raw2
                if log is not None:
                    log.append(names)
                return _o(Message(raw2))
        return _o(m)

    t._send_message = send


def channel_roundtrip(lab, timeout=20):
    try:
        c, s = lab.pair.session(timeout=timeout)
        if s is None:
            return False
        c.settimeout(timeout)
        s.settimeout(timeout)
        c.sendall(b"ping")
        a = s.recv(4)
        s.sendall(b"pong")
        return (a, c.recv(4)) == (b"ping", b"pong")
    except Exception:
        return False


def victim_of(lab, role):
    return (lab.tc, "c", "ba") if role == "client" else (lab.ts, "s", "ab")


def set_mode(lab, mode):
    if mode is None:
        return
    cipher, mac = mode
    so = lab.tc.get_security_options()
    so.ciphers = [cipher]
    so.digests = [mac]


def usable(lab, timeout=20):
    """Does authentication plus a channel round trip work on this pair?"""
    res = {}

    def go():
        try:
            lab.tc.auth_timeout = timeout
            lab.tc.auth_password("u", "pw")
            c, s = lab.pair.session(timeout=timeout)
            if s is None:
                res["ok"] = False
                return
            c.settimeout(timeout)
            s.settimeout(timeout)
            c.sendall(b"ping")
            a = s.recv(4)
            s.sendall(b"pong")
            b = c.recv(4)
            res["ok"] = (a, b) == (b"ping", b"pong")
        except Exception as e:
            res["ok"] = False
            res["exc"] = e

    th = threading.Thread(target=go, daemon=True)
    th.start()
    th.join(3 * timeout + 10)
    if th.is_alive():
        return None
    return res.get("ok", False)


def exc_name(t, lab=None):
    e = t.saved_exception
    if e is None and lab is not None and t is lab.tc:
        e = lab.pair.client_exc  # start_client() consumed it
    return type(e).__name__


def poke(lab, n=3):
    """Both peers send a few IGNOREs so that a broken packet stream shows at once instead of at the next
    application message; returns when the link is drained or a side is dead."""
    for t in (lab.ts, lab.tc):
        for _ in range(n):
            try:
                if t.is_active():
                    t.send_ignore()
            except Exception:
                break
    pair.wait_for(lambda: lab.link.quiescent(0.05) or not (lab.tc.is_active() and lab.ts.is_active()), 10)
    pair.wait_for(lambda: not (lab.tc.is_active() and lab.ts.is_active()), 0.2)


def still_usable(lab, timeout):
    """poke first; only a pair that survives that is probed with authentication and a channel."""
    poke(lab)
    if not (lab.tc.is_active() and lab.ts.is_active()):
        return False
    return usable(lab, timeout)


# ---- stratum 1: injection at every position ---------------------------------------------------------
def inject_case(ctx, kex, role, k, ptype, strict_c, strict_s, hostalg, sample, drop_enc=None, mode=None, marker=None):
    rng = ctx.rng
    both = strict_c and strict_s
    stratum = "terrapin" if drop_enc is not None else ("inject-marker" if marker else "inject")
    desc = dict(stratum=stratum, kex=kex, victim=role, position=k, injected=TYPE_NAME[ptype], strict_client=strict_c,
                strict_server=strict_s, drop_encrypted=drop_enc, mode=mode, peer_marker_position=marker)
    fp = (stratum, kex, role, k, ptype, strict_c, strict_s, drop_enc, mode, marker)
    lab = kexlab.Lab(rng, kex, hostalg, strict_c=strict_c, strict_s=strict_s, with_mitm=True)
    set_mode(lab, mode)
    vt, vside, d = victim_of(lab, role)
    mlog = []
    if marker:
        odd_marker(lab.ts if role == "client" else lab.tc, marker, mlog)
    fixed = payload_for(ptype, None)
    if ptype == 20:
        # a second KEXINIT: replay of the sender's own first packet
        state = {}

        def remember(p, _s=state):
            if p[0] == 20 and "kexinit" not in _s:
                _s["kexinit"] = p
            return p

        lab.mitm.alter(d, remember, k=0)
        lab.mitm.inject(d, k, lambda orig, _s=state: [_s.get("kexinit", orig)])
    else:
        lab.mitm.inject(d, k, [fixed])
    if drop_enc is not None:
        lab.mitm.drop_enc(d, drop_enc)
    try:
        ok = lab.start(timeout=60)
        dline = k if k >= 1 else 1  # index (in the victim's inbound sequence) of the packet that must be the last

        def ins():
            return lab.msgs(vside, "in")

        decided = pair.wait_for(lambda: len(ins()) > dline + 1 or not vt.is_active(), 40)
        seq = ins()
        inj = [r for r in lab.mitm.fired("inject")]
        if not inj or len(seq) <= k or seq[k]["type"] != ptype:
            ctx.case(fp, nontrivial=False)
            ctx.count("edits_not_delivered")
            return
        ctx.case(fp, sample=desc if sample else None)
        ctx.count("injections_delivered")
        ctx.count("injections_delivered.%s" % TYPE_NAME[ptype])
        if both and drop_enc is None and not marker:
            # explicit matrix: victim role x position (0 = before KEXINIT ... last = before NEWKEYS) x injected type
            ctx.count("matrix.%s.pos%d.%s" % (role, k, TYPE_NAME[ptype]))
            if ptype in UPPER_PAYLOAD:
                ctx.count("upper.injections_judged")
                ctx.count("upper.%s.injections_judged" % role)
                if ptype >= 80:
                    ctx.count("upper.connection_layer.%s.injections_judged" % role)
        wit = dict(case=desc, victim_inbound=[(e["type"], e["seq"]) for e in seq[:8]], victim_exc=repr(vt.saved_exception),
                   client_exc=repr(lab.pair.client_exc))
        if not both:
            ctx.count("nonstrict.cases")
            # nothing is asserted about tolerance; let the session run into whatever happens and count the type
            if ok:
                u = still_usable(lab, 4)
                if drop_enc is not None:
                    ctx.count("nonstrict.terrapin_session_%s" % ("usable" if u else "unusable"))
                else:
                    ctx.count("nonstrict.injected_session_%s" % ("usable" if u else "unusable"))
            n = exc_name(vt, lab)
            ctx.count("nonstrict.victim_exc.%s" % n)
            if n not in OK_EXC:
                ctx.count("nonstrict.unexpected_exception_types")
                ctx.note("nonstrict_unexpected_exception", dict(case=desc, exc=repr(vt.saved_exception)))
            return
        ctx.count("strict.injections_judged")
        if marker:
            if not mlog:
                ctx.inconclusive("the peer's KEXINIT was not rewritten: %r" % desc)
                return
            ctx.count("marker.injections_judged")
            ctx.count("marker.%s.injections_judged" % marker)
        if not decided:
            ctx.inconclusive("victim neither died nor read on within 40 s: %r" % desc)
            return
        if len(seq) > dline + 1:
            what = "KEXINIT that was not the first packet" if k == 0 and ptype != 20 else TYPE_NAME[ptype]
            where = "before KEXINIT" if k == 0 else "before the initial NEWKEYS"
            ctx.violation("strict kex agreed: %s not terminated by %s delivered %s" % (role, what, where),
                          "the %s kept reading handshake messages after an injected %s (position %d)" % (role, TYPE_NAME[ptype], k),
                          wit)
            # does it even end up as a working session?
            if still_usable(lab, 10):
                ctx.count("strict.shifted_sessions_usable")
            return
        ctx.count("strict.terminated")
        ctx.count("strict.terminated_by.%s" % exc_name(vt, lab))
        if role == "client" and lab.pair.client_exc is not None:
            ctx.count("strict.start_client_raised")
    finally:
        lab.close()


# ---- stratum 2: deletion of an encrypted packet right after NEWKEYS, no injection ---------------------
def drop_case(ctx, kex, role, j, hostalg, sample, mode=None):
    rng = ctx.rng
    desc = dict(stratum="delete", kex=kex, victim=role, drop_encrypted=j, mode=mode)
    fp = ("delete", kex, role, j, mode)
    lab = kexlab.Lab(rng, kex, hostalg, with_mitm=True)
    set_mode(lab, mode)
    vt, vside, d = victim_of(lab, role)
    lab.mitm.drop_enc(d, j)
    try:
        ok = lab.start(timeout=60)
        if not ok:
            ctx.inconclusive("clean strict handshake of a deletion case failed: %r %r" % (desc, lab.pair.client_exc))
            return
        # harmless traffic first, so that a deleted packet does not merely stall the peer that waits for it
        u = still_usable(lab, 15)
        if not lab.mitm.fired("drop_enc"):
            ctx.case(fp, nontrivial=False)
            ctx.count("edits_not_delivered")
            return
        ctx.case(fp, sample=desc if sample else None)
        ctx.count("deletions_delivered")
        if u is None:
            ctx.inconclusive("usability probe did not return: %r" % desc)
        elif u:
            ctx.violation("strict kex agreed: session usable after deleting an encrypted packet following NEWKEYS",
                          "authentication and a channel round trip worked although packet %d after NEWKEYS was deleted "
                          "towards the %s" % (j, role), dict(case=desc))
        else:
            ctx.count("strict.deletion_broke_session")
    finally:
        lab.close()


# ---- stratum 3: honest sessions, sequence numbers after NEWKEYS ------------------------------------------
def first_after_newkeys(events, side, direction):
    """[(index of the NEWKEYS, seq used by the next write / read attempt)] for one side and direction."""
    out = []
    pending = None
    n = 0
    for e in events:
        if e.get("side") != side:
            continue
        if e["kind"] == "msg" and e["dir"] == direction:
            if pending is not None:
                out.append((pending, e["seq"], e["type"]))
                pending = None
            if e["type"] == 21:
                pending = n
                n += 1
        elif e["kind"] == "readfail" and direction == "in" and pending is not None:
            out.append((pending, e["seq"], "readfail:" + e["exc"]))
            pending = None
    return out


def rekey(lab, who, timeout=60):
    t = lab.tc if who == "c" else lab.ts
    err = []

    def go():
        try:
            t.renegotiate_keys()
        except Exception as e:
            err.append(e)

    th = threading.Thread(target=go, daemon=True)
    th.start()
    th.join(timeout)
    if th.is_alive():
        return "timeout"
    if err:
        return err[0]
    pair.wait_for(lambda: all(x.kex_engine is None and x.local_kex_init is None and not x.in_kex
                              for x in (lab.tc, lab.ts)) or not (lab.tc.is_active() and lab.ts.is_active()), timeout)
    return None


def honest_case(ctx, kex, strict_c, strict_s, nrekeys, hostalg, sample, mode=None, marker=None):
    """marker = (side whose KEXINIT is rewritten, position) or None."""
    rng = ctx.rng
    both = strict_c and strict_s
    inits = [rng.choice("cs") for _ in range(nrekeys)]
    desc = dict(stratum="honest", kex=kex, strict_client=strict_c, strict_server=strict_s, rekeys=nrekeys,
                initiators="".join(inits), mode=mode, odd_marker=marker)
    ctx.case(("honest", kex, strict_c, strict_s, nrekeys, tuple(inits), mode, marker), sample=desc if sample else None)
    lab = kexlab.Lab(rng, kex, hostalg, strict_c=strict_c, strict_s=strict_s)
    set_mode(lab, mode)
    first_only = bool(marker) and marker[1] == "first-only"
    stripped = []
    if first_only:
        # marker present at connect, omitted from this side's later KEXINITs; the other side is the victim
        first_only_marker(lab.tc if marker[0] == "c" else lab.ts, stripped)
    elif marker:
        odd_marker(lab.tc if marker[0] == "c" else lab.ts, marker[1])
        ctx.count("marker.honest_sessions")
    failed = None
    try:
        if not lab.start(timeout=60):
            failed = "handshake"
        else:
            agreed_at_connect = lab.tc.agreed_on_strict_kex and lab.ts.agreed_on_strict_kex
            for ri_, who in enumerate(inits):
                if first_only and ri_ == 1:
                    # re-key, AUTH, re-key, data
                    try:
                        lab.tc.auth_timeout = 30
                        lab.tc.auth_password("u", "pw")
                    except Exception:
                        failed = "auth"
                        break
                # traffic in both directions under the current keys, then a rekey
                try:
                    lab.tc.global_request("vf-ping@verif", wait=True)
                except Exception:
                    failed = "traffic"
                    break
                r = rekey(lab, who)
                if r is not None:
                    failed = "rekey"
                    break
            if failed is None:
                try:
                    lab.tc.global_request("vf-ping@verif", wait=True)
                    if not lab.tc.is_active():
                        failed = "traffic"
                except Exception:
                    failed = "traffic"
            if failed is None and first_only:
                if not channel_roundtrip(lab):
                    failed = "channel data after the second rekey"
        pair.wait_for(lambda: lab.link.quiescent(0.05), 5)
        ev = lab.events()
        agreed = lab.tc.agreed_on_strict_kex and lab.ts.agreed_on_strict_kex
        if first_only:
            agreed = failed != "handshake" and agreed_at_connect
            if len(stripped) >= len(inits) and failed is None:
                ctx.count("rekey_without_marker.sessions_survived")
            ctx.count("rekey_without_marker.sessions")
            ctx.count("rekey_without_marker.rekey_kexinits_without_marker", len(stripped))
        if both:
            ctx.count("honest.strict_sessions")
            if not agreed and failed is None:
                ctx.inconclusive("both sides advertise strict kex but did not agree on it: %r" % desc)
                return
            for side in ("c", "s"):
                for direction in ("out", "in"):
                    for idx, seq, what in first_after_newkeys(ev, side, direction):
                        ctx.count("honest.first_packet_after_newkeys_checked")
                        if idx > 0:
                            ctx.count("honest.first_packet_after_rekey_newkeys_checked")
                            if first_only:
                                ctx.count("rekey_without_marker.first_packet_after_rekey_newkeys_checked")
                        if seq != 0:
                            which = "write" if direction == "out" else "read"
                            when = "the initial NEWKEYS" if idx == 0 else "a rekey NEWKEYS"
                            ctx.violation("strict kex agreed: first %s after %s did not use sequence number 0"
                                          % (which, when),
                                          "%s side: the first %s after NEWKEYS #%d used sequence number %d (%s)"
                                          % ("client" if side == "c" else "server", which, idx, seq, what),
                                          dict(case=desc, side=side, direction=direction, newkeys_index=idx, seq=seq))
            if failed is not None:
                ctx.count("honest.strict_sessions_failed")
                ctx.inconclusive("honest strict session failed at %s: client=%r server=%r %r"
                                 % (failed, lab.tc.saved_exception, lab.ts.saved_exception, desc))
            else:
                ctx.count("honest.strict_sessions_ok")
        else:
            ctx.count("honest.nonstrict_sessions")
            if failed is None:
                ctx.count("honest.nonstrict_sessions_ok")
    finally:
        lab.close()


# ---- control: IGNORE inside a re-exchange -------------------------------------------------------------------
def rekey_ignore_control(ctx, kex, role, hostalg, sample):
    """The *peer* of the victim sends an IGNORE before each of its own kex messages of a re-exchange.
    The property is about the initial exchange only: this is counted, never judged."""
    rng = ctx.rng
    desc = dict(stratum="rekey-ignore-control", kex=kex, victim=role)
    ctx.case(("rekey-ignore", kex, role), sample=desc if sample else None, nontrivial=True)
    lab = kexlab.Lab(rng, kex, hostalg)
    peer = lab.ts if role == "client" else lab.tc
    vt, vside, d = victim_of(lab, role)
    sent = []
    try:
        if not lab.start(timeout=60):
            ctx.inconclusive("clean handshake of the rekey control failed: %r" % desc)
            return
        orig = peer._send_message

        def noisy(m, _o=orig):
            raw = m.asbytes()
            if raw and (30 <= raw[0] <= 34 or raw[0] == 21):
                ig = Message()
                ig.add_byte(b"\x02")
                ig.add_string(b"vf-rekey")
                _o(ig)
                sent.append(raw[0])
            return _o(m)

        peer._send_message = noisy
        r = rekey(lab, rng.choice("cs"))
        alive = False
        if r is None:
            try:
                lab.tc.global_request("vf-ping@verif", wait=True)
                alive = lab.tc.is_active() and lab.ts.is_active()
            except Exception:
                alive = False
        got = [e for e in lab.msgs(vside, "in", [2])]
        if not sent or not got:
            ctx.count("control.rekey_ignore_not_delivered")
            return
        ctx.count("control.rekey_ignore_delivered", len(got))
        if alive:
            ctx.count("control.rekey_ignore_tolerated")
        else:
            ctx.count("control.rekey_ignore_not_tolerated")
            ctx.note("rekey_ignore_not_tolerated", dict(case=desc, exc=repr(vt.saved_exception)))
    finally:
        lab.close()


# ---- driver ----------------------------------------------------------------------------------------------
def run(ctx):
    rng = ctx.rng
    idx = 0
    ns = {"inject": 0, "terrapin": 0, "delete": 0, "honest": 0, "control": 0}

    def mine():
        nonlocal idx
        idx += 1
        return ctx.mine(idx)

    def samp(k):
        ns[k] += 1
        return ns[k] <= 1

    with kexlab.server_moduli(("14",)):
        for ki, kex in enumerate(kexlab.KEXES):
            ref = None
            for ri, role in enumerate(("client", "server")):
                d = "ba" if role == "client" else "ab"
                # positions are the same for every run of this kex; take them from a clean handshake
                if ref is None:
                    ref = ctx.guard(reference, ctx, kex)
                    if ref is None:
                        return
                npos = len(ref[d])  # inject before packet 0 .. before NEWKEYS (= last)
                # -- complete enumeration under strict/strict ----------------------------------------
                for k in range(npos):
                    for ti, ptype in enumerate(TYPES):
                        if not mine():
                            continue
                        alg = kexlab.HOSTALGS[(ki + k + ti) % 7]
                        inject_case(ctx, kex, role, k, ptype, True, True, alg, samp("inject"))
                # -- service / auth / connection-layer types: every cell (role x position x type) at least
                #    once per run in quick (one kex method each), on every kex in thorough -------------------
                for k in range(npos):
                    for ti, ptype in enumerate(UPPER_TYPES):
                        if ctx.quick and (ti + k + ctx.seed) % 10 != ki:
                            continue
                        if not mine():
                            continue
                        inject_case(ctx, kex, role, k, ptype, True, True, kexlab.HOSTALGS[(ki + k + ti) % 7], False)
                # -- strict not agreed: nothing asserted, sampled in quick --------------------------------
                combos = [(True, False), (False, True), (False, False)]
                for ci, (sc, ss) in enumerate(combos):
                    for k in range(npos):
                        for ti, ptype in enumerate(TYPES):
                            if ctx.quick and (k + ti + ci + ki + ri + ctx.seed) % 13 != 0:
                                continue
                            if not mine():
                                continue
                            inject_case(ctx, kex, role, k, ptype, sc, ss, kexlab.HOSTALGS[(ki + ci) % 7], False)
                # -- Terrapin shapes: inject IGNORE at k >= 1, delete encrypted packet j -------------------
                for k in range(1, npos):
                    for j in (0, 1):
                        for mi, mode in enumerate(MODES):
                            if ctx.quick and (k + j + mi + ki + ri + ctx.seed) % 5 != 0:
                                continue
                            if not mine():
                                continue
                            inject_case(ctx, kex, role, k, 2, True, True, kexlab.HOSTALGS[(ki + mi) % 7],
                                        samp("terrapin"), drop_enc=j, mode=mode)
                            if not ctx.quick or (ki + mi + k) % 3 == 0:
                                sc, ss = combos[(ki + k + j + mi) % 3]
                                inject_case(ctx, kex, role, k, 2, sc, ss, kexlab.HOSTALGS[(ki + mi) % 7], False,
                                            drop_enc=j, mode=mode)
                # -- deletion only ------------------------------------------------------------------------------
                for j in (0, 1):
                    for mi, mode in enumerate(MODES):
                        if ctx.quick and (j + mi + ki + ri + ctx.seed) % 5 != 0:
                            continue
                        if not mine():
                            continue
                        drop_case(ctx, kex, role, j, kexlab.HOSTALGS[(ki + j) % 7], samp("delete"), mode=mode)
                # -- peer lists its strict marker first / in the middle / last / twice -----------------------
                for mi, mpos in enumerate(MARKERS):
                    for k in range(npos):
                        for ti, ptype in enumerate(TYPES):
                            # quick: all positions x types for "first" on a rotating third of the kex methods, two
                            # cases per (kex, role, marker) otherwise; thorough: everything
                            if ctx.quick:
                                full = mpos == "first" and (ki + ri + ctx.seed) % 3 == 0
                                if not full and (k * len(TYPES) + ti) % (npos * len(TYPES) // 2 + 1) != (ki + mi + ri + ctx.seed) % 3:
                                    continue
                            if not mine():
                                continue
                            inject_case(ctx, kex, role, k, ptype, True, True, kexlab.HOSTALGS[(ki + mi + k) % 7], False,
                                        marker=mpos)
                # -- control ----------------------------------------------------------------------------------
                if mine():
                    rekey_ignore_control(ctx, kex, role, kexlab.HOSTALGS[(ki + ri) % 7], samp("control"))
            # -- honest sessions: sequence numbers after every NEWKEYS ---------------------------------------
            for sc, ss in ((True, True), (True, False), (False, True), (False, False)):
                for nre in ((1, 2) if ctx.quick else (0, 1, 2, 3)):
                    if ctx.quick and not (sc and ss) and (nre != 1 or (ki + ctx.seed) % 3 != (sc * 2 + ss)):
                        continue
                    for mi, mode in enumerate(MODES):
                        pick = (mi + ki + nre + ctx.seed) % 5
                        if (ctx.quick or not (sc and ss)) and not (pick == 0 or (pick == 2 and sc and ss)):
                            continue
                        if not mine():
                            continue
                        honest_case(ctx, kex, sc, ss, nre, kexlab.HOSTALGS[(ki + nre) % 7], samp("honest"), mode=mode)
            for mi, mpos in enumerate(MARKERS):
                for side in "cs":
                    if ctx.quick and (mi + ki + ctx.seed + (side == "s")) % 2:
                        continue
                    if not mine():
                        continue
                    honest_case(ctx, kex, True, True, 1 + (ki + mi) % 2, kexlab.HOSTALGS[(ki + mi) % 7], False,
                                mode=MODES[(ki + mi) % 5], marker=(side, mpos))
            for side in "cs":
                # strict agreed at connect, this side's later KEXINITs omit the marker; victim = the other side
                if not mine():
                    continue
                honest_case(ctx, kex, True, True, 2, kexlab.HOSTALGS[(ki + (side == "s")) % 7], False,
                            mode=MODES[(ki + ctx.seed + (side == "s")) % 5], marker=(side, "first-only"))
    ctx.require("rekey_without_marker.sessions", 16)
    ctx.require("rekey_without_marker.sessions_survived", 16)
    ctx.require("rekey_without_marker.rekey_kexinits_without_marker", 32)
    ctx.require("rekey_without_marker.first_packet_after_rekey_newkeys_checked", 100)
    ctx.require("upper.client.injections_judged", 50)
    ctx.require("upper.server.injections_judged", 50)
    ctx.require("upper.connection_layer.client.injections_judged", 30)
    ctx.require("upper.connection_layer.server.injections_judged", 30)
    for role in ("client", "server"):
        for k in range(3):
            for t in (80, 81, 82, 90, 91, 92):
                ctx.require("matrix.%s.pos%d.%s" % (role, k, TYPE_NAME[t]), 1)
    ctx.require("marker.injections_judged", 120)
    ctx.require("marker.first.injections_judged", 40)
    ctx.require("marker.middle.injections_judged", 20)
    ctx.require("marker.last.injections_judged", 20)
    ctx.require("marker.twice.injections_judged", 20)
    ctx.require("marker.honest_sessions", 20)
    ctx.require("strict.injections_judged", 250)
    ctx.require("strict.terminated", 200)
    ctx.require("injections_delivered.IGNORE", 40)
    ctx.require("injections_delivered.DEBUG", 40)
    ctx.require("injections_delivered.UNIMPLEMENTED", 40)
    ctx.require("injections_delivered.type-192", 40)
    ctx.require("injections_delivered.KEXINIT", 40)
    ctx.require("deletions_delivered", 6)
    ctx.require("honest.first_packet_after_newkeys_checked", 150)
    ctx.require("honest.first_packet_after_rekey_newkeys_checked", 80)
    ctx.require("honest.strict_sessions_ok", 10)
    ctx.require("control.rekey_ignore_delivered", 10)
    ctx.require("nonstrict.cases", 20)
