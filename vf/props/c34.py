"""C34 — the default SFTP canonicalize stays inside the served root."""
import itertools
import os
import shutil
import tempfile
import threading

from paramiko import SFTPServerInterface

from vf import gacontract
from vf.core import exc_signature

META = dict(
    title="default SFTP canonicalize stays inside the root",
    level="exploration",
    design_ref="§3 C34",
    technique="runtime contract (icontract) on the real SFTPServerInterface.canonicalize: absolute, no '.'/'..' "
              "component, lexically and on a real file system inside root+result; traversal paths also sent "
              "through a real SFTP session serving a temp directory with a decoy outside it",
    text="Every token sequence up to length 6 over {'/', '.', '..', name, '//', '...'} is enumerated, then random "
         "longer paths (names with dots, spaces, unicode; repeated separators; leading '//'). Each result is "
         "judged by three named postconditions; containment is computed by an independent component-stack "
         "resolver for several roots and, for a sample, by os.path.realpath on a real directory tree. A sample "
         "of traversal paths is sent through a real SFTPClient->SFTPServer REALPATH/STAT/OPEN exchange: the "
         "decoy file next to the served root must never be reached. Holds on the executions produced.",
    note="POSIX only (sys.platform != win32 branch). Symlinks inside the root are out of scope (the property is "
         "lexical). The resolver and os.path.realpath are trusted.",
    rule="case = one path string; distinct = the string; trivial (not counted) = nothing",
    assumptions=["POSIX path semantics: '/' is the only separator, '//' equals '/' for the kernel"],
)


def shards(tier):
    return 4 if tier == "quick" else 16


# generous per-shard caps: expiry means INCONCLUSIVE, never a verdict (the box is shared and can be 10x slow)
TIMEOUT = {"quick": 900, "thorough": 3000}


ROOTS = ["/srv/sftp", "/", "/srv/sftp/", "/a"]


class Recorder:
    def __init__(self):
        self.lock = threading.Lock()
        self.evals = {}
        self.fails = []

    def seen(self, name):
        with self.lock:
            self.evals[name] = self.evals.get(name, 0) + 1

    def fail(self, sig, what, witness):
        with self.lock:
            self.fails.append((sig, what, witness))

    def drain(self, ctx):
        with self.lock:
            fails, self.fails = self.fails, []
            evals, self.evals = self.evals, {}
        for k, v in evals.items():
            ctx.count("contract_" + k, v)
        for sig, what, wit in fails:
            ctx.violation(sig, what, wit)


REC = Recorder()
QUIET = [False]


def resolve_inside(root, result):
    """Independent lexical resolver: normalise root + result on a component
    stack ('..' at '/' stays at '/') and test that root's components are a
    prefix of the outcome."""
    base = [c for c in root.split("/") if c not in ("", ".")]
    stack = []
    for comp in (root + result).split("/"):
        if comp in ("", "."):
            continue
        if comp == "..":
            if stack:
                stack.pop()
        else:
            stack.append(comp)
    return stack[:len(base)] == base


def input_class(path):
    """Coarse, value-free description of the input (goes into signatures)."""
    bits = []
    bits.append("absolute" if path.startswith("/") else "relative")
    comps = path.split("/")
    if ".." in comps:
        bits.append("with '..'")
    if path.startswith("//"):
        bits.append("leading '//'")
    return " ".join(bits)


def result_is_absolute(path, result):
    REC.seen("result_is_absolute")
    if isinstance(result, str) and result.startswith("/"):
        return True
    REC.fail("canonicalize returned a non-absolute path (%s input)" % input_class(path),
             "canonicalize(%r) -> %r does not start with '/'" % (path, result), dict(path=path, result=result))
    return QUIET[0]


def result_has_no_dot_components(path, result):
    REC.seen("result_has_no_dot_components")
    comps = result.split("/") if isinstance(result, str) else ["?"]
    bad = [c for c in comps if c in (".", "..")]
    if not bad:
        return True
    REC.fail("canonicalize result contains a '%s' component (%s input)" % (bad[0], input_class(path)),
             "canonicalize(%r) -> %r" % (path, result), dict(path=path, result=result))
    return QUIET[0]


def joined_with_root_stays_inside_root(path, result):
    REC.seen("joined_with_root_stays_inside_root")
    if not isinstance(result, str):
        return True
    for root in ROOTS:
        if not resolve_inside(root, result):
            REC.fail("root + canonicalize(path) resolves outside the root (%s input)" % input_class(path),
                     "root %r + canonicalize(%r)=%r climbs above the root" % (root, path, result),
                     dict(path=path, result=result, root=root))
            return QUIET[0]
    return True


_installed = False


def install_contracts():
    global _installed
    if not _installed:
        SFTPServerInterface.canonicalize = gacontract.ensure_all(
            SFTPServerInterface.canonicalize,
            [result_is_absolute, result_has_no_dot_components, joined_with_root_stays_inside_root],
        )
        _installed = True


TOKENS = ["/", ".", "..", "a", "//", "..."]
NAMES = ["a", "b", "etc", "passwd", "x.txt", ".hidden", "..a", "a..", "...", "....", ". ", " ", "a b", "é", "中",
         "~", "-", "a.", ".a.", ".. ", "%2e%2e", "..%2f", "\\", "..\\", "a\\..\\b", "\t", "..;", "\x7f"]
SEPS = ["/", "/", "/", "//", "///", "////", "/./", "/../", "/.//", "//..//"]


def rand_path(rng):
    kind = rng.random()
    if kind < 0.5:
        toks = []
        for _ in range(rng.randint(0, 14)):
            r = rng.random()
            toks.append("/" if r < 0.35 else ".." if r < 0.55 else "." if r < 0.65 else "//" if r < 0.72
                        else rng.choice(NAMES))
        return "".join(toks)
    parts = [rng.choice(NAMES + ["..", "..", ".", "", ".."]) for _ in range(rng.randint(1, 10))]
    s = ""
    for p in parts:
        s += p + rng.choice(SEPS)
    if rng.random() < 0.5:
        s = rng.choice(["/", "//", "///", "../", "./", "/../", "//../"]) + s
    if rng.random() < 0.5:
        s = s.rstrip("/")
    return s


def direct(ctx, si, path, fs=None):
    try:
        out = si.canonicalize(path)
    except gacontract.Breach:
        REC.drain(ctx)
        return
    except Exception as e:
        ctx.violation("exception from canonicalize: " + exc_signature(e), repr(e)[:200], dict(path=path))
        return
    ctx.count("results_judged")
    if fs is not None and "\x00" not in out:
        root, decoy_parent = fs
        real = os.path.realpath(root + out)
        ctx.count("filesystem_containment_checks")
        if not (real == root or real.startswith(root + "/")):
            ctx.violation("root + canonicalize(path) names a file-system object outside the root (%s input)"
                          % input_class(path),
                          "realpath(%r + %r) = %r is outside the served root" % (root, out, real),
                          dict(path=path, result=out, real=real))


def session_sample(ctx, rng, n):
    """Traversal paths through a real SFTP session serving <tmp>/root with a decoy at <tmp>/secret."""
    from vf.sftpbench import Bench

    top = os.path.realpath(tempfile.mkdtemp(prefix="vf-c34-"))
    root = os.path.join(top, "root")
    os.makedirs(os.path.join(root, "a", "b"))
    with open(os.path.join(root, "inside.txt"), "w") as f:
        f.write("inside")
    with open(os.path.join(top, "secret"), "w") as f:
        f.write("DECOY-OUTSIDE-ROOT")
    bench = None
    QUIET[0] = True
    try:
        bench = Bench(root)
        probes = ["../secret", "/../secret", "//../secret", "a/../../secret", "/a/b/../../../secret",
                  "./../secret", "..//secret", "/./../secret", "a/b/../../../../secret", "//..//secret",
                  # positive controls: these must be served (the probe can tell a file from a refusal)
                  "inside.txt", "/a/../inside.txt", "//inside.txt", "../../inside.txt", "a/b/../../inside.txt"]
        for i in range(n):
            path = probes[i] if i < len(probes) else (
                rand_path(rng) if rng.random() < 0.5 else rand_path(rng).rstrip("/") + "/../" * rng.randint(1, 4) + "secret")
            if "\x00" in path or path == "":
                continue
            ctx.case(("session", path), sample=dict(kind="via SFTP session", path=path) if i == 0 else None)
            try:
                got = bench.client.normalize(path)
            except Exception as e:
                ctx.inconclusive("session REALPATH failed for %r: %r" % (path, e))
                break
            ctx.count("session_realpath_replies")
            if not got.startswith("/") or any(c in (".", "..") for c in got.split("/")) \
                    or not resolve_inside(root, got):
                ctx.violation("REALPATH reply escapes or is not canonical (%s input)" % input_class(path),
                              "REALPATH(%r) answered %r" % (path, got), dict(path=path, reply=got))
            # what the server actually reaches for this client path
            import stat as _stat

            try:
                st = bench.client.stat(path)
                ctx.count("session_stats_succeeded")
            except IOError:
                ctx.count("session_stats_refused")
                continue
            if st.st_mode is not None and _stat.S_ISREG(st.st_mode):
                with bench.client.open(path, "r") as f:
                    data = f.read(64)
                ctx.count("session_files_read")
                if b"DECOY" in data:
                    ctx.violation("client path reached a file outside the served root (%s input)" % input_class(path),
                                  "open(%r) returned the decoy that lives next to the root" % path,
                                  dict(path=path, data=data))
    except Exception as e:
        ctx.inconclusive("session sample failed: %r" % (e,))
    finally:
        QUIET[0] = False
        if bench is not None:
            bench.close()
        shutil.rmtree(top, ignore_errors=True)
    REC.drain(ctx)


def run(ctx):
    rng = ctx.rng
    install_contracts()
    ctx.note("contract_backend", gacontract.BACKEND)
    si = SFTPServerInterface(None)
    # exhaustive window: every token sequence of length 0..L
    L = 6
    idx = 0
    for n in range(0, L + 1):
        for seq in itertools.product(TOKENS, repeat=n):
            idx += 1
            if not ctx.mine(idx):
                continue
            path = "".join(seq)
            ctx.case(("p", path), sample=dict(kind="enumerated", path=path) if idx in (40, 4001) else None)
            ctx.count("enumerated_window_cases")
            direct(ctx, si, path)
    ctx.note("enumerated_window", "all sequences of <=%d tokens over %r" % (L, TOKENS))
    # real directory tree for a sample of containment checks
    top = os.path.realpath(tempfile.mkdtemp(prefix="vf-c34fs-"))
    root = os.path.join(top, "srv", "root")
    os.makedirs(os.path.join(root, "a", "b"))
    os.makedirs(os.path.join(top, "srv", "other"))
    try:
        for i in range(ctx.pick(25000, 150000)):
            path = rand_path(rng)
            ctx.case(("p", path), sample=dict(kind="random", path=path) if i < 2 else None)
            direct(ctx, si, path, fs=(root, top) if i % 20 == 0 else None)
            if ".." in path.split("/"):
                ctx.count("cases_with_dotdot")
    finally:
        shutil.rmtree(top, ignore_errors=True)
    REC.drain(ctx)
    session_sample(ctx, rng, ctx.pick(120, 1200))
    ctx.require("results_judged", 20000)
    ctx.require("contract_joined_with_root_stays_inside_root", 20000)
    ctx.require("contract_result_has_no_dot_components", 20000)
    ctx.require("cases_with_dotdot", 5000)
    ctx.require("filesystem_containment_checks", 1000)
    ctx.require("session_realpath_replies", 60)
    ctx.require("session_files_read", 5)
