"""C32 - SFTP check-file returns the right hashes for the requested range, promptly."""
import hashlib
import os
import shutil
import tempfile
import threading

from vf.sftpd2 import CMD, MonBench

META = dict(
    title="SFTP check-file hashes",
    level="exploration",
    design_ref="§3 C32",
    technique="hashlib oracle per block over the served bytes + read log of the server's own handle reads",
    text="A real SFTPClient asks a real SFTPServer (in-memory pipe; a sample over a full SSH session in the "
         "thorough tier) for check-file digests of files of 0..400 KiB with offsets, lengths and block sizes "
         "around 0, 256, the 64 KiB read chunk, its multiples and the end of file, md5 and sha1, with full and "
         "short server-side reads. The reply is compared with hashlib over the bytes on disk, block by block; "
         "the server's handle reads are logged, and a request that re-reads one offset 200 times is a livelock. "
         "Holds on the executions produced.",
    note="Trusts hashlib and the bytes on disk. Block size 0 (one hash over the range) and block sizes below 256 "
         "are judged only for 'the server answers'; an empty range (offset at/after EOF) may be answered by an "
         "empty digest string or by a status.",
    rule="case = (file size, offset, length, block size, algorithm, short-read policy); distinct = that tuple; "
         "non-trivial = non-empty range with block size >= 256 (digests compared)",
    assumptions=["hashlib md5/sha1 are the reference", "SFTPHandle.read may legitimately return short reads"],
)

K64 = 65536
CALL_TIMEOUT = 120.0


def shards(tier):
    return 8 if tier == "quick" else 16


def expected(data, offset, length, block, alg):
    end = len(data) if length == 0 else min(offset + length, len(data))
    h = getattr(hashlib, alg)
    out = []
    o = offset
    while o < end:
        out.append(h(data[o:min(o + block, end)]).digest())
        o += block
    return b"".join(out), end


def gen_size(rng):
    return rng.choice([0, 1, 255, 256, 257, 1000, 40000, K64 - 1, K64, K64 + 1, 100000, 2 * K64, 2 * K64 + 1,
                       200000, 3 * K64, 4 * K64, 300000, 400 * 1024,
                       rng.randint(0, 2000), rng.randint(0, 400 * 1024), rng.randint(K64, 400 * 1024)])


def gen_params(rng, size):
    offset = rng.choice([0, 0, 0, 1, 255, 256, K64 - 1, K64, K64 + 1, 2 * K64, max(size - 1, 0), size, size + 1,
                         size + K64, rng.randint(0, max(size, 1)), rng.randint(0, max(size, 1)),
                         rng.randint(0, 2 * size + 10), 1 << 40])
    rest = max(size - offset, 0)
    length = rng.choice([0, 0, 0, 1, 255, 256, 257, 1000, K64 - 1, K64, K64 + 1, 100000, 2 * K64, 3 * K64 + 5,
                         rest, rest + 1, max(rest - 1, 0), rest + K64, rng.randint(0, rest + 1),
                         rng.randint(0, 2 * rest + 300), 1 << 40, (1 << 62)])
    block = rng.choice([256, 256, 257, 512, 1000, 4096, 32768, K64 - 1, K64, K64, K64 + 1, 100000, 2 * K64,
                        2 * K64, 2 * K64 + 1, 3 * K64, 200000, 300000, 1 << 31, 0xFFFFFFFF,
                        rng.randint(256, 5000), rng.randint(256, 3 * K64), rng.randint(K64, 5 * K64),
                        0, 0, 1, 255, rng.randint(1, 255)])
    alg = rng.choice(["md5", "sha1"])
    return offset, length, block, alg


OFFS = ("0", "aligned inside", "unaligned inside", "== size", "size+1", "far past")
LENS = ("0", "inside", "to EOF exactly", "past EOF")
BLKS = ("0", "256", "300", "512", "> range")
CELLS = [(o, l, b) for o in OFFS for l in LENS for b in BLKS]


def cell_params(rng, size, cell):
    """Concrete (offset, length, block) for one explicit cell; `size` >= 2000."""
    o, l, b = cell
    unit = {"256": 256, "300": 300, "512": 512}.get(b, 256)
    if o == "0":
        offset = 0
    elif o == "aligned inside":
        offset = unit * rng.randint(1, max(1, (size - 600) // unit))
    elif o == "unaligned inside":
        offset = unit * rng.randint(0, max(0, (size - 600) // unit)) + rng.randint(1, unit - 1)
    elif o == "== size":
        offset = size
    elif o == "size+1":
        offset = size + 1
    else:
        offset = size + rng.choice([70000, 1 << 20, 1 << 40])
    rest = max(size - offset, 0)
    if l == "0":
        length = 0
    elif l == "inside":
        length = rng.randint(1, rest - 1) if rest > 1 else 1
    elif l == "to EOF exactly":
        length = rest if rest > 0 else rng.choice([1, 300])
    else:
        length = rest + rng.choice([1, 255, 300, 70000])
    rng_len = rest if length == 0 else min(length, rest)
    block = {"0": 0, "256": 256, "300": 300, "512": 512}.get(b)
    if block is None:
        block = max(256, rng_len + rng.randint(1, 1000))
    return offset, length, block, rng.choice(["md5", "sha1"])


def server_spins(ctx, bench, desc):
    """Bounded progress for a request that produces neither reads nor an answer: the server thread is sampled inside
    _check_file, not parked, with no handle read and no packet for 15 s (hashing <= 400 KiB takes milliseconds)."""
    import sys
    import time
    import traceback

    p0, r0 = bench.npackets(), bench.mon.handle_reads
    seen = []
    for _ in range(6):
        time.sleep(2.5)
        fr = sys._current_frames().get(bench.server_thread.ident)
        names = [f.name for f in traceback.extract_stack(fr)] if fr is not None else []
        del fr
        seen.append("_check_file" in names and not bench.server_idle())
    if all(seen) and bench.npackets() == p0 and bench.mon.handle_reads == r0:
        ctx.count("livelocks_detected")
        ctx.violation("check-file never answers: server loops in _check_file without reading and without progress",
                      "the request was neither answered nor did the server read the file for 27 s; its thread was inside "
                      "_check_file at every sample", dict(case=desc))
        return True
    return False


def classify_reads(reads, offset, end_req, block):
    """Name the first anomaly in the server's handle reads for this request."""
    if not reads:
        return "no handle reads"
    pos = offset
    for (o, ln, got) in reads:
        if got < 0:
            return "a handle read failed"
        if o > pos:
            return "read offset jumps ahead inside the range (bytes skipped)"
        if o < pos:
            return "read offset goes backwards (bytes hashed twice)"
        if block > 0 and end_req > offset:
            bend = min(offset + ((o - offset) // block + 1) * block, end_req)
            if o + ln > bend and o < bend:
                return "a read extends past the end of its block (chunk not limited to the block remainder)"
        pos = o + got
    return "reads contiguous and block-aligned"


class _Call:
    """Run one blocking client call in a worker so a wedged server cannot wedge the shard."""

    def __init__(self, fn):
        self.res = None
        self.exc = None
        self.t = threading.Thread(target=self._run, args=(fn,), daemon=True)
        self.t.start()

    def _run(self, fn):
        try:
            self.res = fn()
        except BaseException as e:  # noqa
            self.exc = e

    def wait(self, timeout):
        self.t.join(timeout)
        return not self.t.is_alive()


def one_case(ctx, bench, f, data, size, params, shortdesc, transport="pipe", cell=None):
    offset, length, block, alg = params
    if cell is not None:
        ctx.count("cell %s | %s | %s" % cell)
    strict = block >= 256
    want, end = expected(data, offset, length, block, alg) if strict else (None, None)
    nonempty = strict and offset < end
    desc = dict(size=size, offset=offset, length=length, block=block, alg=alg, short_reads=shortdesc,
                transport=transport)
    ctx.case((size, offset, length, block, alg, shortdesc, transport),
             sample=desc if (nonempty and ctx.evaluations % 97 == 3) else None, nontrivial=nonempty)
    mon = bench.mon if bench is not None else None
    nspin = len(mon.spins) if mon else 0
    p0 = bench.npackets() if bench is not None else 0
    call = _Call(lambda: f.check(alg, offset, length, block))
    if not call.wait(12.0) and bench is not None and server_spins(ctx, bench, desc):
        return "wedged"
    if not call.wait(CALL_TIMEOUT):
        ctx.inconclusive("check-file call still running after %ds (no spin evidence from the read monitor): %r"
                         % (CALL_TIMEOUT, desc))
        return "wedged"
    ctx.count("check_calls_completed")
    rid = None
    if bench is not None:
        pk = bench.packets_from(p0)
        reqs = [p for p in pk if p["dir"] == "c2s" and p["type"] == CMD["EXTENDED"]]
        rid = reqs[0]["id"] if reqs else None
        resp = [p for p in pk if p["dir"] == "s2c" and p["id"] == rid]
        ctx.count("wire_replies_seen", len(resp))
    reads = []
    if mon is not None and rid in mon.done:
        reads = mon.done[rid]["reads"]
        ctx.count("server_handle_reads_logged", len(reads))
    # -- promptness: livelock evidence from the read monitor ------------
    if mon is not None and len(mon.spins) > nspin:
        s = mon.spins[-1]
        where = "keeps reading at/after end of file (empty reads)" if s["got"] == 0 else \
            "re-reads one offset inside the file"
        ctx.count("livelocks_detected")
        ctx.violation("check-file never answers: server " + where + " without progress",
                      "the server's check-file loop made %d fruitless reads for one request; it only stopped "
                      "because the monitor aborted it" % (mon.SPIN_LIMIT + 1), dict(case=desc, spin=s))
        return "spin"
    if not strict:
        ctx.count("liveness_only_cases")
        if block == 0 and call.exc is None and isinstance(call.res, bytes):
            # block size 0 = one hash over the range: a status is accepted (small ranges are refused by design),
            # but a digest that is returned must be the hash of [offset, end)
            w0, e0 = expected(data, offset, length, max(len(data), 1) + (1 << 41), alg)
            ctx.count("block0_digests_compared")
            if call.res != w0:
                ctx.violation("check-file with block size 0: the digest is not the hash of [offset, end of range)",
                              "one-hash reply differs from hashlib over the requested range (%d bytes returned, %d "
                              "expected)" % (len(call.res), len(w0)), dict(case=desc, got=call.res[:40], want=w0[:40]))
                return "bad"
            ctx.count("block0_replies_equal_single_hash")
        return "ok"
    if call.exc is not None:
        if isinstance(call.exc, IOError) and not nonempty:
            ctx.count("empty_range_answered_with_status")
            return "ok"
        if isinstance(call.exc, IOError):
            ctx.count("digest_comparisons")
            ctx.violation("check-file answered a non-empty range with block size >= 256 by an error status",
                          "the server refused a valid check-file request: %r" % (call.exc,),
                          dict(case=desc, error=repr(call.exc)))
            return "bad"
        ctx.violation("check-file client call raised %s" % type(call.exc).__name__,
                      "SFTPFile.check raised %r" % (call.exc,), dict(case=desc))
        return "bad"
    got = call.res
    ctx.count("digest_comparisons")
    if bench is not None and resp:
        r = resp[-1]
        if r["type"] != CMD["EXTENDED_REPLY"]:
            ctx.violation("check-file success reply has packet type %d" % r["type"],
                          "check-file reply is not EXTENDED_REPLY", dict(case=desc))
            return "bad"
        # extended reply = id, "check-file", algorithm name, digests
        b = r["body"]
        try:
            n1 = int.from_bytes(b[4:8], "big")
            n2 = int.from_bytes(b[8 + n1:12 + n1], "big")
            name = b[12 + n1:12 + n1 + n2]
        except Exception:
            name = None
        ctx.count("reply_algorithm_names_checked")
        if name != alg.encode():
            ctx.violation("check-file reply names a different hash algorithm than requested",
                          "requested %s, reply says %r" % (alg, name), dict(case=desc))
            return "bad"
    if got == want:
        ctx.count("digests_equal")
        if nonempty:
            ctx.count("blocks_verified", len(want) // hashlib.new(alg).digest_size)
            if block > K64:
                ctx.count("cases_block_gt_64k_verified")
            if length and offset + length > size:
                ctx.count("cases_range_past_eof_verified")
        else:
            ctx.count("empty_range_answered_with_empty_digests")
        return "ok"
    dsz = hashlib.new(alg).digest_size
    if len(got) != len(want):
        kind = "wrong number of digests (%s)" % ("too many" if len(got) > len(want) else "too few")
    else:
        kind = "wrong digest bytes"
    end_req = size if length == 0 else offset + length
    why = classify_reads(reads, offset, end_req, block) if mon is not None else "reads not observed (ssh)"
    sig = "check-file digests wrong: " + (why if "contiguous" not in why else kind + ", " + why)
    ctx.violation(sig,
                  "check-file digests differ from hashlib over the served bytes (%d digests returned, %d expected)"
                  % (len(got) // dsz, len(want) // dsz),
                  dict(case=desc, got=got[:64], want=want[:64], reads=reads[:12]))
    return "bad"


def run_pipe(ctx, ncases_total):
    rng = ctx.rng
    done = 0
    while done < ncases_total:
        root = tempfile.mkdtemp(prefix="vf-c32-")
        bench = None
        try:
            bench = MonBench(root)
            shortdesc = rng.choice(["full", "full", "full", "max4096", "max30000", "max65535", "random"])
            if shortdesc == "full":
                bench.mon.short = None
            elif shortdesc == "random":
                srng = __import__("random").Random(rng.getrandbits(32))
                bench.mon.short = lambda n, srng=srng: srng.choice([n, n, max(1, n // 2), srng.randint(1, max(1, n)),
                                                                  max(1, n - 1), 8192])
            else:
                cap = int(shortdesc[3:])
                bench.mon.short = lambda n, cap=cap: cap
            for _fi in range(3):
                size = gen_size(rng) if _fi == 0 else rng.choice([2000, 5000, 40000, K64 + 1, 100000, 2 * K64, 140000, 300000])
                data = rng.randbytes(size)
                name = "f%d" % _fi
                with open(os.path.join(root, name), "wb") as fh:
                    fh.write(data)
                f = bench.client.open("/" + name, "r")
                wedged = False
                for _ in range(rng.randint(6, 14)):
                    if done >= ncases_total:
                        break
                    cell = None
                    if done % 2 == 1 and size >= 2000:
                        cell = CELLS[(done // 2 + ctx.shard * 17) % len(CELLS)]
                        params = cell_params(rng, size, cell)
                    else:
                        params = gen_params(rng, size)
                    r = one_case(ctx, bench, f, data, size, params, shortdesc, cell=cell)
                    done += 1
                    if r == "wedged":
                        wedged = True
                        break
                if wedged:
                    return False
                try:
                    f.close()
                except Exception:
                    pass
        finally:
            if bench is not None:
                bench.close()
            shutil.rmtree(root, ignore_errors=True)
    return True


def run_ssh(ctx, ncases):
    """A sample of the same cases over a full SSH session (real Transport/Channel underneath)."""
    import paramiko
    from vf import pair
    from vf.sftpd2 import MonDirServer as DirServer  # raw (unbuffered) served files

    rng = ctx.rng
    root = tempfile.mkdtemp(prefix="vf-c32s-")
    p = None
    try:
        p = pair.Pair(rng=rng)
        p.ts.set_subsystem_handler("sftp", paramiko.SFTPServer, DirServer, root=root)
        if not (p.start() and p.auth()):
            ctx.inconclusive("ssh sample: handshake/auth failed: %r %r" % (p.client_exc, p.server_exc))
            return
        sftp = paramiko.SFTPClient.from_transport(p.tc)
        for i in range(ncases):
            size = gen_size(rng)
            data = rng.randbytes(size)
            with open(os.path.join(root, "s%d" % i), "wb") as fh:
                fh.write(data)
            f = sftp.open("/s%d" % i, "r")
            for _ in range(3):
                r = one_case(ctx, None, f, data, size, gen_params(rng, size), "full", transport="ssh")
                ctx.count("ssh_cases")
                if r == "wedged":
                    return
            f.close()
        sftp.close()
    finally:
        if p is not None:
            p.close()
        shutil.rmtree(root, ignore_errors=True)


def run(ctx):
    n = ctx.pick(260, 1800)
    ok = run_pipe(ctx, n)
    if ok and not ctx.quick and ctx.shard % 4 == 0:
        ctx.guard(run_ssh, ctx, 12)
    for cell in CELLS:
        ctx.require("cell %s | %s | %s" % cell, ctx.pick(2, 25))
    ctx.require("block0_digests_compared", ctx.pick(40, 600))
    ctx.require("check_calls_completed", ctx.pick(600, 6000))
    ctx.require("digest_comparisons", ctx.pick(300, 4000))
    ctx.require("server_handle_reads_logged", ctx.pick(1000, 10000))
    ctx.require("wire_replies_seen", ctx.pick(600, 6000))
