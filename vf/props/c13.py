"""C13 — blocking calls return once the connection ends.

Matrix: blocking API call x kind of connection loss x timing (call parked
before the loss / loss injected while the call is entering / call made after
the loss) x timeout.  Every case runs in its own subprocess (vf.c13_case via
vf.iso.call) against a fresh pair of real Transports; the child samples its
own thread stacks and reports a structured verdict following DESIGN 2.4:
a call is *blocked* only if the link is drained and silent, every other
workload thread is finished or parked, and the call's paramiko stack is
unchanged over all samples of a >= 10 s (quick) / 20 s (thorough) window.
A watchdog that fires without that is inconclusive.
"""
import concurrent.futures
import os
import time
import zlib

from vf import iso
from vf.c13_zygote import Zygote
from vf.c13_case import CALLS, PEER_MSGS, PRE_ACTIONS, SHAPES_RECV, SHAPES_SEND, api_name

META = dict(
    title="blocking calls return once the connection ends",
    level="fault_enumeration",
    design_ref="§3 C13",
    technique="API recorder + in-process stack sampler applying the blocked-at-quiescence hang rule; "
              "fault injection over NetSim, real TCP and a real ProxyCommand relay; single-preemption "
              "of the caller at paramiko LINE granularity for the 'during' timing",
    text="Every blocking call of the statement (recv, recv_stderr, send/sendall with an exhausted window, "
         "channel requests awaiting a reply, recv_exit_status, open_channel/open_session, each auth_* of "
         "Transport and ServiceRequestingTransport both before SERVICE_ACCEPT and before the auth reply, "
         "accept(None)/accept(t) with one and two waiters, global_request/request_port_forward, "
         "renegotiate_keys, SFTP requests over a real channel) is run against every loss kind (peer "
         "close(), link EOF, abrupt reset, exit of a real ProxyCommand relay process by command/SIGKILL/"
         "SIGTERM/TCP close, local close(), protocol garbage: bad MAC / data for an unknown channel / "
         "DISCONNECT, and a loss first noticed by a user thread's failing write while inbound requests "
         "needing a reply + FIN are still queued) with the call parked before the loss, made after it, and with the loss injected "
         "while the calling thread is parked at a chosen paramiko source line inside the call. After each "
         "loss the victim must report is_active()==False and every call must return or raise. The quick "
         "tier visits each call x loss cell once with rotating timing plus pinned cells; thorough visits "
         "all timings, both roles, three media and sweeps the preemption line. gssapi auth is not "
         "exercised (no GSS library).",
    note="Trusts sys._current_frames() sampling and the NetSim/TCP byte counters for quiescence. 'Promptly' is "
         "judged as bounded progress (stack unchanged for 100x the library's 0.1 s poll interval at "
         "quiescence), never by a wall-clock bound. The peer's reader thread is parked by a read hook so "
         "requests stay unanswered; the victim Transport is unmodified (WireTap packetizer via the public seam).",
    rule="case = (call, role, medium, loss kind+variant, timing, preemption line or fraction, timeout); "
         "distinct = that tuple; trivial (not counted) = a timeout variant that expired before the loss, "
         "or a preemption line the call never reached",
    assumptions=[
        "a thread whose paramiko frames are unchanged over >=8 samples spanning >=10 s while the link is "
        "drained and all other threads are parked is blocked, not slow",
        "auth_timeout is disabled (None) so that auth_* ends because of the loss, not the 30 s timer",
    ],
)

TIMEOUT = {"quick": 1500, "thorough": 1900}

LINK_LOSSES = [
    ("send_fails_first", "global_request"),
    ("send_fails_first", "channel_request"),
    ("peer_close", None),
    ("link_eof", None),
    ("link_abrupt", None),
    ("local_close", None),
    ("garbage", "bad_mac"),
    ("garbage", "unknown_channel"),
    ("garbage", "disconnect"),
]
PROXY_EXITS = ["usr1", "kill", "tcp_close", "term"]
TIMINGS = ["before", "during", "after"]
CHANNEL_REQUESTS = ["exec_command", "invoke_shell", "get_pty", "invoke_subsystem", "request_x11"]
GARBAGE = ["bad_mac", "unknown_channel", "disconnect"]
READING_CALLS = ["recv", "recv_stderr", "recv_exit_status", "file_read", "sftp_stat"]
PEER_MSG_PARKED = ["recv", "recv_stderr", "recv_exit_status", "send", "sftp_stat"]
PEER_MSG_LATER = ["exec_command", "invoke_shell"]
SHAPE_CALLS = ["recv", "accept", "exec_command", "auth_password", "global_request", "recv_exit_status",
               "open_session", "sftp_stat", "renegotiate_keys"]
SHAPE_VARIANTS = ["recv:" + x for x in SHAPES_RECV] + ["send:" + x for x in SHAPES_SEND]


def shards(tier):
    return 8 if tier == "quick" else 16


def mk(call, loss, variant, timing, medium="link", role=None, tmo=None, f=None, k=None, **kw):
    role = role or CALLS[call]["roles"][0]
    if medium == "proxy":
        role = "client"
    a = dict(call=call, loss=loss, variant=variant, timing=timing, medium=medium, role=role, tmo=tmo)
    if timing == "during":
        if kw.get("at"):
            pass
        elif k is not None:
            a["k"] = k
        else:
            a["f"] = 0.5 if f is None else f
    a.update(kw)
    return a


# preemption points named by source line (robust to line shifts): the caller
# is parked just before executing a line of `qualname` containing `text`
AT_EVENT_PENDING = {
    "exec_command": ("Channel.exec_command", "self._event_pending()"),
    "invoke_shell": ("Channel.invoke_shell", "self._event_pending()"),
    "get_pty": ("Channel.get_pty", "self._event_pending()"),
    "invoke_subsystem": ("Channel.invoke_subsystem", "self._event_pending()"),
    "request_x11": ("Channel.request_x11", "self._event_pending()"),
    "open_sftp_client": ("Channel.invoke_subsystem", "self._event_pending()"),
}
AT_CHANNEL_REGISTERED = ("Transport.open_channel", "self.channel_events[chanid] = event")
AT_ACCEPT_WAIT = ("Transport.accept", "self.server_accept_cv.wait(timeout)")


def pinned(call, seed, ci):
    """Cells visited at every seed: the places where a lost wake-up is most
    likely (a waiter that checks a flag and then waits on an event)."""
    out = []
    rot = ["peer_close", "link_abrupt", "local_close", "link_eof"]
    if call in AT_EVENT_PENDING:
        out.append(mk(call, rot[(ci + seed) % 4], None, "during", at=AT_EVENT_PENDING[call]))
    if call in ("open_session", "open_channel", "open_sftp_client"):
        out.append(mk(call, rot[(ci + seed) % 4], None, "during", at=AT_CHANNEL_REGISTERED))
    if call == "accept":
        out.append(mk(call, "local_close", None, "after"))
        out.append(mk(call, "peer_close", None, "before"))
        out.append(mk(call, rot[(ci + seed) % 4], None, "during", at=AT_ACCEPT_WAIT))
    if call == "accept_x2":
        out.append(mk(call, "peer_close", None, "before"))
        out.append(mk(call, "link_eof", None, "before", role="client"))
    if call.endswith("_svc"):
        out.append(mk(call, "link_eof", None, "before"))
        out.append(mk(call, "garbage", "disconnect", "before"))
    return out


def quick_cases(ctx, calls):
    """Each call x each of the six loss kinds once, timing rotating with the
    seed (Latin square), plus pinned cells that do not depend on the seed."""
    import random

    rng = random.Random(ctx.seed * 7919 + 11)  # the same plan in every shard
    out = []
    names = sorted(CALLS)
    for call in calls:
        ci = names.index(call)
        spec = CALLS[call]
        n_base = None
        # fixed at every seed: parked before a local close (the shutdown path that skips the
        # wake-ups of run()), and the call made after a remote loss
        out.append(mk(call, "local_close", None, "before"))
        out.append(mk(call, "link_eof", None, "after"))
        # rotating with the seed: the three timings over the three other remote kinds
        for li, kind in enumerate(["peer_close", "link_abrupt", "garbage"]):
            timing = TIMINGS[(ci + li + ctx.seed) % 3]
            f = round(rng.random(), 3)
            var = GARBAGE[(ci + ctx.seed) % 3] if kind == "garbage" else None
            out.append(mk(call, kind, var, timing, f=f))
        out.append(mk(call, "proxy_exit", PROXY_EXITS[(ci + ctx.seed) % 4], TIMINGS[(ci + ctx.seed) % 3],
                      medium="proxy", f=round(rng.random(), 3)))
        # the loss is first seen by a user thread's failing write, while inbound messages that need a
        # reply (then FIN) are still queued for the reader
        sff = "channel_request" if spec["need"] in ("chan", "chanfull", "sftp") else "global_request"
        out.append(mk(call, "send_fails_first", sff, TIMINGS[(ci + 2 + ctx.seed) % 3], f=round(rng.random(), 3)))
        if call in ("recv", "recv_exit_status", "accept", "exec_command", "global_request", "sftp_stat"):
            out.append(mk(call, "send_fails_first", "global_request", "before"))
        out.extend(pinned(call, ctx.seed, ci))
        for c in out:
            c.setdefault("_extra", False)  # the call's own column: stays in the call's shard (measures N there)
        if call in READING_CALLS:
            # a local action on the channel precedes the loss; two cells per (action, call): the reader parked
            # before the loss, and the read made after / while the loss (loss kind rotating with the seed)
            for pi, pre in enumerate(PRE_ACTIONS):
                l1 = ["peer_close", "link_eof", "local_close", "link_abrupt"][(ci + pi + ctx.seed) % 4]
                l2 = ["local_close", "peer_close", "link_eof", "link_abrupt"][(ci + pi + ctx.seed) % 4]
                out.append(mk(call, l1, None, "before", pre=pre))
                out.append(mk(call, l2, None, ["after", "during"][(ci + pi + ctx.seed) % 2], pre=pre,
                              f=round(rng.random(), 3)))
        # an orderly DISCONNECT from the peer (the transport ends without a saved exception)
        if not (call.endswith("_svc")):
            out.append(mk(call, "garbage", "disconnect", "before" if spec.get("auth") else TIMINGS[(ci + 1 + ctx.seed) % 3],
                          f=round(rng.random(), 3)))
        if call in SHAPE_CALLS:
            # shape of the exception raised by the socket-like object, from recv and from send
            sc = SHAPE_CALLS.index(call)
            for si, sv in enumerate(SHAPE_VARIANTS):
                if (si + sc + ctx.seed) % 3 == 0:
                    out.append(mk(call, "sock_raises", sv, TIMINGS[(si // 3 + sc + ctx.seed) % 3], f=round(rng.random(), 3)))
        if call in PEER_MSG_PARKED or call in PEER_MSG_LATER:
            # a protocol-level message from the peer names the established channel, then the loss
            for pi, pm in enumerate(PEER_MSGS):
                loss = ["peer_close", "link_eof", "local_close", "link_abrupt"][(ci + pi + ctx.seed) % 4]
                if call in PEER_MSG_PARKED:
                    out.append(mk(call, loss, None, "before", pre=pm))
                    if pm in ("peer_open_failure", "peer_open_confirm_dup"):
                        out.append(mk(call, ["local_close", "peer_close", "link_abrupt", "link_eof"][(ci + pi + ctx.seed) % 4],
                                      None, "after", pre=pm))
                else:
                    out.append(mk(call, loss, None, "after", pre=pm))
                    if pm == "peer_open_failure":
                        out.append(mk(call, "peer_close", None, "during", pre=pm, at=AT_EVENT_PENDING[call]))
        if len(spec["roles"]) > 1:
            out.append(mk(call, ["peer_close", "local_close", "link_eof"][(ci + ctx.seed) % 3], None,
                          TIMINGS[(ci + ctx.seed) % 3], role=spec["roles"][1], f=f))
        if spec.get("tmo"):
            if (ci + ctx.seed) % 2:
                out.append(mk(call, "link_eof", None, "before", tmo=2.0))
            else:
                out.append(mk(call, "peer_close", None, "after", tmo=[0.0, 0.3][(ci // 2 + ctx.seed) % 2]))
        for c in out:
            c.setdefault("_extra", True)  # the added dimensions: dealt round-robin over the shards
    return out


def thorough_base(ctx, calls):
    """P1: both roles x every NetSim loss (all garbage variants) x {before, after}, and every way the
    real ProxyCommand relay can exit x {before, after}."""
    out = []
    for call in calls:
        spec = CALLS[call]
        for role in spec["roles"]:
            for loss, var in LINK_LOSSES:
                for timing in ("before", "after"):
                    out.append(mk(call, loss, var, timing, role=role))
        for var in PROXY_EXITS:
            for timing in ("before", "after"):
                out.append(mk(call, "proxy_exit", var, timing, medium="proxy"))
    return out


def thorough_extra(ctx, calls):
    """P3: real TCP sockets, the other loss kinds over the ProxyCommand, timeouts."""
    out = []
    for call in calls:
        spec = CALLS[call]
        for role in spec["roles"]:
            for loss, var in (("peer_close", None), ("link_abrupt", None), ("link_eof", None)):
                for timing in ("before", "after"):
                    out.append(mk(call, loss, var, timing, role=role, medium="tcp"))
        for loss, var in (("local_close", None), ("peer_close", None), ("garbage", "bad_mac")):
            for timing in ("before", "after"):
                out.append(mk(call, loss, var, timing, medium="proxy"))
        if call in READING_CALLS:
            for role in spec["roles"]:
                for pre in PRE_ACTIONS:
                    for loss in ("peer_close", "link_eof", "link_abrupt", "local_close"):
                        for timing in ("before", "after"):
                            out.append(mk(call, loss, None, timing, role=role, pre=pre))
                    out.append(mk(call, "proxy_exit", "kill", "before", medium="proxy", pre=pre))
                    out.append(mk(call, "garbage", "bad_mac", "before", role=role, pre=pre))
                    out.append(mk(call, "send_fails_first", "global_request", "before", role=role, pre=pre))
        for sv in SHAPE_VARIANTS:
            for timing in ("before", "after"):
                out.append(mk(call, "sock_raises", sv, timing))
        if call in PEER_MSG_PARKED or call in PEER_MSG_LATER:
            for role in spec["roles"]:
                for pm in PEER_MSGS:
                    for loss, var in LINK_LOSSES:
                        for timing in ("before", "after"):
                            out.append(mk(call, loss, var, timing, role=role, pre=pm))
                    out.append(mk(call, "proxy_exit", "kill", "before", medium="proxy", pre=pm))
                    out.append(mk(call, "proxy_exit", "usr1", "after", medium="proxy", pre=pm))
        if spec.get("tmo"):
            for loss, var in (("peer_close", None), ("local_close", None), ("link_abrupt", None)):
                out.append(mk(call, loss, var, "before", tmo=2.0))
                for t in (0.0, 0.3):
                    out.append(mk(call, loss, var, "after", tmo=t))
    return out


def thorough_during(ctx, calls, nlines):
    """Preemption-line sweep: for one loss kind per call every line up to the
    first wait (thinned to ~36 points when the call executes more), for the
    other kinds two seeded fractions each."""
    rng = ctx.rng
    out = []
    names = sorted(CALLS)
    for call in calls:
        spec = CALLS[call]
        n = nlines.get(call)
        if not n:
            continue
        ci = names.index(call)
        sweep_loss, sweep_var = LINK_LOSSES[(ci + ctx.seed) % len(LINK_LOSSES)]
        if n <= 36:
            ks = list(range(n))
        else:
            ks = sorted(set(list(range(10)) + list(range(n - 10, n)) + [int(i * n / 16) for i in range(16)]))
        for k in ks:
            out.append(mk(call, sweep_loss, sweep_var, "during", k=k))
        for role in spec["roles"]:
            for loss, var in LINK_LOSSES:
                if (loss, var) == (sweep_loss, sweep_var) and role == spec["roles"][0]:
                    continue
                out.append(mk(call, loss, var, "during", role=role, k=rng.randrange(n)))
        for var in PROXY_EXITS:
            out.append(mk(call, "proxy_exit", var, "during", medium="proxy", k=rng.randrange(n)))
        out.append(mk(call, "peer_close", None, "during", medium="tcp", k=rng.randrange(n)))
        out.append(mk(call, "link_abrupt", None, "during", medium="tcp", k=rng.randrange(n)))
        out.extend(c for c in pinned(call, ctx.seed, ci) if c.get("at"))
    return out


# --------------------------------------------------------------------------
# judging one child result

TIMING_TEXT = dict(before="call blocked before the loss", during="loss while the call was entering",
                   after="call made after the loss")


def loss_name(a):
    loss = a["loss"]
    if loss == "proxy_exit":
        return "ProxyCommand process exit"
    if loss == "garbage":
        return "protocol garbage (%s)" % a["variant"]
    if loss == "sock_raises":
        where, shape = a["variant"].split(":", 1)
        return "the socket object's %s raising %s" % (where, shape)
    if loss == "send_fails_first":
        return "a failed user write (send raises EPIPE while inbound requests + FIN are still queued)"
    if a["medium"] == "proxy":
        return "%s over ProxyCommand" % loss
    return loss


def family(call, tmo):
    """The call as it appears in signatures: one name per family of calls that
    share their waiting code (the witness carries the precise call)."""
    spec = CALLS[call]
    if spec.get("auth"):
        name = ("ServiceRequestingTransport" if spec.get("srt") else "Transport") + ".auth_*"
    elif call in CHANNEL_REQUESTS:
        name = "Channel request awaiting reply"
    elif call.startswith("accept"):
        name = "Transport.accept(None)" if tmo is None else "Transport.accept(timeout)"
    else:
        name = spec["api"]
    if tmo is not None and not call.startswith("accept"):
        name += " [timeout set]"
    return name


def fp(a):
    return tuple(sorted((k, repr(v)) for k, v in a.items() if k not in ("seed", "window", "count_lines")))


def judge(ctx, a, res, sample=False):
    call = a["call"]
    st = res.get("status")
    if st in ("timeout", "died", "error"):
        ctx.case(fp(a), nontrivial=False)
        ctx.inconclusive("case %s: child %s: %s" % (a, st, (res.get("stacks") or res.get("error") or res.get("stderr") or "")[-600:]))
        return
    v = res.get("value") or {}
    if v.get("status") == "setup_failed":
        ctx.case(fp(a), nontrivial=False)
        ctx.inconclusive("case %s: setup failed: %s" % (a, (v.get("error") or "")[-600:]))
        return
    verdict = v.get("verdict")
    api = family(call, a.get("tmo"))
    precise_api = v.get("api") or api_name(call, a.get("tmo"))
    nontrivial = True
    if verdict == "premature":
        nontrivial = False
    if a["timing"] == "during" and not v.get("k_reached"):
        nontrivial = False
    desc = dict(call=call, api=precise_api, role=a["role"], medium=a["medium"], loss=a["loss"], variant=a["variant"],
                pre=a.get("pre"), timing=a["timing"], k=v.get("k"), k_where=v.get("k_where"), tmo=a.get("tmo"), verdict=verdict,
                callers=v.get("callers"), active_after=v.get("active"))
    ctx.case(fp(a), sample=desc if sample else None, nontrivial=nontrivial)
    ctx.count("cases_run")
    ctx.count("loss_" + a["loss"])
    ctx.count("timing_" + a["timing"])
    ctx.count("medium_" + a["medium"])
    if a["loss"] == "sock_raises":
        ctx.count("shape_" + a["variant"].replace(":", "_"))
    if a["loss"] == "garbage" and a["variant"] == "disconnect":
        ctx.count("loss_peer_disconnect")
    if v.get("v_thread_done_at_call"):
        ctx.count("calls_made_after_transport_thread_finished")
    pre = a.get("pre")
    if pre:
        ctx.count("pre_" + pre)
        ctx.count("cell_%s__%s" % (pre, call))
        if v.get("pre_seen"):
            ctx.count("peer_msgs_decoded_by_victim")
    ctx.count("tap_messages_seen", v.get("msgs_total") or v.get("msgs_before") or 0)
    if v.get("relay_gone"):
        ctx.count("relay_process_exits_observed")
    if (v.get("writer") or {}).get("outcome", "").startswith("raise"):
        ctx.count("failed_user_writes_observed")
    if a["timing"] == "during":
        ctx.count("preemption_points_reached" if v.get("k_reached") else "preemption_points_not_reached")
        if a.get("at"):
            ctx.count("named_preemption_points_reached" if v.get("k_reached") else "named_preemption_points_missed")
    if v.get("inject_error"):
        ctx.inconclusive("case %s: loss injection failed: %s" % (a, v["inject_error"][-400:]))
        return
    witness = dict(args=a, result={k: v.get(k) for k in (
        "api", "verdict", "window", "active", "drained", "callers", "blocked", "vthread", "pthread",
        "k", "k_where", "k_reached", "relay_gone", "v_exception", "call_made", "v_tail", "crashes", "link_log", "msgs_total", "phases", "inject_error", "writer")})
    if verdict == "ok":
        if pre:
            ctx.count("pre_%s_calls_completed" % pre, len(v.get("callers") or []))
        ctx.count("transport_inactive_after_loss")
        for c in v.get("callers") or []:
            ctx.count("calls_returned" if c.get("outcome") == "return" else "calls_raised")
            ctx.count("calls_completed_after_loss")
        return
    if verdict == "premature":
        if pre and v.get("parked_after_pre") == "premature":
            ctx.count("pre_action_itself_ended_the_call")
        elif a.get("tmo") is None:
            ctx.inconclusive("case %s: the call came back before the loss was injected: %s" % (a, v.get("callers")))
        else:
            ctx.count("timeout_expired_before_loss")
        return
    if verdict == "unsettled":
        ctx.inconclusive("case %s: watchdog fired without quiescence (%s): window=%s active=%s drained=%s blocked=%s"
                         % (a, v.get("why", ""), v.get("window"), v.get("active"), v.get("drained"),
                            [(b.get("innermost"), b.get("callee")) for b in v.get("blocked") or v.get("stacks") or []]))
        return
    if verdict == "inject_blocked":
        inj = v.get("injector") or {}
        if a["loss"] == "local_close":
            ctx.count("hangs_at_quiescence")
            ctx.violation("Transport.close() blocked in %s/%s while %s" % (inj.get("innermost"), inj.get("callee"), api),
                          "the local close() that ends the connection never returned", witness)
        else:
            ctx.inconclusive("case %s: the loss injector itself is blocked in %s" % (a, inj.get("full")))
        return
    if verdict == "still_active":
        vt = v.get("vthread") or {}
        if a["loss"] == "garbage" and not v.get("v_tail"):
            ctx.inconclusive("case %s: no evidence that the victim received the garbage: %s" % (a, witness["result"]))
            return
        ctx.count("hangs_at_quiescence")
        crash = [c for c in v.get("crashes") or [] if c.get("victim")]
        if not vt and crash:
            ctx.violation(
                "transport thread crashed with %s; transport left active" % crash[0]["sig"],
                "the victim's transport thread died with an uncaught exception (%s) while handling the loss, so "
                "is_active() stays True and nobody wakes the waiters" % crash[0]["text"], witness)
            return
        where = vt.get("innermost") or "<transport thread finished>"
        if vt.get("callee"):
            where += "/" + vt["callee"]
        ctx.violation(
            "transport still active after %s: transport thread in %s" % (loss_name(a), where),
            "is_active() stayed True after the connection was lost (link drained, all threads parked for %ss); "
            "calls on it stay blocked" % (v.get("window") or {}).get("span"),
            witness)
        return
    if verdict in ("blocked", "spinning"):
        ctx.count("transport_inactive_after_loss")
        ctx.count("hangs_at_quiescence")
        for c in v.get("callers") or []:
            if c.get("done"):
                ctx.count("calls_completed_after_loss")
        blocked = v.get("blocked") or []
        ncall = len(v.get("callers") or [])
        for b in blocked:
            where = b.get("innermost") or "<outside paramiko>"
            if b.get("callee"):
                where += "/" + b["callee"]
            who = api
            if 0 < len(blocked) < ncall:
                who += " (one of %d waiters woken, the rest not)" % ncall
            if verdict == "spinning":
                where = "+".join((v.get("window") or {}).get("spin_states") or [where])
            when = TIMING_TEXT[a["timing"]]
            if pre:
                when += (", %s from the peer before the loss" if pre.startswith("peer_") else ", local %s before the loss") % pre
            ctx.violation(
                "%s %s in %s after transport death (%s)" % (
                    who, "blocked" if verdict == "blocked" else "livelocked", where, when),
                "the transport is inactive, the link drained, every other thread parked, and the call has not "
                "returned for %ss with an unchanged stack" % (v.get("window") or {}).get("span"),
                witness)
        return
    ctx.inconclusive("case %s: unexpected child result %r" % (a, str(v)[:300]))


# --------------------------------------------------------------------------


def run_batch(ctx, cases, workers, window, stop_at=None, samples_wanted=0):
    done = 0
    skipped = 0

    def one(a):
        a = dict(a, seed=ctx.seed * 7919 + zlib.crc32(repr(sorted(a.items())).encode()) % 100000, window=window)
        z = STATE.get("zygote")
        t0 = time.time()
        if z is not None and not z.dead:
            res = z.call("vf.c13_case:run_case", a, timeout=8 * window + 260)
        else:
            res = iso.call("vf.c13_case:run_case", a, timeout=8 * window + 260)
        res["wall"] = round(time.time() - t0, 2)
        return a, res

    with concurrent.futures.ThreadPoolExecutor(max_workers=workers) as ex:
        futs = []
        for a in cases:
            futs.append(ex.submit(lambda a=a: None if (stop_at and time.time() > stop_at) else one(a)))
        results = []
        for fu in futs:
            r = fu.result()
            if r is None:
                skipped += 1
                continue
            results.append(r)
    for i, (a, res) in enumerate(results):
        if res.get("cpu"):
            ctx.count("case_cpu_ms", int(1000 * sum(res["cpu"])))
            if os.environ.get("VF_C13_DEBUG"):
                print("CPU", res["cpu"], "WALL", res.get("wall"), (res.get("value") or {}).get("phases"), {k: v for k, v in a.items() if k not in ("seed", "window")}, flush=True)
        a = {k: v for k, v in a.items() if k not in ("seed", "window")}
        judge(ctx, a, res, sample=(done < samples_wanted and i % 7 == 0))
        done += 1
    if skipped:
        ctx.count("cases_skipped_by_time_cap", skipped)
    return results


STATE = {}


def lines_measured(ctx, results):
    """N per call = paramiko LINE events the caller executed before it first waited (max over the
    'before' cases of this shard, which trace the caller without perturbing it)."""
    nlines = {}
    for a, r in results:
        n = (r.get("value") or {}).get("n_lines")
        if n and a.get("tmo") is None and a.get("role") == CALLS[a["call"]]["roles"][0]:
            nlines[a["call"]] = max(n, nlines.get(a["call"], 0))
    ctx.count("lines_before_first_wait_measured", sum(nlines.values()))
    return nlines


def run(ctx):
    # one process per case, forked from a warm single-threaded zygote (falls
    # back to vf.iso.call, a fresh interpreter per case, if that fails)
    try:
        STATE["zygote"] = Zygote()
    except Exception:
        STATE["zygote"] = None
    try:
        _run(ctx)
    finally:
        z = STATE.pop("zygote", None)
        if z is not None:
            ctx.note("case_processes", "forked from zygote" if not z.dead else "zygote died; vf.iso fallback")
            z.close()


def _run(ctx):
    if ctx.replay:
        a = dict(ctx.replay["witness"]["args"])
        run_batch(ctx, [a], 1, 10.0 if ctx.quick else 20.0, samples_wanted=1)
        return
    names = sorted(CALLS)
    # spread heavy/light calls evenly: shard i takes every nshards-th call
    calls = [c for i, c in enumerate(names) if ctx.mine(i)]
    window = 10.0 if ctx.quick else 20.0
    if ctx.quick:
        plan = quick_cases(ctx, names)
        extras = [c for c in plan if c["_extra"]]
        cases = [c for c in plan if not c["_extra"] and c["call"] in calls] + [
            c for i, c in enumerate(extras) if ctx.mine(i)]
        cases = [{k: v for k, v in c.items() if k != "_extra"} for c in cases]
        # phase 1: everything but the f-fraction 'during' cases; the 'before' cases also count
        # how many paramiko lines the call executes before it first waits (N per call)
        first = [dict(c, count_lines=True) if c["timing"] == "before" else c
                 for c in cases if not (c["timing"] == "during" and "f" in c)]
        res = run_batch(ctx, first, 6, window, samples_wanted=2)
        nlines = lines_measured(ctx, res)
        # phase 2: park the caller at line k = f*N and inject the loss there
        second = []
        for c in cases:
            if c["timing"] == "during" and "f" in c:
                n = nlines.get(c["call"])
                if n:
                    c = dict(c, k=min(int(c["f"] * n), n - 1))
                    del c["f"]
                second.append(c)  # (without N the child measures it itself on a second pair)
        run_batch(ctx, second, 6, window, samples_wanted=1)
        ctx.require("cases_run", 6 * len(names))
        ctx.require("calls_completed_after_loss", 2 * len(names))
        ctx.require("transport_inactive_after_loss", 2 * len(names))
        ctx.require("preemption_points_reached", 10)
        ctx.require("named_preemption_points_reached", 8)
        ctx.require("relay_process_exits_observed", 8)
        for t in TIMINGS:
            ctx.require("timing_" + t, len(names))
        for l in ("peer_close", "link_eof", "link_abrupt", "local_close", "garbage", "proxy_exit", "send_fails_first"):
            ctx.require("loss_" + l, len(names) - 4)
        ctx.require("failed_user_writes_observed", len(names) - 8)
        for pre in PRE_ACTIONS:
            ctx.require("pre_" + pre, 2 * len(READING_CALLS) - 2)
            ctx.require("pre_%s_calls_completed" % pre, len(READING_CALLS))
        for sv in SHAPE_VARIANTS:
            ctx.require("shape_" + sv.replace(":", "_"), 2)
        ctx.require("loss_peer_disconnect", len(names) - 2)
        ctx.require("calls_made_after_transport_thread_finished", len(names))
        for pm in PEER_MSGS:
            ctx.require("pre_" + pm, len(PEER_MSG_PARKED) + len(PEER_MSG_LATER) - 1)
        ctx.require("peer_msgs_decoded_by_victim", 4 * (len(PEER_MSG_PARKED) + len(PEER_MSG_LATER)))
        for pm in ("peer_open_failure", "peer_open_confirm_dup", "peer_close_other", "peer_chan_success"):
            ctx.require("pre_%s_calls_completed" % pm, len(PEER_MSG_PARKED))
        return
    stop_at = ctx.t0 + 450
    base = [dict(c, count_lines=True) if c["timing"] == "before" else c for c in thorough_base(ctx, calls)]
    res = run_batch(ctx, base, 4, window, samples_wanted=2)
    nlines = lines_measured(ctx, res)
    during = thorough_during(ctx, calls, nlines)
    # a floor of preemption cases per call runs whatever the load (named points + three lines per
    # call); the rest of the sweep, the TCP medium and the timeout variants run until the time cap
    floor, rest, seen = [], [], {}
    for c in during:
        if c.get("at") or seen.get(c["call"], 0) < 3 and c["medium"] == "link" and c["k"] % 3 == 1:
            seen[c["call"]] = seen.get(c["call"], 0) + (0 if c.get("at") else 1)
            floor.append(c)
        else:
            rest.append(c)
    run_batch(ctx, floor, 4, window, samples_wanted=1)
    rest += thorough_extra(ctx, calls)
    ctx.rng.shuffle(rest)
    ctx.note("thorough_cases_planned_this_shard", len(base) + len(floor) + len(rest))
    run_batch(ctx, rest, 4, window, stop_at=stop_at, samples_wanted=1)
    ctx.require("cases_run", 24 * len(names))
    ctx.require("calls_completed_after_loss", 20 * len(names))
    ctx.require("transport_inactive_after_loss", 20 * len(names))
    ctx.require("preemption_points_reached", 2 * len(names))
    ctx.require("relay_process_exits_observed", 6 * len(names))
