"""C14 — a server grants authentication only with its own approval and valid proof."""
import time
import traceback

import paramiko
import paramiko.auth_handler as _ah
from paramiko.server import InteractiveQuery

from vf import g2kit, keys
from vf.authkit import (AUTH_FAILED, AUTH_PARTIALLY_SUCCESSFUL, AUTH_SUCCESSFUL, MSG_USERAUTH_INFO_RESPONSE,
                        MSG_USERAUTH_GSSAPI_MIC, MSG_USERAUTH_REQUEST, MSG_USERAUTH_SUCCESS, FenceTimeout, Rd, Sess,
                        Short, episodes, parse_userauth_request, res_name, session_blob, sstr, started, u32, verify_sig)

META = dict(
    title="auth granted only with application approval and valid proof",
    level="exploration",
    design_ref="§3 C14",
    technique="scripted client + callback-logging ServerInterface + victim WireTap; every grant is matched to an "
              "approving callback of the same request and, for publickey, to an independent (cryptography-only) "
              "signature verification over this session's data",
    text="A hostile client (real Transport, taken over after a genuine key exchange) sends hand-built "
         "SERVICE_REQUEST / USERAUTH_REQUEST / INFO_RESPONSE messages: none, password, publickey (ssh-rsa, "
         "rsa-sha2-256/512, ECDSA P-256/384/521, Ed25519), keyboard-interactive with multi-round queries, "
         "gssapi-keyex with a stub GSS context, gssapi-with-mic with a stub GSSAuth; the application's answers are a "
         "seeded table over SUCCESS/PARTIAL/FAILED. Attacks: query without signature, signature flag without "
         "signature, signature made for another session id / user / service / algorithm / key, truncated and "
         "bit-flipped signatures, random orders, requests after success. The victim's history is cut into one "
         "episode per message read (exact IGNORE fences, single dispatch thread); every USERAUTH_SUCCESS on the "
         "victim's tap and every is_authenticated()==True must fall in/after an episode whose own callback "
         "returned AUTH_SUCCESSFUL and, for publickey, whose signature verifies independently. Round 3: (a) an "
         "enumerated matrix forgery kind (other key, replayed session, other user / service / algorithm, garbage, "
         "empty, truncated) x algorithm (7) x {plain key, OpenSSH certificate} x {signature labelled with the base "
         "or with the certificate algorithm name} with an application that approves the key, each session ending in "
         "the genuine login; (b) every auth callback returning values outside the three AUTH_* constants (None, "
         "True, False, 3, -1, 'yes', '', [], a misplaced InteractiveQuery): only the int AUTH_SUCCESSFUL justifies "
         "a grant. Round 4: (a) cells {application has GSS-API enabled, disabled} x {gssapi-with-mic, gssapi-keyex} x "
         "{valid, garbage, empty, other-user, other-session MIC} with gssapi callbacks that would approve: with "
         "GSS-API disabled only check_auth_none can justify a grant, and a gssapi-with-mic grant needs a MIC valid "
         "for this session and user (the stub context now verifies it); (b) RSA requests whose signature blob is "
         "labelled with another RSA algorithm than the request names (all ordered pairs, plain and certificate), "
         "bytes garbage / by another key / replayed / valid under the label's hash: a signature counts as valid "
         "for a request only if its label names the request's algorithm.",
    note="A request with a method name the server does not implement (or a gssapi method while the application "
         "disabled GSS-API) is answered from check_auth_none(username); a grant there counts as approved by the "
         "application ('none' approved for that user). Algorithm/hash mismatches inside an otherwise valid RSA "
         "signature are C07's subject and are not generated here. gssapi-with-mic server side is unreachable on this "
         "tree (TypeError on the first token): counted, judged only by the generic grant rule.",
    rule="case = one session: (policy table, key/algorithm, ordered list of crafted requests); distinct = hash of "
         "the session descriptor; non-trivial = the victim read at least one USERAUTH_REQUEST",
    assumptions=["the victim dispatches inbound messages on a single thread, so callbacks and replies between two "
                 "reads belong to the first message",
                 "cryptography's verify() is the reference for signature validity"],
)

S, P, F = AUTH_SUCCESSFUL, AUTH_PARTIALLY_SUCCESSFUL, AUTH_FAILED


def shards(tier):
    return 8 if tier == "quick" else 16


TIMEOUT = {"quick": 240, "thorough": 1500}

CB_FOR = {
    b"none": "check_auth_none",
    b"password": "check_auth_password",
    b"publickey": "check_auth_publickey",
    b"keyboard-interactive": "check_auth_interactive",
    b"gssapi-keyex": "check_auth_gssapi_keyex",
    b"gssapi-with-mic": "check_auth_gssapi_with_mic",
}
OWN_ONLY = (b"password", b"publickey", b"keyboard-interactive")

KRB5_OID = bytes.fromhex("06092a864886f712010202")


# ---------------------------------------------------------------------------
# GSS stubs (no GSS-API library on this image; these stand in for the third-party context)

MIC_KEY = b"vf-c14-gss-stub-key"


def stub_mic(session_id, username):
    """The MIC the stub GSS context accepts: a keyed tag over this session's id and the user name."""
    import hashlib
    import hmac

    return hmac.new(MIC_KEY, sstr(bytes(session_id)) + sstr(username or ""), hashlib.sha256).digest()


class StubKexCtx:
    """Stands in for the context a GSS key exchange leaves behind: verifies the MIC, raises on anything else."""

    def __init__(self):
        self.calls = 0

    def ssh_check_mic(self, mic_token, session_id, username=None):
        import hmac

        self.calls += 1
        if not hmac.compare_digest(bytes(mic_token), stub_mic(session_id, username)):
            raise ValueError("stub GSS context: MIC verification failed")


class StubGSSAuth:
    def __init__(self, method="gssapi-with-mic"):
        self.method = method

    def ssh_check_mech(self, desired_mech):
        return True

    def ssh_gss_oids(self, mode="client"):
        return u32(1) + sstr(KRB5_OID)

    def ssh_accept_sec_context(self, hostname, recv_token, username=None):
        return None

    def ssh_check_mic(self, mic_token, session_id, username=None):
        # round 4: verifies like StubKexCtx (before, any MIC was accepted and the MIC never decided anything)
        import hmac

        if not hmac.compare_digest(bytes(mic_token), stub_mic(session_id, username)):
            raise ValueError("stub GSS context: MIC verification failed")


def install_gss_stub():
    _ah.GSSAuth = lambda method, *a, **kw: StubGSSAuth(method)


# ---------------------------------------------------------------------------
# key material

_KEYS = {}


def keyset():
    if not _KEYS:
        _KEYS["rsa"] = (keys.rsa(), keys.rsa(1024, 1), ["ssh-rsa", "rsa-sha2-256", "rsa-sha2-512"])
        _KEYS["ecdsa256"] = (keys.ecdsa(256), keys.ecdsa(256, 1), ["ecdsa-sha2-nistp256"])
        _KEYS["ecdsa384"] = (keys.ecdsa(384), keys.ecdsa(384, 1), ["ecdsa-sha2-nistp384"])
        _KEYS["ecdsa521"] = (keys.ecdsa(521), keys.ecdsa(521, 1), ["ecdsa-sha2-nistp521"])
        _KEYS["ed25519"] = (keys.ed25519(), keys.ed25519(1), ["ssh-ed25519"])
    return _KEYS


KEY_ALGS = [("rsa", "ssh-rsa"), ("rsa", "rsa-sha2-256"), ("rsa", "rsa-sha2-512"), ("ecdsa256", "ecdsa-sha2-nistp256"),
            ("ecdsa384", "ecdsa-sha2-nistp384"), ("ecdsa521", "ecdsa-sha2-nistp521"), ("ed25519", "ssh-ed25519")]

PK_ATTACKS = ["valid", "query", "query_with_sig", "flag_no_sig", "replay_other_session", "changed_user",
              "changed_service", "changed_alg", "changed_blob_signed_data", "changed_blob_presented", "changed_sid",
              "trunc_sig", "trunc_packet", "bitflip_sig"]

ATTACK_CLASS = {
    "query": "no signature attached", "query_with_sig": "no signature attached",
    "flag_no_sig": "signature flag set but no signature",
    "replay_other_session": "signature made for another session id", "changed_sid": "signature made for another session id",
    "changed_user": "signature made for another username", "changed_service": "signature made for another service",
    "changed_alg": "signature made for another algorithm name",
    "changed_blob_signed_data": "signature made over another key blob",
    "changed_blob_presented": "signature made by another key",
    "trunc_sig": "truncated signature", "trunc_packet": "truncated signature", "bitflip_sig": "corrupted signature",
}

_OLD_SIDS = []


def sign(key, data, alg):
    if key.get_name() == "ssh-rsa":
        return key.sign_ssh_data(data, alg).asbytes()
    return key.sign_ssh_data(data).asbytes()


def pk_body(user, service, alg, blob, flag, sigfield=None):
    b = sstr(user) + sstr(service) + sstr("publickey") + (b"\x01" if flag else b"\x00") + sstr(alg) + sstr(blob)
    if sigfield is not None:
        b += sstr(sigfield)
    return b


# ---------------------------------------------------------------------------
# round 3: forgery kind x key family x {plain key, certificate} cells

CERT = g2kit.CERT
FAMILY = {"rsa": "rsa", "ecdsa256": "ecdsa", "ecdsa384": "ecdsa", "ecdsa521": "ecdsa", "ed25519": "ed25519"}
FAMILIES = ["rsa", "ecdsa", "ed25519"]
CELL_FORGERIES = ["other_key", "replay_session", "other_user", "other_service", "other_alg", "garbage", "empty",
                  "truncated"]
CELL_CLASS = {
    "other_key": "signature made by another key", "replay_session": "signature made for another session id",
    "other_user": "signature made for another username", "other_service": "signature made for another service",
    "other_alg": "signature made for another algorithm name", "garbage": "garbage signature",
    "empty": "empty signature", "truncated": "truncated signature",
}
_CERTS = {}


def certs():
    """kname -> (certificate of the key the application approves, certificate of the other key)."""
    if not _CERTS:
        import random

        r = random.Random(14)
        ca = keys.ed25519(2)
        for kname, (key, alt, _) in keyset().items():
            _CERTS[kname] = (g2kit.make_cert(r, key, ca), g2kit.make_cert(r, alt, ca, serial=2))
    return _CERTS


def make_cell_pk(rng, sid, user, kname, base_alg, form, forgery, label, quick=True):
    """publickey request of one cell: `form` plain|cert (what is presented and named in the request), `forgery`
    valid or one of CELL_FORGERIES, `label` base|cert (the algorithm name inside the signature blob)."""
    key, alt, algs = keyset()[kname]
    if form == "cert":
        blob, alg = certs()[kname][0], base_alg + CERT
    else:
        blob, alg = key.asbytes(), base_alg
    svc = "ssh-connection"

    # round 4: label "as:<other RSA algorithm>" — the blob is labelled with, and (where it is a real signature)
    # hashed for, another algorithm than the request names
    hash_alg = label[3:] if label.startswith("as:") else base_alg

    def sigbytes(k, data):
        r = Rd(sign(k, data, hash_alg))
        r.string()
        return r.string()

    good = session_blob(sid, user, svc, alg, blob)
    lab = hash_alg if label.startswith("as:") else (base_alg if label == "base" else base_alg + CERT)
    if forgery == "valid":
        sb = sigbytes(key, good)
    elif forgery == "other_key":
        sb = sigbytes(alt, good)
    elif forgery == "replay_session":
        other = rng.choice(_OLD_SIDS[:-1]) if len(_OLD_SIDS) > 1 else rng.randbytes(len(sid))
        if other == sid:
            other = rng.randbytes(len(sid))
        sb = sigbytes(key, session_blob(other, user, svc, alg, blob))
    elif forgery == "other_user":
        other = rng.choice([user + "x", "root" if user != "root" else "toor", user.upper()])
        sb = sigbytes(key, session_blob(sid, other, svc, alg, blob))
    elif forgery == "other_service":
        sb = sigbytes(key, session_blob(sid, user, rng.choice(["ssh-userauth", "ssh-connectio", ""]), alg, blob))
    elif forgery == "other_alg":
        # the plain <-> certificate counterpart of the requested name (what a signature made for the same key in
        # the other form carries); thorough also another algorithm of the family
        cands = [base_alg if form == "cert" else base_alg + CERT]
        if not quick:
            cands += [a + sfx for a in algs for sfx in ("", CERT) if a + sfx != alg]
        sb = sigbytes(key, session_blob(sid, user, svc, rng.choice(cands), blob))
    elif forgery == "garbage":
        n = len(sigbytes(key, good))
        if base_alg.startswith("ecdsa"):
            # two well-framed random integers (random framing could declare a 4 KiB..1 MiB mpint, see make_pk)
            half = {"ecdsa-sha2-nistp256": 32, "ecdsa-sha2-nistp384": 48, "ecdsa-sha2-nistp521": 66}[base_alg]
            sb = sstr(b"\x00" + rng.randbytes(half)) + sstr(b"\x00" + rng.randbytes(half))
        else:
            sb = rng.randbytes(n)
    elif forgery == "empty":
        sb = b""
    elif forgery == "truncated":
        sb = sigbytes(key, good)
        k = rng.choice([1, 1, 2, rng.randint(1, max(1, len(sb) - 1))])
        while k < len(sb) and not any(sb[len(sb) - k:]):
            k += 1
        sb = sb[:len(sb) - k]
    else:
        raise ValueError(forgery)
    return pk_body(user, svc, alg, blob, True, sstr(lab) + sstr(sb))


def make_pk(rng, sid, user, kname, alg, attack):
    """Body of a publickey USERAUTH_REQUEST for the given attack."""
    key, alt, algs = keyset()[kname]
    blob = key.asbytes()
    svc = "ssh-connection"
    good = session_blob(sid, user, svc, alg, blob)
    if attack == "valid":
        return pk_body(user, svc, alg, blob, True, sign(key, good, alg))
    if attack == "query":
        return pk_body(user, svc, alg, blob, False)
    if attack == "query_with_sig":
        return pk_body(user, svc, alg, blob, False, sign(key, good, alg))
    if attack == "flag_no_sig":
        return pk_body(user, svc, alg, blob, True)
    if attack == "replay_other_session":
        other = rng.choice(_OLD_SIDS) if _OLD_SIDS and rng.random() < 0.7 else rng.randbytes(len(sid))
        if other == sid:
            other = rng.randbytes(len(sid))
        return pk_body(user, svc, alg, blob, True, sign(key, session_blob(other, user, svc, alg, blob), alg))
    if attack == "changed_sid":
        i = rng.randrange(len(sid))
        other = sid[:i] + bytes([sid[i] ^ (1 << rng.randrange(8))]) + sid[i + 1:]
        return pk_body(user, svc, alg, blob, True, sign(key, session_blob(other, user, svc, alg, blob), alg))
    if attack == "changed_user":
        other = rng.choice([user + "x", user[:-1] or "root", "root", user.upper() if user.upper() != user else user + "_"])
        return pk_body(user, svc, alg, blob, True, sign(key, session_blob(sid, other, svc, alg, blob), alg))
    if attack == "changed_service":
        other = rng.choice(["ssh-userauth", "ssh-connectio", "ssh-connection2", ""])
        return pk_body(user, svc, alg, blob, True, sign(key, session_blob(sid, user, other, alg, blob), alg))
    if attack == "changed_alg":
        others = [a for a in algs if a != alg] or [a for _, a in KEY_ALGS if a != alg]
        other = rng.choice(others)
        # the signature itself uses the hash of the *declared* algorithm; only the signed algorithm name differs
        return pk_body(user, svc, alg, blob, True, sign(key, session_blob(sid, user, svc, other, blob), alg))
    if attack == "changed_blob_signed_data":
        return pk_body(user, svc, alg, blob, True, sign(key, session_blob(sid, user, svc, alg, alt.asbytes()), alg))
    if attack == "changed_blob_presented":
        ab = alt.asbytes()
        return pk_body(user, svc, alg, ab, True, sign(key, session_blob(sid, user, svc, alg, ab), alg))
    sig = sign(key, good, alg)
    r = Rd(sig)
    name, sb = r.string(), r.string()
    if attack == "trunc_sig":
        k = rng.choice([1, 1, 2, rng.randint(1, max(1, len(sb) - 1)), len(sb)])
        # a cut tail of zero bytes is restored by Message's zero filling of short reads: not an attack
        while k < len(sb) and not any(sb[len(sb) - k:]):
            k += 1
        return pk_body(user, svc, alg, blob, True, sstr(name) + sstr(sb[:len(sb) - k]))
    if attack == "bitflip_sig":
        for _ in range(50):
            i = rng.randrange(len(sb))
            sb2 = sb[:i] + bytes([sb[i] ^ (1 << rng.randrange(8))]) + sb[i + 1:]
            if not name.startswith(b"ecdsa"):
                break
            # ECDSA blobs hold two mpints. A flipped length field of 4 KiB..1 MiB makes Message zero-pad the
            # short read and util.inflate_long (quadratic) then occupies the server's thread for minutes to
            # hours: a denial of service that is not C14's subject (reported separately) — not generated.
            rr = Rd(sb2, lenient=True)
            l1 = int.from_bytes(sb2[:4], "big")
            rr.string()
            l2 = int.from_bytes(rr.d[rr.p:rr.p + 4].ljust(4, b"\0"), "big")
            if not (4096 < l1 < (1 << 20) or 4096 < l2 < (1 << 20)):
                break
        return pk_body(user, svc, alg, blob, True, sstr(name) + sstr(sb2))
    if attack == "trunc_packet":
        whole = pk_body(user, svc, alg, blob, True, sig)
        k = rng.choice([1, 2, 3, rng.randint(1, len(sb))])
        # a cut tail of zero bytes would be restored by Message's zero padding of short reads: not an attack
        while k < len(sb) and not any(whole[len(whole) - k:]):
            k += 1
        return whole[:len(whole) - k]
    raise ValueError(attack)


# ---------------------------------------------------------------------------
# session descriptors

def draw_policy(rng, focus=None):
    def pick(ws):
        return rng.choices([S, P, F], weights=ws)[0]

    pol = dict(
        check_auth_none=pick([12, 12, 76]),
        check_auth_password=pick([34, 33, 33]),
        check_auth_publickey=pick([50, 25, 25]),
        check_auth_interactive=rng.choices(["Q", S, P, F], weights=[55, 15, 15, 15])[0],
        kbd_rounds=rng.randint(0, 2),
        kbd_final=pick([40, 30, 30]),
        check_auth_gssapi_keyex=pick([34, 33, 33]),
        check_auth_gssapi_with_mic=pick([34, 33, 33]),
        enable_auth_gssapi=rng.random() < 0.6,
        kex_ctx=rng.choices(["ok", "none"], weights=[90, 10])[0],
    )
    if focus:
        pol.update(focus)
    return pol


# round 3: callback results outside the three AUTH_* constants.  Descriptors carry ("val", name) tokens (stable
# fingerprints, JSON-able); build_policy turns them into the real objects.
def _iq():
    q = InteractiveQuery("misplaced", "query")
    q.add_prompt("p: ", False)
    return q


ODD_VALUES = {
    "None": lambda: None, "True": lambda: True, "False": lambda: False, "int_3": lambda: 3,
    "int_minus1": lambda: -1, "str_yes": lambda: "yes", "str_empty": lambda: "", "list_empty": lambda: [],
    "InteractiveQuery": _iq,
}
# (the literal 1 is AUTH_PARTIALLY_SUCCESSFUL itself and therefore not in this list)
ODD_ORDER = ["None", "True", "False", "int_3", "int_minus1", "str_yes", "str_empty", "list_empty", "InteractiveQuery"]
# callback -> (policy key that carries the value, steps that make paramiko evaluate it with everything else valid)
ODD_FLOWS = {
    "check_auth_none": ("check_auth_none", [("none",)]),
    "check_auth_none(unknown method)": ("check_auth_none", [("unknown_method",)]),
    "check_auth_password": ("check_auth_password", [("password",)]),
    "check_auth_publickey": ("check_auth_publickey", [("pk", "ed25519", "ssh-ed25519", "query"),
                                                      ("pk", "ed25519", "ssh-ed25519", "valid")]),
    "check_auth_interactive": ("check_auth_interactive", [("kbd_start",), ("info_response",)]),
    "check_auth_interactive_response": ("kbd_final", [("kbd_start",), ("info_response",)]),
    "check_auth_gssapi_keyex": ("check_auth_gssapi_keyex", [("gss_keyex", "valid")]),
    "check_auth_gssapi_with_mic": ("check_auth_gssapi_with_mic", [("gss_mic_start",), ("gss_token",), ("gss_mic", "valid")]),
}
IQ_ALLOWED = ("check_auth_interactive", "check_auth_interactive_response")


def is_const(v):
    return isinstance(v, int) and not isinstance(v, bool) and v in (S, P, F)


def is_success(v):
    return is_const(v) and v == S


def odd_name(v):
    """Stable name of a callback result that is not one of the three constants."""
    if v is None or isinstance(v, bool):
        return repr(v)
    if isinstance(v, int):
        return "int %d" % v if -16 <= v <= 16 else "int"
    if isinstance(v, (str, bytes, list, tuple, dict)):
        return "%s%s" % ("empty " if len(v) == 0 else "", type(v).__name__)
    return type(v).__name__


def _resolve(x):
    if isinstance(x, (tuple, list)) and len(x) == 2 and x[0] == "val":
        return ODD_VALUES[x[1]]()
    return x


def build_policy(pol):
    """Turn a policy descriptor into LogServer policy entries."""
    state = dict(rounds=0)
    pol = {k: _resolve(v) for k, v in pol.items()}

    def query(n):
        q = InteractiveQuery("round %d" % n, "answer")
        q.add_prompt("p%d: " % n, False)
        return q

    def interactive(username, submethods):
        state["rounds"] = 0
        if pol["check_auth_interactive"] == "Q":
            return query(0)
        return pol["check_auth_interactive"]

    def interactive_response(responses):
        if state["rounds"] < pol["kbd_rounds"]:
            state["rounds"] += 1
            return query(state["rounds"])
        return pol["kbd_final"]

    return dict(
        check_auth_none=pol["check_auth_none"],
        check_auth_password=pol["check_auth_password"],
        check_auth_publickey=pol["check_auth_publickey"],
        check_auth_interactive=interactive,
        check_auth_interactive_response=interactive_response,
        check_auth_gssapi_keyex=pol["check_auth_gssapi_keyex"],
        check_auth_gssapi_with_mic=pol["check_auth_gssapi_with_mic"],
        enable_auth_gssapi=pol["enable_auth_gssapi"],
        get_allowed_auths="password,publickey,keyboard-interactive,gssapi-keyex,gssapi-with-mic",
    )


MIC_KINDS = ["valid", "garbage", "empty", "other_user", "other_session"]
OTHER_METHODS = ["none", "password", "unknown", "pk_query", "kbd"]

GENERAL_STEPS = ["none", "password", "password", "password_change", "pk", "pk", "pk", "kbd_start", "kbd_start",
                 "info_response", "info_response", "gss_keyex", "gss_keyex", "gss_mic_start", "unknown_method",
                 "gss_token", "gss_mic", "garbage_request", "other_user"]


def draw_steps(rng, n, kname, alg):
    steps = []
    for _ in range(n):
        kind = rng.choice(GENERAL_STEPS)
        if kind == "pk":
            k2, a2 = (kname, alg) if rng.random() < 0.6 else rng.choice(KEY_ALGS)
            steps.append(("pk", k2, a2, rng.choice(PK_ATTACKS)))
        else:
            steps.append((kind,))
    return steps


def step_body(rng, sess, user, st):
    """(ptype, body) for one step."""
    kind = st[0]
    svc = "ssh-connection"
    if kind == "pk":
        return MSG_USERAUTH_REQUEST, make_pk(rng, sess.att.att.session_id, user, st[1], st[2], st[3])
    if kind == "pkc":
        return MSG_USERAUTH_REQUEST, make_cell_pk(rng, sess.att.att.session_id, user, st[1], st[2], st[3], st[4], st[5],
                                                  quick=getattr(sess, "quick", True))
    if kind == "pkr":
        # round 5: after a key re-exchange that completed before authentication.  "session_id": signed over the
        # true session identifier (the FIRST exchange hash); "latest_H": the same request signed over the exchange
        # hash of the latest key exchange instead; "garbage".  Blob built by authkit.session_blob (struct only).
        tool = sess.att.att
        which = st[4]
        if which == "garbage":
            return MSG_USERAUTH_REQUEST, make_cell_pk(rng, tool.session_id, user, st[1], st[2], st[3], "garbage", "base")
        ident = bytes(tool.session_id) if which == "session_id" else bytes(tool.H)
        return MSG_USERAUTH_REQUEST, make_cell_pk(rng, ident, user, st[1], st[2], st[3], "valid", "base")
    if kind == "none":
        return MSG_USERAUTH_REQUEST, sstr(user) + sstr(svc) + sstr("none")
    if kind == "password":
        return MSG_USERAUTH_REQUEST, sstr(user) + sstr(svc) + sstr("password") + b"\x00" + sstr(rng.choice(["pw", "wrong", ""]))
    if kind == "password_change":
        return MSG_USERAUTH_REQUEST, sstr(user) + sstr(svc) + sstr("password") + b"\x01" + sstr("pw") + sstr("new")
    if kind == "kbd_start":
        return MSG_USERAUTH_REQUEST, sstr(user) + sstr(svc) + sstr("keyboard-interactive") + sstr("") + sstr("")
    if kind == "info_response":
        n = rng.choice([0, 1, 1, 1, 2])
        return MSG_USERAUTH_INFO_RESPONSE, u32(n) + b"".join(sstr("answer%d" % i) for i in range(n))
    if kind in ("gss_keyex", "gss_mic"):
        mk = st[1] if len(st) > 1 else rng.choice(["valid", "valid"] + MIC_KINDS)
        sid = sess.att.att.session_id
        mic = dict(valid=lambda: stub_mic(sid, user), garbage=lambda: rng.randbytes(rng.choice([1, 16, 32, 33])),
                   empty=lambda: b"", other_user=lambda: stub_mic(sid, user + "2"),
                   other_session=lambda: stub_mic(rng.choice(_OLD_SIDS[:-1]) if len(_OLD_SIDS) > 1 else rng.randbytes(len(sid)), user))[mk]()
        if kind == "gss_mic":
            return MSG_USERAUTH_GSSAPI_MIC, sstr(mic)
        return MSG_USERAUTH_REQUEST, sstr(user) + sstr(svc) + sstr("gssapi-keyex") + sstr(mic)
    if kind == "gss_mic_start":
        return MSG_USERAUTH_REQUEST, sstr(user) + sstr(svc) + sstr("gssapi-with-mic") + u32(1) + sstr(KRB5_OID)
    if kind == "gss_token":
        if len(st) > 1 and st[1] == "empty":
            # an empty token: outside a GSS exchange the same bytes read as an INFO_RESPONSE with zero answers, so a
            # server that (rightly) never entered the exchange survives it and goes on to read the MIC message
            return MSG_USERAUTH_INFO_RESPONSE, sstr(b"")
        return MSG_USERAUTH_INFO_RESPONSE, sstr(rng.randbytes(16))  # 61 = GSSAPI_TOKEN during a GSS exchange
    if kind == "unknown_method":
        return MSG_USERAUTH_REQUEST, sstr(user) + sstr(svc) + sstr(rng.choice(["hostbased", "publickey2", "", "PASSWORD"]))
    if kind == "garbage_request":
        return MSG_USERAUTH_REQUEST, sstr(user) + sstr(svc) + sstr(rng.choice(["password", "publickey"])) + rng.randbytes(rng.randint(0, 12))
    if kind == "other_user":
        om = st[1] if len(st) > 1 else rng.choice(OTHER_METHODS)
        head = sstr(user + "2") + sstr(svc)
        if om == "none":
            return MSG_USERAUTH_REQUEST, head + sstr("none")
        if om == "password":
            return MSG_USERAUTH_REQUEST, head + sstr("password") + b"\x00" + sstr("pw")
        if om == "unknown":
            return MSG_USERAUTH_REQUEST, head + sstr("hostbased")
        if om == "kbd":
            return MSG_USERAUTH_REQUEST, head + sstr("keyboard-interactive") + sstr("") + sstr("")
        k = keyset()["ed25519"][0]
        return MSG_USERAUTH_REQUEST, head + sstr("publickey") + b"\x00" + sstr("ssh-ed25519") + sstr(k.asbytes())
    raise ValueError(kind)


# ---------------------------------------------------------------------------
# the oracle

def _strip_cert(name):
    return name[:-len(CERT)] if name.endswith(CERT.encode()) else name


def _sig_label(sigfield):
    """Algorithm name inside a signature field (strict reading, else what is there)."""
    for mode in (False, "clamp"):
        try:
            return Rd(sigfield, lenient=mode).string()
        except Short:
            continue
    return None


def judge_episode(ctx, ep, sid, gss_enabled=True, mic_user=None):
    """Returns (approved: bool, info: dict) for one victim episode.  gss_enabled: what the application answers to
    enable_auth_gssapi() (a fact about the application, whether or not paramiko asked); mic_user: the user name a
    gssapi-with-mic MIC has to be bound to (the request that opened the exchange / the pinned name)."""
    m = ep["msg"]
    t = m["type"]
    cbs = ep["cbs"]

    def cb(name, user=None):
        out = []
        for c in cbs:
            if c["name"] == name and (user is None or (c["args"] and isinstance(c["args"][0], str)
                                                       and c["args"][0].encode("utf-8") == user)):
                out.append(c)
        return out

    if t == MSG_USERAUTH_REQUEST:
        rq = parse_userauth_request(m["payload"])
        if rq is None:
            return False, dict(kind="unparseable request", method="?", cbstate="not evaluated")
        user, method, rd = rq["user"], rq["method"], rq["rd"]
        info = dict(kind="request", method=method.decode("ascii") if method in CB_FOR else "other",
                    method_text=method.decode("utf-8", "replace"), user=user.decode("utf-8", "replace"))
        name = CB_FOR.get(method)
        own = cb(name, user) if name else []
        own_any = cb(name) if name else []
        ok_own = any(is_success(c["result"]) for c in own)
        if own:
            info["cbstate"] = "%s evaluated but did not return AUTH_SUCCESSFUL" % name if not ok_own else "approved"
            info["cbresult"] = [res_name(c["result"]) for c in own]
            odd = [c for c in own if not is_const(c["result"]) and not isinstance(c["result"], InteractiveQuery)]
            odd += [c for c in own if isinstance(c["result"], InteractiveQuery) and name not in IQ_ALLOWED]
            if odd and not ok_own:
                info["odd_result"] = odd_name(odd[0]["result"])
                info["odd_callback"] = name
        elif own_any:
            info["cbstate"] = "%s evaluated for another username" % name
        else:
            info["cbstate"] = "no callback for the method evaluated"
        if method == b"publickey":
            sigok = False
            info["sig_attached"] = None
            for mode in (False, "clamp", "pad"):  # strict, then the two lenient framings (see authkit.Rd)
                try:
                    r2 = Rd(rd.d, rd.p, lenient=mode)
                    flag = r2.boolean()
                    alg = r2.string()
                    blob = r2.string()
                    info["sig_attached"] = flag
                    if not flag:
                        break
                    sigfield = r2.string()
                    data = session_blob(sid, user, rq["service"], alg, blob)
                    if mode is False:
                        ctx.count("independent_sig_verifications")
                    if verify_sig(blob, sigfield, data):
                        sigok = True
                        ctx.count("independent_sig_valid")
                        # round 4: the signature must be one *for the algorithm the request names*: its own label
                        # has to name that algorithm (certificate suffix on either side disregarded).  A blob that
                        # verifies under the hash of another algorithm's label is not a signature of this request.
                        lab = _sig_label(sigfield)
                        info["label_matches"] = lab is not None and _strip_cert(lab) == _strip_cert(alg)
                        if not info["label_matches"]:
                            ctx.count("independent_sig_valid_only_under_a_mismatching_label")
                        break
                except Short:
                    continue
            info["sig_crypto_valid"] = sigok
            sigok = sigok and info.get("label_matches", False)
            info["sig_valid"] = sigok
            return ok_own and sigok, info
        if method in (b"gssapi-keyex", b"gssapi-with-mic") and not gss_enabled:
            # round 4: the application has GSS-API authentication disabled.  Whatever its check_auth_gssapi_*
            # callbacks would say is not an approval of this request; paramiko's documented answer is the one for
            # "none" (check_auth_none), and only that can justify a grant.
            info["gss_disabled"] = True
            if own_any:
                info["gss_callback_evaluated_while_disabled"] = True
                ctx.count("gss_callback_evaluated_although_application_disabled_gssapi")
            fb = cb("check_auth_none", user)
            if any(is_success(c["result"]) for c in fb):
                info["cbstate"] = "approved via check_auth_none"
                ctx.count("approved_via_none_fallback")
                return True, info
            info["cbstate"] = "GSS-API disabled by the application and check_auth_none did not return AUTH_SUCCESSFUL"
            return False, info
        if method == b"gssapi-keyex" and own:
            # the GSS path was taken (its callback ran): the grant also needs a MIC valid for this session and user
            micok = False
            try:
                mic = Rd(rd.d, rd.p).string()
                ctx.count("gss_mic_checks_independent")
                micok = mic == stub_mic(sid, user.decode("utf-8", "replace"))
            except Short:
                pass
            info["mic_valid"] = micok
            if micok:
                ctx.count("gss_mic_valid")
            return ok_own and micok, info
        if ok_own:
            return True, info
        if method not in OWN_ONLY:
            fb = cb("check_auth_none", user)
            if any(is_success(c["result"]) for c in fb):
                info["cbstate"] = "approved via check_auth_none"
                if method != b"none":
                    ctx.count("approved_via_none_fallback")
                return True, info
            if fb and not own:
                info["cbstate"] = "check_auth_none evaluated but did not return AUTH_SUCCESSFUL"
                odd = [c for c in fb if not is_const(c["result"])]
                if odd:
                    info["odd_result"] = odd_name(odd[0]["result"])
                    info["odd_callback"] = "check_auth_none"
        return False, info
    if t in (MSG_USERAUTH_INFO_RESPONSE, MSG_USERAUTH_GSSAPI_MIC):
        info = dict(kind="continuation(type %d)" % t, method="keyboard-interactive(response)" if t == MSG_USERAUTH_INFO_RESPONSE else "gssapi-with-mic(mic)")
        good = [c for c in cbs if c["name"] in ("check_auth_interactive_response", "check_auth_gssapi_with_mic")]
        ok = any(is_success(c["result"]) for c in good)
        info["cbstate"] = ("approved" if ok else
                           ("%s evaluated but did not return AUTH_SUCCESSFUL" % good[0]["name"] if good
                            else "no callback for the method evaluated"))
        if t == MSG_USERAUTH_GSSAPI_MIC:
            # round 4: a gssapi-with-mic grant needs GSS-API enabled by the application and a MIC valid for this
            # session and the user of the exchange (recomputed independently of the stub)
            micok = False
            try:
                mic = Rd(m["payload"], 1).string()
                ctx.count("gss_with_mic_checks_independent")
                micok = mic_user is not None and mic == stub_mic(sid, mic_user)
            except Short:
                pass
            info["mic_valid"] = micok
            if micok:
                ctx.count("gss_with_mic_valid")
            if not gss_enabled:
                info["gss_disabled"] = True
                if good:
                    info["gss_callback_evaluated_while_disabled"] = True
                    ctx.count("gss_callback_evaluated_although_application_disabled_gssapi")
                info["cbstate"] = "GSS-API disabled by the application"
                return False, info
            if ok and not micok:
                return False, info
        odd = [c for c in good if not is_const(c["result"])
               and not (isinstance(c["result"], InteractiveQuery) and c["name"] in IQ_ALLOWED)]
        if odd and not ok:
            info["odd_result"] = odd_name(odd[0]["result"])
            info["odd_callback"] = odd[0]["name"]
        return ok, info
    return False, dict(kind="message type %d" % t, method="-", cbstate="not an authentication request")


MISMATCH_KINDS = ["garbage", "other_key", "replay_session", "valid"]
MISMATCH_NAME = {"garbage": "garbage", "other_key": "other_key", "replay_session": "replay_session",
                 "valid": "valid_under_label_hash"}
MISMATCH_CLASS = {"garbage": "garbage signature", "other_key": "signature made by another key",
                  "replay_session": "signature made for another session id",
                  "valid": "signature valid under the label's hash"}
RSA_ALGS = ["ssh-rsa", "rsa-sha2-256", "rsa-sha2-512"]


REKEY_SIG_KINDS = ["garbage", "latest_H", "session_id"]
g2kit_INITIATORS = ("peer", "server_api", "server_threshold")


def note_rekey_cell(ctx, label, info, granted, n_newkeys):
    """re-key before auth x {signature over the session id, over the latest H, garbage} x family: counted when the
    victim read the request after at least one completed re-key (its second NEWKEYS), the application approved the
    key and the independent verifier (over the victim's session id) agrees with the cell."""
    _, kname, base_alg, form, which = label
    fam = FAMILY[kname]
    if n_newkeys < 2:
        ctx.inconclusive("harness: publickey request of a re-key cell read before the re-key completed")
        return
    if info.get("cbstate") != "approved":
        ctx.count("rekeycell_request_read_but_key_not_approved")
        return
    valid = bool(info.get("sig_valid"))
    if valid != (which == "session_id"):
        ctx.inconclusive("harness: re-key cell %s for %s: independent validity is %s" % (which, base_alg, valid))
        return
    ctx.count("rekeycell_%s_%s" % (fam, which))
    ctx.count("rekeycell_%s_%s" % (which, "granted" if granted else "refused"))
    if which == "session_id" and granted:
        ctx.count("rekeycell_%s_session_id_granted" % fam)


def note_gss_cell(ctx, desc, label, m, sid, mic_user, granted):
    """{GSS-API enabled, disabled} x {gssapi-with-mic, gssapi-keyex} x {valid, invalid MIC}: counted when the victim
    read the message that carries the MIC and the independent MIC computation agrees with the cell."""
    enabled = bool(_resolve(desc["policy"].get("enable_auth_gssapi", False)))
    method = "keyex" if label[0] == "gss_keyex" else "with_mic"
    try:
        if label[0] == "gss_keyex":
            rq = parse_userauth_request(m["payload"])
            if rq is None or rq["method"] != b"gssapi-keyex":
                return
            mic = Rd(rq["rd"].d, rq["rd"].p).string()
            user = rq["user"].decode("utf-8", "replace")
        else:
            if m["type"] != MSG_USERAUTH_GSSAPI_MIC:
                return
            mic = Rd(m["payload"], 1).string()
            user = mic_user
    except Short:
        return
    really_valid = user is not None and mic == stub_mic(sid, user)
    if really_valid != (label[1] == "valid"):
        ctx.inconclusive("harness: gss cell MIC kind %s but independent validity is %s" % (label[1], really_valid))
        return
    cell = "gsscell_%s_%s_%s_mic" % ("enabled" if enabled else "disabled", method, "valid" if really_valid else "invalid")
    ctx.count(cell)
    ctx.count(cell + ("_granted" if granted else "_refused"))


ODD_CELLS = set()  # (callback, value name, via) seen by this shard


def note_odd_results(ctx, ep, granted):
    """Count every callback evaluation whose result is none of the three constants (and no permitted query)."""
    rq = parse_userauth_request(ep["msg"]["payload"]) if ep["msg"]["type"] == MSG_USERAUTH_REQUEST else None
    for c in ep["cbs"]:
        if not c["name"].startswith("check_auth") or is_const(c["result"]):
            continue
        if isinstance(c["result"], InteractiveQuery) and c["name"] in IQ_ALLOWED:
            continue
        vn = odd_name(c["result"]).replace(" ", "_")
        via = "fallback" if c["name"] == "check_auth_none" and rq is not None and rq["method"] != b"none" else "own"
        ODD_CELLS.add((c["name"], vn, via))
        ctx.count("odd_result_seen_" + vn)
        ctx.count("odd_result_from_" + c["name"])
        ctx.count("odd_results_evaluated")
        if not granted:
            ctx.count("odd_results_not_granted")


def note_cell(ctx, label, info, granted):
    """One evaluation of a (family, plain|cert, forgery) cell: the victim read the request, the application
    approved the key for that user, and the independent verifier agrees with what the cell is meant to be."""
    _, kname, base_alg, form, forgery, lab = label
    fam = FAMILY[kname]
    if info.get("cbstate") != "approved":
        ctx.count("pkcell_request_read_but_key_not_approved")
        return
    valid = bool(info.get("sig_valid"))
    if lab.startswith("as:"):
        # round 4: the signature blob is labelled with another RSA algorithm than the request names
        if valid or info.get("label_matches"):
            ctx.inconclusive("harness: a signature labelled %s counts as valid for a %s request" % (lab[3:], base_alg))
        elif forgery == "valid" and not info.get("sig_crypto_valid"):
            ctx.inconclusive("harness: the signature meant to be valid under the hash of %s is not" % lab[3:])
        elif forgery != "valid" and info.get("sig_crypto_valid"):
            ctx.inconclusive("harness: the %s forgery labelled %s verifies" % (forgery, lab[3:]))
        else:
            ctx.count("pkcell_rsa_%s_labelmismatch_%s" % (form, MISMATCH_NAME[forgery]))
            ctx.count("pklabel_request_%s_labelled_%s" % (base_alg, lab[3:]))
            ctx.count("pkcell_labelmismatch_" + ("GRANTED" if granted else "refused"))
        return
    if forgery == "valid":
        if not valid:
            ctx.inconclusive("harness: the genuine %s signature for %s does not verify independently" % (form, base_alg))
        elif lab == "base":
            ctx.count("pkcell_%s_%s_valid_%s" % (fam, form, "granted" if granted else "refused"))
        else:
            ctx.count("pk_valid_signature_labelled_with_cert_algorithm_%s" % ("granted" if granted else "refused"))
        return
    if valid:
        ctx.inconclusive("harness: the %s forgery for %s %s verifies independently" % (forgery, form, base_alg))
        return
    ctx.count("pkcell_%s_%s_%s" % (fam, form, forgery))
    ctx.count("pkcell_label_" + lab)
    ctx.count("pkcell_forgeries_" + ("GRANTED" if granted else "refused"))


def analyse(ctx, sess, desc, labels, auth_samples, name_samples=()):
    """labels: {victim in-seq -> step label} (harness knowledge, only for the signature class)."""
    v = sess.victim
    sid = v.session_id
    eps = episodes(sess.rec)
    approved_upto = []  # event numbers n at which an approved episode started
    grant_ns = []  # episodes that sent USERAUTH_SUCCESS (each judged on its own above)
    n_requests = 0
    opener_user = None  # username of the request that opened the running interactive / gssapi-with-mic exchange
    last_req_user = None
    gss_enabled = bool(_resolve(desc["policy"].get("enable_auth_gssapi", False)))
    for ep in eps:
        m = ep["msg"]
        if m["type"] in (MSG_USERAUTH_REQUEST, MSG_USERAUTH_INFO_RESPONSE, MSG_USERAUTH_GSSAPI_MIC):
            n_requests += 1
            ctx.count("victim_auth_messages_read")
        if m["type"] == MSG_USERAUTH_REQUEST:
            rq0 = parse_userauth_request(m["payload"])
            if rq0 is not None:
                last_req_user = rq0["user"].decode("utf-8", "replace")
            if rq0 is not None and rq0["method"] in (b"keyboard-interactive", b"gssapi-with-mic") \
                    and any(o["type"] == 60 for o in ep["out"]):
                opener_user = rq0["user"].decode("utf-8", "replace")
            elif rq0 is not None and opener_user is not None and rq0["user"].decode("utf-8", "replace") != opener_user:
                ctx.count("other_username_read_inside_open_exchange")
        ctx.count("callbacks_logged", len([c for c in ep["cbs"] if c["name"].startswith("check_auth")]))
        grants = [o for o in ep["out"] if o["type"] == MSG_USERAUTH_SUCCESS]
        needs = bool(grants)
        if not needs and m["type"] not in (MSG_USERAUTH_REQUEST, MSG_USERAUTH_INFO_RESPONSE, MSG_USERAUTH_GSSAPI_MIC):
            continue
        ok, info = judge_episode(ctx, ep, sid, gss_enabled=gss_enabled, mic_user=opener_user or last_req_user)
        note_odd_results(ctx, ep, bool(grants))
        lab0 = labels.get(("n", m["n"])) if desc.get("rekey") else labels.get(m["seq"])
        if lab0 and lab0[0] == "pkr" and info.get("kind") == "request" and info.get("method") == "publickey":
            n_newkeys = len([e for e in sess.att.victim_msgs("in", (21,)) if e["n"] < m["n"]])
            note_rekey_cell(ctx, lab0, info, bool(grants), n_newkeys)
        if lab0 and lab0[0] == "pkc" and info.get("kind") == "request" and info.get("method") == "publickey":
            note_cell(ctx, lab0, info, bool(grants))
        if desc.get("kind") == "gss-cell" and lab0 and lab0[0] in ("gss_keyex", "gss_mic") and len(lab0) > 1:
            note_gss_cell(ctx, desc, lab0, m, sid, mic_user=opener_user or last_req_user, granted=bool(grants))
        if ok:
            approved_upto.append(m["n"])
            ctx.count("approved_episodes")
        if not grants:
            if ok:
                ctx.count("approved_but_not_granted")
            continue
        ctx.count("grants_seen", len(grants))
        grant_ns.append(m["n"])
        # whom does the server say it authenticated?  Must be the user of the request that justified the grant
        # (for a continuation message: the user of the request that opened that exchange).
        expected = info.get("user") if info.get("kind") == "request" else opener_user
        after = [x for x in name_samples if x[0] > m["n"]]
        if after and expected is not None:
            _, api_name, handler_name = after[0]
            for src, got in (("Transport.get_username()", api_name), ("auth_handler.get_username()", handler_name)):
                if got is None:
                    continue
                ctx.count("grant_usernames_compared")
                if info.get("kind") != "request":
                    ctx.count("continuation_grant_usernames_compared")
                if got != expected:
                    ctx.violation("grant attributed to another username than the approved request's (%s)"
                                  % ("request" if info.get("kind") == "request" else "continuation of an exchange"),
                                  "%s reports %r after USERAUTH_SUCCESS, but the approval that justified the grant "
                                  "belongs to %r" % (src, got, expected),
                                  dict(session=desc, reported=got, expected=expected, source=src, oracle=info,
                                       callbacks=[dict(name=c["name"], args=c["args"], result=res_name(c["result"]))
                                                  for e2 in eps for c in e2["cbs"] if c["name"].startswith("check_auth")][-8:]))
                    break
        elif expected is None:
            ctx.count("grants_without_an_opening_request_name_not_judged")
        ctx.count("grants_method_" + info.get("method", "?"))
        if ok:
            ctx.count("grants_justified", len(grants))
            continue
        label = labels.get(("n", m["n"])) if desc.get("rekey") else labels.get(m["seq"])
        wit = dict(session=desc, request=dict(type=m["type"], seq=m["seq"], payload_hex=m["payload"].hex()[:1990]), oracle=info,
                   step=label, callbacks=[dict(name=c["name"], args=c["args"], result=res_name(c["result"])) for c in ep["cbs"]],
                   replies=[o["type"] for o in ep["out"]])
        if info.get("kind") != "request" and not info["kind"].startswith("continuation"):
            ctx.violation("USERAUTH_SUCCESS sent in reply to %s" % info["kind"],
                          "a grant was sent although the message read was no authentication request", wit)
        elif info.get("gss_callback_evaluated_while_disabled"):
            # (a grant with GSS-API disabled and no gssapi callback evaluated falls to the generic branch below:
            # "… GSS-API disabled by the application and check_auth_none did not return AUTH_SUCCESSFUL")
            ctx.violation("GSS-API grant although the application has GSS-API authentication disabled (%s%s)"
                          % (info.get("method"), ", check_auth_gssapi callback evaluated"),
                          "enable_auth_gssapi() answers False and check_auth_none did not approve the user, yet a "
                          "%s message produced USERAUTH_SUCCESS" % info.get("method"), wit)
        elif info.get("method") == "gssapi-with-mic(mic)" and info["cbstate"] == "approved" and info.get("mic_valid") is False:
            ctx.violation("gssapi-with-mic granted without a valid MIC for this session and user",
                          "the MIC does not verify for this session id and user, yet the application's approval alone "
                          "produced USERAUTH_SUCCESS", wit)
        elif info.get("method") == "gssapi-keyex" and info["cbstate"] == "approved" and info.get("mic_valid") is False:
            ctx.violation("gssapi-keyex granted without a valid MIC for this session and user",
                          "the GSS context rejected (or never saw a valid) MIC, yet the application's approval alone "
                          "produced USERAUTH_SUCCESS", wit)
        elif info.get("method") == "publickey" and info["cbstate"] == "approved":
            if label and label[0] == "pkr":
                cls = {"latest_H": "signature made over the latest exchange hash instead of the session id",
                       "garbage": "garbage signature"}.get(label[4], "signature does not verify") + \
                    " [after a key re-exchange before authentication]"
            elif label and label[0] == "pkc" and label[5].startswith("as:"):
                cls = "label names another algorithm than the request, " + MISMATCH_CLASS.get(label[4], "?") + \
                    (" [certificate algorithm]" if label[3] == "cert" else "")
            elif label and label[0] == "pkc":
                cls = CELL_CLASS.get(label[4], "signature does not verify") + \
                    (" [certificate algorithm]" if label[3] == "cert" else "")
            elif info.get("sig_crypto_valid") and info.get("label_matches") is False:
                cls = "label names another algorithm than the request, signature valid under the label's hash"
            else:
                cls = "no signature attached" if info.get("sig_attached") is False else \
                    ATTACK_CLASS.get(label[3] if label and label[0] == "pk" else "", "signature does not verify")
            ctx.violation("publickey granted without a valid signature: %s" % cls,
                          "check_auth_publickey approved the key but the request carried no signature that verifies "
                          "over this session's id, user, service, algorithm and key", wit)
        elif info.get("odd_result") == "False":
            # False == 0 == AUTH_SUCCESSFUL in Python: the application did return a value equal to the
            # success constant, so the statement's "returned success" is met literally.  Counted, not
            # flagged (an earlier version flagged it on the unchanged tree: false alarm, DESIGN 7.3;
            # the fail-open on `return False` is listed there as a side finding).
            ctx.count("grants_on_result_False_which_equals_AUTH_SUCCESSFUL")
        elif info.get("odd_result") is not None:
            ctx.count("grants_on_odd_result_method_" + info.get("method", "?"))
            ctx.violation("USERAUTH_SUCCESS after a callback result outside the AUTH_* constants (%s)" % info["odd_result"],
                          "%s returned %s, which is none of AUTH_SUCCESSFUL / AUTH_PARTIALLY_SUCCESSFUL / AUTH_FAILED, "
                          "and the client was authenticated (method %s)"
                          % (info["odd_callback"], info["odd_result"], info.get("method")), wit)
        else:
            ctx.violation("grant without approval: method=%s, %s" % (info.get("method"), info["cbstate"]),
                          "USERAUTH_SUCCESS was sent although no application callback for that user and method "
                          "returned AUTH_SUCCESSFUL for this request", wit)
    # API state: authenticated only after an approved episode
    for (n_at, val) in auth_samples:
        ctx.count("is_authenticated_samples")
        if val:
            ctx.count("is_authenticated_true")
            # a wire grant explains the API state and was judged above; what is looked for here is the
            # API reporting success with neither approval nor grant
            if not any(a < n_at for a in approved_upto + grant_ns):
                ctx.violation("is_authenticated() true without an approved request",
                              "the server transport reports the client authenticated but no request so far was approved "
                              "by its callback (and signature)", dict(session=desc, at_event=n_at))
                break
    return n_requests


def run_session(ctx, rng, desc):
    pol = desc["policy"]
    kname, alg = desc["key"]
    user = desc["user"]

    def setup(s):
        if pol["kex_ctx"] != "none":
            s.victim.kexgss_ctxt = StubKexCtx()

    cls = g2kit.RekeySess if desc.get("rekey") else Sess
    sess = started(lambda: cls(rng, policy=build_policy(pol), users={user: "pw"}, setup=setup),
                   lambda s: s.start(auth=False))
    labels = {}
    samples = []
    names = []
    if sess is None:
        ctx.inconclusive("handshake failed three times")
        return
    try:
        v = sess.victim
        sess.quick = ctx.quick
        _OLD_SIDS.append(bytes(v.session_id))
        del _OLD_SIDS[:-8]
        if desc.get("service_request", True):
            _, st = sess.service_request()
            if st == "dead":
                ctx.inconclusive("victim died on SERVICE_REQUEST")
                return
        for stp in desc["steps"]:
            if not v.is_active():
                break
            if stp[0] == "rekey":
                try:
                    r = sess.rekey(stp[1])
                except g2kit.RekeyTrouble as e:
                    ctx.inconclusive("re-key before auth: %s" % e)
                    return
                if r != "done":
                    ctx.inconclusive("re-key before auth did not complete (%s, victim exc=%r)" % (r, v.saved_exception))
                    return
                if bytes(sess.att.att.H) == bytes(v.session_id) or bytes(sess.att.att.H) != bytes(v.H):
                    ctx.inconclusive("re-key before auth: exchange hash not renewed / not shared")
                    return
                ctx.count("rekeys_before_auth_completed_" + stp[1])
                continue
            m0 = sess.att.mark()
            ptype, body = step_body(rng, sess, user, stp)
            seq, st = sess.step(ptype, body)
            if seq is not None and desc.get("rekey"):
                # sequence numbers restart at NEWKEYS under strict kex: label by the victim's read event instead
                e = sess.victim_read_seq(seq, m0)
                if e is not None:
                    labels[("n", e["n"])] = list(stp)
            elif seq is not None:
                labels[seq] = list(stp)
            ctx.count("steps_sent")
            ctx.count("step_" + (stp[0] if stp[0] != "pk" else "pk_" + stp[3]))
            n_at = sess.att.mark()
            if stp[0] == "gss_keyex" and len(stp) > 1 and stp[1] != "valid" and pol["enable_auth_gssapi"] \
                    and pol["kex_ctx"] == "ok" and pol["check_auth_gssapi_keyex"] == S:
                ctx.count("gss_invalid_mic_sent_to_approving_application")
            try:
                api_name = v.get_username()
            except AttributeError:
                api_name = None
            try:
                handler_name = v.auth_handler.get_username() if v.auth_handler is not None else None
            except AttributeError:
                handler_name = None
            names.append((n_at, api_name, handler_name))
            try:
                samples.append((n_at, bool(v.is_authenticated())))
            except AttributeError:
                # GssapiWithMicAuthHandler (installed mid gssapi-with-mic exchange) has no is_authenticated();
                # the API raises instead of answering. Not a grant; noted for C38, not judged here.
                ctx.count("is_authenticated_raised_mid_gss_exchange")
            if st == "dead":
                exc = v.saved_exception
                if isinstance(exc, TypeError) and stp[0] in ("gss_token", "gss_mic"):
                    ctx.count("gss_with_mic_dead_code_TypeError")
                ctx.count("victim_ended_mid_session")
                break
        n_req = analyse(ctx, sess, desc, labels, samples, names)
        ctx.case(("c14", repr(desc)), sample=desc if desc.get("sample") else None, nontrivial=n_req > 0)
    except FenceTimeout as e:
        ctx.inconclusive("fence timeout: %s" % e)
    finally:
        sess.close()


def run(ctx):
    rng = ctx.rng
    install_gss_stub()
    keyset()
    plan = []
    # focused sessions: every key/algorithm x attack x application answer for publickey
    for (kname, alg) in KEY_ALGS:
        for attack in PK_ATTACKS:
            for ans in (S, P, F):
                if ctx.quick and ans == F and attack not in ("valid", "query"):
                    continue
                plan.append(dict(kind="pk-focus", key=(kname, alg), focus=dict(check_auth_publickey=ans),
                                 first=[("pk", kname, alg, attack)]))
    # focused sessions for the other methods x answers
    for rep in range(ctx.pick(1, 4)):
        for ans in (S, P, F):
            plan.append(dict(kind="none-focus", focus=dict(check_auth_none=ans), first=[("none",)]))
            plan.append(dict(kind="unknown-method-focus", focus=dict(check_auth_none=ans), first=[("unknown_method",)]))
            plan.append(dict(kind="password-focus", focus=dict(check_auth_password=ans), first=[("password",)]))
            plan.append(dict(kind="password-change-focus", focus=dict(check_auth_password=ans), first=[("password_change",)]))
            plan.append(dict(kind="kbd-direct-focus", focus=dict(check_auth_interactive=ans), first=[("kbd_start",)]))
            plan.append(dict(kind="stray-info-response", focus=dict(kbd_final=ans, kbd_rounds=0), first=[("info_response",)]))
            for rounds in (0, 1, 2):
                plan.append(dict(kind="kbd-rounds-focus",
                                 focus=dict(check_auth_interactive="Q", kbd_rounds=rounds, kbd_final=ans),
                                 first=[("kbd_start",)] + [("info_response",)] * (rounds + 1)))
            for mk in MIC_KINDS:
                plan.append(dict(kind="gss-keyex-focus",
                                 focus=dict(check_auth_gssapi_keyex=ans, enable_auth_gssapi=True, kex_ctx="ok"),
                                 first=[("gss_keyex", mk)]))
            plan.append(dict(kind="gss-keyex-no-context",
                             focus=dict(check_auth_gssapi_keyex=ans, enable_auth_gssapi=True, kex_ctx="none"),
                             first=[("gss_keyex", "valid")]))
            # identity rebinding: a request for another user (any method) inside an open interactive exchange
            for om in OTHER_METHODS:
                plan.append(dict(kind="rebinding-focus",
                                 focus=dict(check_auth_interactive="Q", kbd_rounds=0, kbd_final=S, check_auth_none=ans,
                                            check_auth_password=ans, check_auth_publickey=ans),
                                 first=[("kbd_start",), ("other_user", om), ("info_response",)]))
            plan.append(dict(kind="gss-keyex-disabled", focus=dict(check_auth_gssapi_keyex=ans, enable_auth_gssapi=False,
                                                                  kex_ctx="ok"), first=[("gss_keyex",)]))
            plan.append(dict(kind="gss-mic-focus", focus=dict(check_auth_gssapi_with_mic=ans, enable_auth_gssapi=True),
                             first=[("gss_mic_start",), ("gss_token",), ("gss_mic", "valid")]))
    for rep in range(ctx.pick(12, 40)):
        plan.append(dict(kind="kbd-exchange-approved",
                         focus=dict(check_auth_interactive="Q", kbd_rounds=rep % 3, kbd_final=S),
                         first=[("kbd_start",)] + [("info_response",)] * (rep % 3 + 1), no_tail=True))
    for rep in range(ctx.pick(3, 8)):
        for mk in MIC_KINDS:
            plan.append(dict(kind="gss-keyex-app-approves-everything",
                             focus=dict(check_auth_none=S, check_auth_password=S, check_auth_publickey=S,
                                        check_auth_interactive=S, kbd_final=S, check_auth_gssapi_keyex=S,
                                        check_auth_gssapi_with_mic=S, enable_auth_gssapi=True, kex_ctx="ok"),
                             first=[("gss_keyex", mk)], no_tail=True))
    # round 3 (a): forgery kind x key family x {plain, certificate} x signature label; the application approves
    # the key, the signature is the only decider; each session ends with the genuine login
    refuse_rest = dict(check_auth_publickey=S, check_auth_none=F, check_auth_password=F, check_auth_interactive=F,
                       kbd_final=F, check_auth_gssapi_keyex=F, check_auth_gssapi_with_mic=F)
    cell_reps = ctx.pick(1, 3)
    ci = 0
    for rep in range(cell_reps):
        for (kname, alg) in KEY_ALGS:
            for form in ("plain", "cert"):
                for lab in ("base", "cert"):
                    k = (ctx.seed + ci) % len(CELL_FORGERIES)
                    order = CELL_FORGERIES[k:] + CELL_FORGERIES[:k]
                    steps = [("pkc", kname, alg, form, f, lab) for f in order] + [("pkc", kname, alg, form, "valid", lab)]
                    if lab == "cert":
                        steps.append(("pkc", kname, alg, form, "valid", "base"))
                    plan.append(dict(kind="pk-cell", key=(kname, alg), focus=dict(refuse_rest), first=steps,
                                     no_tail=True, exact=True, shard_key=ci))
                    ci += 1
    # round 4 (b): RSA, the signature blob labelled with ANOTHER RSA algorithm than the request's (all ordered
    # pairs, plain and certificate form); bytes garbage / by another key / replayed / valid under the label's hash
    for rep in range(cell_reps):
        for req_alg in RSA_ALGS:
            for lab_alg in RSA_ALGS:
                if lab_alg == req_alg:
                    continue
                for form in ("plain", "cert"):
                    k = (ctx.seed + ci) % len(MISMATCH_KINDS)
                    order = MISMATCH_KINDS[k:] + MISMATCH_KINDS[:k]
                    steps = [("pkc", "rsa", req_alg, form, f, "as:" + lab_alg) for f in order]
                    if not ctx.quick and rep > 0:
                        steps += [("pkc", "rsa", req_alg, form, f, "as:" + lab_alg) for f in order[:2]]
                    steps.append(("pkc", "rsa", req_alg, form, "valid", "base"))
                    plan.append(dict(kind="pk-label-mismatch", key=("rsa", req_alg), focus=dict(refuse_rest), first=steps,
                                     no_tail=True, exact=True, shard_key=ci))
                    ci += 1
    # round 5: one or two key re-exchanges BEFORE authentication, then publickey requests signed over garbage, over
    # the latest exchange hash, and (genuine) over the session id = the first exchange hash
    ri = 0
    for rep in range(cell_reps):
        for (kname, alg) in KEY_ALGS:
            for form in ("plain", "cert"):
                inis = [g2kit_INITIATORS[(ri + ctx.seed) % 3]] + ([g2kit_INITIATORS[(ri // 3 + 1) % 3]] if ri % 2 else [])
                steps = [("rekey", ini) for ini in inis]
                steps += [("pkr", kname, alg, form, w) for w in REKEY_SIG_KINDS]
                plan.append(dict(kind="rekey-before-auth", key=(kname, alg), focus=dict(refuse_rest), first=steps,
                                 no_tail=True, exact=True, rekey=True, shard_key=ri))
                ri += 1
    # round 4 (a): {GSS-API enabled, disabled by the application} x {gssapi-with-mic, gssapi-keyex} x MIC kinds; the
    # application's gssapi callbacks would approve, check_auth_none refuses
    gi = 0
    for rep in range(cell_reps):
        for enabled in (True, False):
            for method in ("with_mic", "keyex"):
                for mk in ["valid", "valid"] + MIC_KINDS:
                    focus = dict(refuse_rest, check_auth_publickey=F, check_auth_gssapi_keyex=S, check_auth_gssapi_with_mic=S,
                                 enable_auth_gssapi=enabled, kex_ctx="ok", kbd_rounds=0)
                    steps = [("gss_keyex", mk)] if method == "keyex" else [("gss_mic_start",), ("gss_token", "empty"), ("gss_mic", mk)]
                    plan.append(dict(kind="gss-cell", focus=focus, first=steps, no_tail=True, exact=True, shard_key=gi))
                    gi += 1
    # round 3 (b): every auth callback x results outside the three constants
    oi = 0
    n_odd_cells = 0
    for rep in range(cell_reps):
        for cbname, (polkey, steps) in ODD_FLOWS.items():
            for vn in ODD_ORDER:
                if vn == "InteractiveQuery" and cbname in IQ_ALLOWED:
                    continue
                focus = dict(refuse_rest, check_auth_publickey=F, enable_auth_gssapi=True, kex_ctx="ok", kbd_rounds=0)
                if cbname == "check_auth_interactive_response":
                    focus["check_auth_interactive"] = "Q"
                focus[polkey] = ("val", vn)
                plan.append(dict(kind="odd-result", focus=focus, first=list(steps), no_tail=True, exact=True,
                                 shard_key=oi, odd=(cbname, vn)))
                oi += 1
                if rep == 0:
                    n_odd_cells += 1
    n_random = ctx.pick(100, 2400)
    for i in range(n_random):
        plan.append(dict(kind="random"))
    deadline = ctx.deadline(150, 1200)
    shown = 0
    for i, p in enumerate(plan):
        if not ctx.mine(p.get("shard_key", i)):
            continue
        if time.time() > deadline:
            ctx.count("sessions_not_run_time_cap")
            continue
        kname, alg = p.get("key") or rng.choice(KEY_ALGS)
        pol = draw_policy(rng, p.get("focus"))
        first = list(p.get("first", []))
        extra = draw_steps(rng, rng.randint(0, 4) if first else rng.randint(2, 9), kname, alg)
        # most sessions end with a request that would be granted if approved, so that grants are observed
        tail = [rng.choice([("pk", kname, alg, "valid"), ("password",), ("none",), ("gss_keyex", "valid")])] \
            if rng.random() < 0.6 and not p.get("no_tail") else []
        if p.get("no_tail"):
            extra = []
        after = draw_steps(rng, rng.randint(0, 2), kname, alg)  # requests after (a possible) success
        if p.get("exact"):
            after = []
        desc = dict(kind=p["kind"], user=rng.choice(["u", "alice", "root"]), key=[kname, alg], policy=pol,
                    steps=[list(s) for s in first + extra + tail + after],
                    service_request=True if p.get("exact") else rng.random() < 0.93)
        if p.get("odd"):
            desc["odd"] = list(p["odd"])
        if p.get("rekey"):
            desc["rekey"] = True
        if shown < 3 and p["kind"] in ("pk-focus", "kbd-rounds-focus", "random"):
            desc["sample"] = True
            shown += 1
        if p["kind"] in ("pk-cell", "odd-result", "pk-label-mismatch", "gss-cell", "rekey-before-auth") \
                and p.get("shard_key") == ctx.shard:
            desc["sample"] = True  # one of each new kind per shard (Ctx keeps at most four)
        ctx.count("sessions")
        try:
            run_session(ctx, rng, desc)
        except Exception:
            ctx.inconclusive("harness error: " + traceback.format_exc()[-900:])
    ctx.require("victim_auth_messages_read", 400 if ctx.quick else 4000)
    ctx.require("callbacks_logged", 200 if ctx.quick else 2000)
    ctx.require("grants_seen", 30 if ctx.quick else 300)
    ctx.require("grants_method_publickey", 7)
    ctx.require("independent_sig_verifications", 150 if ctx.quick else 1500)
    ctx.require("independent_sig_valid", 20)
    ctx.require("is_authenticated_true", 20)
    ctx.require("grant_usernames_compared", 60)
    ctx.require("continuation_grant_usernames_compared", 10)
    ctx.require("other_username_read_inside_open_exchange", 10)
    ctx.require("gss_mic_checks_independent", 20)
    ctx.require("gss_mic_valid", 10)
    ctx.require("gss_invalid_mic_sent_to_approving_application", 8)
    # round 3 floors: every cell of the forgery matrix and of the odd-result matrix must have been evaluated
    ctx.count("odd_result_cells_evaluated", len(ODD_CELLS))
    per_family = {"rsa": 6, "ecdsa": 6, "ed25519": 2}  # algorithms of the family x 2 signature labels
    for fam in FAMILIES:
        for form in ("plain", "cert"):
            for f in CELL_FORGERIES:
                ctx.require("pkcell_%s_%s_%s" % (fam, form, f), per_family[fam] * cell_reps)
            ctx.require("pkcell_%s_%s_valid_granted" % (fam, form), per_family[fam] * cell_reps * (2 if fam == "rsa" else 1))
    ctx.require("pkcell_label_base", 28 * len(CELL_FORGERIES) // 2 * cell_reps)
    ctx.require("pkcell_label_cert", 28 * len(CELL_FORGERIES) // 2 * cell_reps)
    ctx.require("odd_result_cells_evaluated", n_odd_cells)
    # round 5 floors: every (family, signed-over) cell after a completed re-key; the genuine login granted
    for fam in FAMILIES:
        for w in REKEY_SIG_KINDS:
            ctx.require("rekeycell_%s_%s" % (fam, w), per_family[fam] * cell_reps)
        ctx.require("rekeycell_%s_session_id_granted" % fam, per_family[fam] * cell_reps)
    for ini in g2kit_INITIATORS:
        ctx.require("rekeys_before_auth_completed_" + ini, 3 * cell_reps)
    # round 4 floors
    for form in ("plain", "cert"):
        for f in MISMATCH_KINDS:
            ctx.require("pkcell_rsa_%s_labelmismatch_%s" % (form, MISMATCH_NAME[f]), 6 * cell_reps)
    for req_alg in RSA_ALGS:
        for lab_alg in RSA_ALGS:
            if lab_alg != req_alg:
                ctx.require("pklabel_request_%s_labelled_%s" % (req_alg, lab_alg), 8 * cell_reps)
    for enabled in ("enabled", "disabled"):
        for method in ("with_mic", "keyex"):
            ctx.require("gsscell_%s_%s_valid_mic" % (enabled, method), 3 * cell_reps)
            ctx.require("gsscell_%s_%s_invalid_mic" % (enabled, method), 4 * cell_reps)
    # positive control: with GSS-API enabled and a valid MIC the approving application's answer does grant
    ctx.require("gsscell_enabled_with_mic_valid_mic_granted", 3 * cell_reps)
    ctx.require("gsscell_enabled_keyex_valid_mic_granted", 3 * cell_reps)
    for cbname in ("check_auth_none", "check_auth_password", "check_auth_publickey", "check_auth_interactive",
                   "check_auth_interactive_response", "check_auth_gssapi_keyex", "check_auth_gssapi_with_mic"):
        ctx.require("odd_result_from_" + cbname, 8 * cell_reps)
    for vn in ("None", "True", "False", "int_3", "int_-1", "str", "empty_str", "empty_list", "InteractiveQuery"):
        ctx.require("odd_result_seen_" + vn, 5 * cell_reps)
