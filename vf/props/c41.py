"""C41 — known_hosts lookup / save / reload agree, and loading is idempotent."""
import base64
import hashlib
import hmac
import os
import shutil
import struct
import tempfile

from paramiko.hostkeys import HostKeys
from paramiko.pkey import PKey

from vf.core import exc_signature

META = dict(
    title="known_hosts lookup/save/reload agree; load idempotent",
    level="exploration",
    design_ref="§3 C41",
    technique="independent known_hosts reference (own line parser, own HMAC-SHA1 host hashing, first entry per "
              "key type) compared with the real HostKeys on generated files and add/load/save/delete histories",
    text="Generated known_hosts files (plain and hashed names, multi-host lines, repeated hosts with the same and "
         "with different keys, several key types per host, comments, blank and unparsable lines, tab/space "
         "separators, trailing comments; comment lines of 1, 2, 3+ words, indented with spaces/tabs, with trailing "
         "whitespace, commented-out entries '#host type key', blank lines of spaces/tabs, CRLF line ends) are loaded with the real HostKeys. For a probe set of host names "
         "(listed, unlisted, near misses, hashed literals) lookup() and check() over a pool of keys are compared "
         "with the reference; the object is saved, reloaded into a fresh object (identical lookups, and the "
         "saved text re-parsed by the reference agrees), and the same file is loaded a second time (lookups, "
         "HostKeys.keys(), every SubDict.keys() and the saved text must not change). The same judgements are "
         "applied inside random histories of add / load / save+reload / delete / sub-dict assignment. "
         "Holds on the executions produced.",
    note="Deletion scenarios model del/pop as 'the first entry that lists the host disappears as a whole' (what "
         "HostKeys.__delitem__ does; the statement names delete sequences but not their semantics) and judge "
         "lookup / in / check / keys / save+reload against that model, by position of that entry (entry #0, middle, "
         "last), by name form (plain, plain name of a hashed entry, hashed literal) and for hosts listed on several "
         "entries. Only exact and hashed name listing is modelled (no wildcards, markers or negation: HostKeys does not "
         "implement them and the property does not mention them). The post-state of add()/del is not judged, "
         "only that lookup, save and reload agree afterwards. Key blobs are built with struct.",
    rule="case = one generated file scenario or one operation history; distinct = the file text / the history; "
         "trivial (not counted) = files without any valid entry",
    assumptions=["OpenSSH hashed-host format |1|base64(salt)|base64(HMAC-SHA1(salt, host))"],
)


def shards(tier):
    return 4 if tier == "quick" else 16

SKIP = [0]  # shard s leaves out the samples of its first SKIP strata, so that evidence shows every stratum



# generous per-shard caps: expiry means INCONCLUSIVE, never a verdict (the box is shared and can be 10x slow)
TIMEOUT = {"quick": 900, "thorough": 3000}


# ---- independent reference -----------------------------------------------------------
KNOWN_TYPES = ("ssh-rsa", "ssh-ed25519", "ecdsa-sha2-nistp256", "ecdsa-sha2-nistp384", "ecdsa-sha2-nistp521")


def s(b):
    if isinstance(b, str):
        b = b.encode()
    return struct.pack(">I", len(b)) + b


def mpint(n):
    return s(n.to_bytes(n.bit_length() // 8 + 1, "big"))


def ref_hash(host, salt):
    mac = hmac.new(salt, host.encode("utf-8"), hashlib.sha1).digest()
    return "|1|%s|%s" % (base64.b64encode(salt).decode(), base64.b64encode(mac).decode())


def name_lists(literal, host):
    """Does the known_hosts name `literal` list `host`?"""
    if literal == host:
        return True
    if literal.startswith("|1|") and not host.startswith("|1|"):
        parts = literal.split("|")
        if len(parts) != 4:
            return False
        try:
            salt = base64.b64decode(parts[2])
        except Exception:
            return False
        return hmac.compare_digest(ref_hash(host, salt), literal)
    return False


def ref_parse(text):
    """-> entries [(names, keytype, blob)] for the lines that carry a usable key."""
    entries = []
    for line in text.split("\n"):
        line = line.strip()
        if not line or line.startswith("#"):
            continue
        fields = line.replace("\t", " ").split(" ")
        if len(fields) < 3:
            continue
        names, kt, b64 = fields[0], fields[1], fields[2]
        if kt not in KNOWN_TYPES:
            continue
        try:
            blob = base64.b64decode(b64)
        except Exception:
            continue
        entries.append((names.split(","), kt, blob))
    return entries


def ref_lookup(entries, host):
    """-> None when no entry lists host, else {keytype: blob of the first entry of that type}."""
    out = None
    for names, kt, blob in entries:
        if any(name_lists(n, host) for n in names):
            if out is None:
                out = {}
            out.setdefault(kt, blob)
    return out


# ---- key pool -------------------------------------------------------------------------
class K:
    def __init__(self, kt, blob):
        self.kt = kt
        self.blob = blob
        self.b64 = base64.b64encode(blob).decode()
        self.obj = PKey.from_type_string(kt, blob)  # harness tool: argument objects for check()/add()


def key_pool(rng):
    """Public key blobs derived from the seeded rng (no private keys are needed anywhere)."""
    from cryptography.hazmat.primitives import serialization
    from cryptography.hazmat.primitives.asymmetric import ec, ed25519

    pool = []
    for _ in range(3):
        raw = ed25519.Ed25519PrivateKey.from_private_bytes(rng.randbytes(32)).public_key().public_bytes(
            serialization.Encoding.Raw, serialization.PublicFormat.Raw)
        pool.append(K("ssh-ed25519", s("ssh-ed25519") + s(raw)))
    for _ in range(2):
        n = rng.getrandbits(1024) | (1 << 1023) | 1  # any odd 1024-bit modulus makes a well-formed public blob
        pool.append(K("ssh-rsa", s("ssh-rsa") + mpint(65537) + mpint(n)))
    for curve, nm, reps in ((ec.SECP256R1(), "nistp256", 2), (ec.SECP384R1(), "nistp384", 1), (ec.SECP521R1(), "nistp521", 1)):
        for _ in range(reps):
            pt = ec.derive_private_key(rng.getrandbits(200) + 2, curve).public_key().public_bytes(
                serialization.Encoding.X962, serialization.PublicFormat.UncompressedPoint)
            pool.append(K("ecdsa-sha2-" + nm, s("ecdsa-sha2-" + nm) + s(nm) + s(pt)))
    return pool


HOSTS = ["alpha", "beta.example.com", "10.0.0.1", "[gamma]:2222", "::1", "delta", "Alpha", "alph", "alpha.example.com",
         "192.168.7.9", "[10.0.0.1]:22", "epsilon-1", "Beta.Example.COM", "MiXed-Host", "DELTA"]
UNLISTED = ["zeta", "alphaa", "lpha", "beta", "10.0.0.10", "gamma", "*", "alpha,delta", ""]


# ---- file generator --------------------------------------------------------------------
def gen_file(rng, pool, hosts=None):
    hosts = hosts or rng.sample(HOSTS, rng.randint(2, 7))
    lines = []
    hashed_literals = []
    multi = 0
    conflicts = 0
    info = dict(ghosts=[], indented_comment=0, commented_entry=0, comments=0, blanks=0, crlf=False, trailing=0, hashed_mixed_case=0,
                trailing_1=0, trailing_2=0, trailing_3plus=0)
    for _ in range(rng.randint(1, 12)):
        r = rng.random()
        if r < 0.22:
            lines.append(rand_noise_line(rng, pool, hosts, info))
            continue
        if r < 0.26:
            lines.append(rng.choice(["alpha ssh-rsa", "lonelyfield", "alpha"]))  # too few fields
            continue
        k = rng.choice(pool)
        if r < 0.31:
            # a key type this library does not know (still valid base64)
            lines.append("%s %s %s" % (rng.choice(hosts), rng.choice(["ssh-dss", "ssh-ed448", "sk-ssh-ed25519@openssh.com"]),
                                       base64.b64encode(s("ssh-dss") + rng.randbytes(40)).decode()))
            continue
        nn = rng.choice([1, 1, 1, 2, 2, 3, 4])
        names = []
        for h in (rng.sample(hosts, min(nn, len(hosts)))):
            if rng.random() < 0.15:
                lit = ref_hash(h, bytes(rng.getrandbits(8) for _ in range(20)))
                hashed_literals.append(lit)
                if h != h.lower():
                    info["hashed_mixed_case"] += 1
                names.append(lit)
            else:
                names.append(h)
        if len(names) > 1:
            multi += 1
        sep = rng.choice([" ", " ", "\t"])
        line = sep.join([",".join(names), k.kt, k.b64])
        if rng.random() < 0.3:
            # trailing fields after the key: 1, 2, 3+ extra fields, separated by spaces and/or tabs
            extra = rng.choice([["root@host"], ["#x"], ["comment", "two"], ["comment", "with", "spaces"],
                                ["a", "b", "c", "d", "e", "f"], ["ssh-rsa", "AAAA"], [k.kt, k.b64], ["2024-01-01", "added", "by", "ops"]])
            line += "".join(rng.choice([" ", "\t"]) + w for w in extra)
            info["trailing"] += 1
            info["trailing_%s" % ("1" if len(extra) == 1 else "2" if len(extra) == 2 else "3plus")] += 1
        if rng.random() < 0.1:
            line = rng.choice([" ", "\t", "  "]) + line + rng.choice(["", " ", "\t"])
        lines.append(line)
        if rng.random() < 0.12:
            lines.append(line)  # exact duplicate line
        if rng.random() < 0.15:
            # a later line giving one of these hosts a *different* key of the same type (changed host key)
            rivals = [x for x in pool if x.kt == k.kt and x.blob != k.blob]
            if rivals:
                lines.append("%s %s %s" % (rng.choice(names), k.kt, rng.choice(rivals).b64))
                conflicts += 1
    nl = "\n"
    if rng.random() < 0.15:
        nl = "\r\n"  # file written on Windows / copied through a CRLF tool
        info["crlf"] = True
    text = nl.join(lines) + rng.choice([nl, nl, ""])
    info["multi"], info["conflicts"] = multi, conflicts
    return text, hosts, hashed_literals, info


def rand_noise_line(rng, pool, hosts, info):
    """A line that is NOT an entry: blank (spaces/tabs) or a comment in one of the shapes found in real files,
    optionally indented and with trailing whitespace. Commented-out entries record the names they would list if
    a parser mistook them for entries (`ghosts`)."""
    if rng.random() < 0.25:
        info["blanks"] += 1
        return rng.choice(["", " ", "   ", "\t", " \t ", "\t\t"])
    indent = rng.choice(["", "", " ", "    ", "\t", " \t", "\t\t", "        "])
    trail = rng.choice(["", "", " ", "\t", "   "])
    k = rng.choice(pool)
    h = rng.choice(hosts)
    form = rng.randrange(10)
    if form == 0:
        body = "#"
    elif form == 1:
        body = "#" + rng.choice(["comment", "TODO", "x"])
    elif form == 2:
        body = "# " + rng.choice(["comment", "servers", "x"])
    elif form == 3:
        body = "# two words"
    elif form == 4:
        body = "# three word comment"
    elif form == 5:
        body = "# a much longer comment, with punctuation: and = signs; and 7 or more words"
    elif form == 6:
        body = "#three word comment"
    else:
        info["commented_entry"] += 1
        if form == 7:
            body = "#%s %s %s" % (h, k.kt, k.b64)  # commented-out entry, no space after '#'
            info["ghosts"] += ["#" + h]
        elif form == 8:
            body = "# %s %s %s" % (h, k.kt, k.b64)  # ... with a space: first field would be '#'
            info["ghosts"] += ["#"]
        else:
            h2 = rng.choice(hosts)
            body = "#%s,%s %s %s old key" % (h, h2, k.kt, k.b64)
            info["ghosts"] += ["#" + h]
    info["comments"] += 1
    if indent:
        info["indented_comment"] += 1
    return indent + body + trail


# ---- observation helpers ------------------------------------------------------------------
def real_lookup(hk, host):
    sub = hk.lookup(host)
    if sub is None:
        return None, None
    keys = list(sub.keys())
    return {kt: sub[kt].asbytes() for kt in keys}, keys


ABBR = {}


def abbr(x):
    """Witness/sample texts with the base64 key bodies replaced by K<i> (pool index)."""
    if isinstance(x, str):
        for b64, nm in ABBR.items():
            x = x.replace(b64, nm)
        return x
    if isinstance(x, dict):
        return {k: abbr(v) for k, v in x.items()}
    if isinstance(x, (list, tuple)):
        return [abbr(v) for v in x]
    return x


def write(path, text):
    with open(path, "w") as f:
        f.write(text)


def saved_text(hk, path):
    hk.save(path)
    with open(path) as f:
        return f.read()


def compare_with_reference(ctx, hk, entries, probes, pool, rng, where, wit):
    """lookup()/check() of the live object vs the reference entries."""
    ok = True
    for host in probes:
        got, _ = real_lookup(hk, host)
        want = ref_lookup(entries, host)
        ctx.count("lookups_compared")
        if host.startswith("|1|") and want is not None:
            ctx.count("hashed_literal_lookups_compared")
        if want is not None:
            # dict-style access must agree with lookup(): hk[name] works for every listed name, hashed literals included
            ctx.count("getitem_accesses_compared")
            try:
                sub = hk[host]
                if set(sub.keys()) != set(want):
                    ctx.violation("%s: hk[name] reports other key types than the entries listing the name" % where,
                                  "host %r" % host, dict(wit, host=host))
            except KeyError:
                ctx.violation("%s: hk[name] raises KeyError for a listed name (%s)"
                              % (where, "hashed literal" if host.startswith("|1|") else "plain name"),
                              "host %r" % host, dict(wit, host=host))
        if want is not None:
            ctx.count("lookups_compared_listed_host")
        if got != want:
            ok = False
            hashed = any(n.startswith("|1|") and name_lists(n, host) for names, _, _ in entries for n in names)
            if want is None:
                sig = "lookup returns keys for a host no entry lists"
            elif got is None:
                sig = "lookup finds nothing for a listed host (%s)" % ("hashed entry" if hashed else "plain entry")
            elif set(got) != set(want):
                sig = "lookup reports a different set of key types than the entries listing the host"
            else:
                sig = "lookup does not return the first entry's key for a key type"
            ctx.violation("%s: %s" % (where, sig), "host %r: got %s, reference %s"
                          % (host, None if got is None else sorted(got), None if want is None else sorted(want)),
                          dict(wit, host=host))
            continue
        # the key that should be effective, a rival of the same type, and a random one
        cand = [rng.choice(pool)]
        if want:
            kt = rng.choice(sorted(want))
            cand += [k for k in pool if k.kt == kt and k.blob == want[kt]][:1]
            cand += [k for k in pool if k.kt == kt and k.blob != want[kt]][:1]
        for k in cand:
            c = hk.check(host, k.obj)
            cw = want is not None and want.get(k.kt) == k.blob
            ctx.count("checks_compared")
            if cw:
                ctx.count("checks_compared_expected_true")
            if c != cw:
                ok = False
                ctx.violation("%s: check() is %s for a key that %s the host's effective %s key"
                              % (where, c, "is" if cw else "is not", "entry" if want else "(absent)"),
                              "host %r key type %s" % (host, k.kt), dict(wit, host=host, keytype=k.kt))
    return ok


def compare_host_list(ctx, hk, entries, ghosts, where, wit):
    """HostKeys.keys() == the names listed by the reference's entries (a comment or blank line is never one)."""
    want = {n for names, _, _ in entries for n in names}
    try:
        got = set(hk.keys())
    except Exception as e:
        ctx.violation("%s: exception from keys(): %s" % (where, exc_signature(e)), repr(e)[:200], wit)
        return
    ctx.count("host_lists_compared")
    extra = got - want
    # a plain name may legitimately be folded into an earlier entry that lists the same host in hashed form with
    # the same key; it is only "missing" when nothing that keys() reports lists it any more
    missing = {n for n in want - got if not any(name_lists(g, n) for g in got)}
    if extra:
        if any(x in ghosts or x.startswith("#") for x in extra):
            sig = "a comment line was taken for an entry (its first word shows up in keys())"
        else:
            sig = "keys() lists a name that no entry of the file lists"
        ctx.violation("%s: %s" % (where, sig), "unexpected names %r" % sorted(extra)[:4], wit)
    if missing:
        ctx.violation("%s: keys() omits a name an entry lists" % where, "missing %r" % sorted(missing)[:4], wit)


def snapshot(hk, probes, path):
    looks, keylists = {}, {}
    for h in probes:
        looks[h], keylists[h] = real_lookup(hk, h)
    return dict(looks=looks, keylists=keylists, hosts=list(hk.keys()), saved=saved_text(hk, path))


def classify_reload(before, after):
    """Name what a second load of the same file changed (from observable outputs only)."""
    sigs = []
    if after["looks"] != before["looks"]:
        sigs.append(("loading the same file again changed lookup results", "lookup"))
    if after["saved"] != before["saved"]:
        old = ref_parse(before["saved"])
        new = ref_parse(after["saved"])
        if len(new) > len(old) and new[:len(old)] == old:
            for names, kt, blob in new[len(old):]:
                # classify per appended name by what check() must have seen: the effective key of the host
                for n in names:
                    eff = (ref_lookup(old, n) or {}).get(kt)
                    if eff == blob:
                        sigs.append(("loading the same file again appends a duplicate of the entry already in "
                                     "effect for a host (name skipped on a multi-host line)", "saved"))
                    elif eff is not None:
                        sigs.append(("loading the same file again re-appends an entry that is shadowed by an "
                                     "earlier entry of the same host and key type", "saved"))
                    else:
                        sigs.append(("loading the same file again appends an entry for a host/key type it did "
                                     "not list before", "saved"))
        elif len(new) < len(old):
            sigs.append(("loading the same file again removes entries from the saved output", "saved"))
        else:
            sigs.append(("loading the same file again rewrites entries in the saved output", "saved"))
    if not sigs and (after["keylists"] != before["keylists"] or after["hosts"] != before["hosts"]):
        sigs.append(("loading the same file again changed the reported key lists", "keys"))
    return list(dict.fromkeys(sigs))


def reload_twice(ctx, hk, path, probes, tmp, where, wit):
    """`path` has already been loaded into hk; load it again and compare."""
    before = snapshot(hk, probes, tmp)
    try:
        hk.load(path)
    except Exception as e:
        ctx.violation("%s: exception from load: %s" % (where, exc_signature(e)), repr(e)[:200], wit)
        return
    after = snapshot(hk, probes, tmp)
    ctx.count("reloads_compared")
    for sig, part in classify_reload(before, after):
        ctx.violation(sig, "%s: second load of the same file changed the %s; saved output went from %d to %d lines"
                      % (where, part, before["saved"].count("\n"), after["saved"].count("\n")),
                      dict(wit, saved_before=before["saved"], saved_after=after["saved"]))


def save_reload(ctx, hk, probes, pool, rng, path, where, wit):
    """save -> fresh object: identical lookups; the saved text, re-parsed independently, agrees too."""
    try:
        text = saved_text(hk, path)
        fresh = HostKeys(path)
    except Exception as e:
        ctx.violation("%s: exception from save/reload: %s" % (where, exc_signature(e)), repr(e)[:200], wit)
        return None
    ctx.count("save_reload_cycles")
    for h in probes:
        a, _ = real_lookup(hk, h)
        b, _ = real_lookup(fresh, h)
        ctx.count("reloaded_lookups_compared")
        if a != b:
            ctx.violation("%s: lookup differs after save and reload" % where,
                          "host %r: before %s, after reload %s"
                          % (h, None if a is None else sorted(a), None if b is None else sorted(b)),
                          dict(wit, host=h, saved=text))
            break
    compare_with_reference(ctx, fresh, ref_parse(text), probes, pool, rng, where + " (reloaded from saved text)",
                           dict(wit, saved=text))
    return fresh


# ---- scenarios --------------------------------------------------------------------------------
def file_scenario(ctx, rng, pool, d, i):
    text, hosts, hashed, info = gen_file(rng, pool)
    multi, conflicts = info["multi"], info["conflicts"]
    entries = ref_parse(text)
    f1, f2, f3 = (os.path.join(d, n) for n in ("kh", "kh.saved", "kh.snap"))
    write(f1, text)
    ghosts = list(dict.fromkeys(info["ghosts"]))
    other_case = [h.lower() for h in hosts if h != h.lower()] + [h.upper() for h in hosts[:1]]
    probes = list(dict.fromkeys(hosts + rng.sample(HOSTS, 3) + rng.sample(UNLISTED, 3) + hashed[:3] + ghosts[:3] + other_case))
    wit = dict(file=text)
    for flag, name in (("indented_comment", "files_with_indented_comments"), ("commented_entry", "files_with_commented_out_entries"),
                       ("crlf", "files_with_crlf_line_ends"), ("blanks", "files_with_blank_lines")):
        if info[flag]:
            ctx.count(name)
    ctx.count("comment_lines_generated", info["comments"])
    ctx.count("hashed_mixed_case_names_generated", info["hashed_mixed_case"])
    ctx.count("entry_lines_with_trailing_fields", info["trailing"])
    ctx.count("entry_lines_with_1_trailing_field", info["trailing_1"])
    ctx.count("entry_lines_with_2_trailing_fields", info["trailing_2"])
    ctx.count("entry_lines_with_3_or_more_trailing_fields", info["trailing_3plus"])
    ctx.case(("file", text), nontrivial=bool(entries),
             sample=dict(kind="file scenario", file=text, probes=probes) if i < 1 and SKIP[0] <= 0 else None)
    if multi:
        ctx.count("files_with_multi_host_lines")
    if conflicts:
        ctx.count("files_with_conflicting_keys")
    if hashed:
        ctx.count("files_with_hashed_names")
    try:
        hk = HostKeys(f1)
    except Exception as e:
        ctx.violation("exception from load: " + exc_signature(e), repr(e)[:200], wit)
        return
    ctx.count("files_loaded")
    compare_with_reference(ctx, hk, entries, probes, pool, rng, "after load", wit)
    compare_host_list(ctx, hk, entries, ghosts, "after load", wit)
    fresh = save_reload(ctx, hk, probes, pool, rng, f2, "after load", wit)
    if fresh is not None:
        # load -> save -> load: same host list as the first load (and, via save_reload, the same lookups)
        ctx.count("host_lists_compared_after_save_reload")
        a, b = set(hk.keys()), set(fresh.keys())
        if a != b:
            ctx.violation("host list differs after save and reload",
                          "only before: %r, only after: %r" % (sorted(a - b)[:4], sorted(b - a)[:4]), wit)
    reload_twice(ctx, hk, f1, probes, f3, "file loaded twice", wit)


def delete_scenario(ctx, rng, pool, d, i):
    """Deletion by position: del hk[h] / hk.pop(h) where h's first matching entry is entry #0, a middle entry or the
    last one; by plain name (listed plain or only hashed) or by the hashed literal. Model: the first entry that lists
    h disappears as a whole. Afterwards lookup / in / check / keys() and save+reload must agree with the model."""
    text, hosts, hashed, info = gen_file(rng, pool)
    f1, f2 = os.path.join(d, "del"), os.path.join(d, "del.saved")
    write(f1, text)
    try:
        hk = HostKeys(f1)
        model = ref_parse(saved_text(hk, f2))  # the store as it is, entry by entry
    except Exception as e:
        ctx.violation("exception from load: " + exc_signature(e), repr(e)[:200], dict(file=text))
        return
    ops = []
    probes = list(dict.fromkeys(hosts + rng.sample(UNLISTED, 2) + hashed[:3]))
    for step in range(rng.randint(1, 3)):
        if not model:
            break
        # candidates: (name to delete by, index of its first matching entry, form)
        cands = []
        for h in probes:
            idx = next((j for j, (names, _, _) in enumerate(model) if any(name_lists(n, h) for n in names)), None)
            if idx is None:
                continue
            names = model[idx][0]
            form = "hashed literal" if h.startswith("|1|") else "plain name" if h in names else "plain name of a hashed entry"
            cands.append((h, idx, form))
        if not cands:
            break
        want_pos = rng.choice(["first", "middle", "last"])

        def pos_of(idx):
            return "first" if idx == 0 else "last" if idx == len(model) - 1 else "middle"

        pool_c = [c for c in cands if pos_of(c[1]) == want_pos] or cands
        want_form = rng.choice(["plain name", "plain name of a hashed entry", "hashed literal"])
        pool_c = [c for c in pool_c if c[2] == want_form] or pool_c
        h, idx, form = rng.choice(pool_c)
        position = "entry #0" if idx == 0 else "the last entry" if idx == len(model) - 1 else "a middle entry"
        if idx == 0 and len(model) == 1:
            position = "entry #0"
        several = sum(1 for names, _, _ in model if any(name_lists(n, h) for n in names)) > 1
        how = rng.choice(["del", "del", "del", "pop", "pop-default"])
        ops.append([how, h, position, form])
        wit = dict(file=text, ops=list(ops))
        try:
            if how == "del":
                del hk[h]
            elif how == "pop":
                hk.pop(h)
            else:
                hk.pop(h, None)
        except KeyError:
            ctx.violation("deleting a listed host raised KeyError (its first matching entry is %s)" % position,
                          "%s of %r (%s)" % (how, h, form), wit)
            return
        except Exception as e:
            ctx.violation("exception from delete: " + exc_signature(e), repr(e)[:200], wit)
            return
        del model[idx]
        ctx.count("deletes_judged")
        ctx.count("deletes_where_first_match_is_" + position.replace(" ", "_").replace("#", ""))
        ctx.count("deletes_by_" + form.replace(" ", "_"))
        if several:
            ctx.count("deletes_of_a_host_listed_on_several_entries")
        where = "after delete"  # position and name form are in the witness (ops), not in the signature
        ok = compare_with_reference(ctx, hk, model, probes, pool, rng, where, wit)
        compare_host_list(ctx, hk, model, [], where, wit)
        for p in probes:
            ctx.count("membership_tests_compared")
            try:
                inside = p in hk
            except Exception as e:
                ctx.violation("%s: exception from 'in': %s" % (where, exc_signature(e)), repr(e)[:200], wit)
                return
            if inside != (ref_lookup(model, p) is not None):
                ctx.violation("%s: 'host in hostkeys' disagrees with the entries that remain" % where,
                              "%r in hk is %s" % (p, inside), dict(wit, host=p))
                return
        if not ok:
            return
        fresh = save_reload(ctx, hk, probes, pool, rng, f2, where, wit)
        if fresh is None:
            return
    if rng.random() < 0.2:
        hk.clear()
        ctx.count("clears_judged")
        if list(hk.keys()) or any(hk.lookup(p) is not None for p in probes) or saved_text(hk, f2) != "":
            ctx.violation("clear() left entries behind", "keys=%r" % list(hk.keys())[:4], dict(file=text, ops=ops))
    ctx.case(("delete", text, repr(ops)), sample=dict(kind="delete by position", file=text, ops=ops) if i < 1 else None,
             nontrivial=bool(ops))


def history_scenario(ctx, rng, pool, d, i):
    hk = HostKeys()
    hosts = rng.sample(HOSTS, rng.randint(3, 6))
    files = []
    ops = []
    probes = list(dict.fromkeys(hosts + rng.sample(UNLISTED, 2)))
    tmp, tmp2 = os.path.join(d, "h.snap"), os.path.join(d, "h.saved")
    for step in range(rng.randint(2, 9)):
        r = rng.random()
        wit = dict(history=ops)
        try:
            if r < 0.35 or not ops:
                text, _, hashed, _info = gen_file(rng, pool, hosts)
                path = os.path.join(d, "hist%d" % len(files))
                write(path, text)
                files.append(path)
                ops.append(["load", text])
                hk.load(path)
                probes = list(dict.fromkeys(probes + hashed[:1]))
                reload_twice(ctx, hk, path, probes, tmp, "history", dict(history=ops))
            elif r < 0.45 and files:
                path = rng.choice(files)
                ops.append(["load-again", files.index(path)])
                hk.load(path)
                reload_twice(ctx, hk, path, probes, tmp, "history", dict(history=ops))
            elif r < 0.65:
                k = rng.choice(pool)
                h = rng.choice(hosts)
                ops.append(["add", h, k.kt, pool.index(k)])
                hk.add(h, k.kt, k.obj)
            elif r < 0.75:
                h = rng.choice(hosts)
                ops.append(["del", h])
                try:
                    del hk[h]
                except KeyError:
                    pass
            elif r < 0.85:
                h = rng.choice(hosts)
                k = rng.choice(pool)
                sub = hk.lookup(h)
                if sub is not None:
                    ops.append(["subdict-set", h, k.kt, pool.index(k)])
                    sub[k.kt] = k.obj
            else:
                ops.append(["save+reload"])
                fresh = save_reload(ctx, hk, probes, pool, rng, tmp2, "history", dict(history=ops))
                if fresh is not None:
                    hk = fresh
        except Exception as e:
            ctx.violation("history: exception from %s: %s" % (ops[-1][0] if ops else "?", exc_signature(e)),
                          repr(e)[:200], wit)
            return
    ctx.case(("history", repr(ops)), sample=dict(kind="history", ops=ops) if i < 1 and SKIP[0] <= 1 else None)
    ctx.count("histories_run")
    ctx.count("history_operations", len(ops))
    save_reload(ctx, hk, probes, pool, rng, tmp2, "history end", dict(history=ops))


class AbbrCtx:
    """ctx proxy that abbreviates key bodies in witnesses and samples (keeps them readable and short)."""

    def __init__(self, ctx):
        self._ctx = ctx

    def __getattr__(self, name):
        return getattr(self._ctx, name)

    def violation(self, sig, what, witness=None):
        return self._ctx.violation(sig, abbr(what), abbr(witness))

    def case(self, fingerprint, sample=None, nontrivial=True):
        return self._ctx.case(fingerprint, sample=abbr(sample) if sample is not None else None, nontrivial=nontrivial)


def run(ctx):
    SKIP[0] = ctx.shard % 3
    ctx = AbbrCtx(ctx)
    rng = ctx.rng
    pool = key_pool(rng)
    for i, k in enumerate(pool):
        ABBR[k.b64] = "<K%d:%s>" % (i, k.kt)
    d = tempfile.mkdtemp(prefix="vf-c41-")
    try:
        for i in range(ctx.pick(150, 900)):
            file_scenario(ctx, rng, pool, d, i)
        for i in range(ctx.pick(60, 400)):
            history_scenario(ctx, rng, pool, d, i)
        for i in range(ctx.pick(150, 900)):
            delete_scenario(ctx, rng, pool, d, i)
    finally:
        shutil.rmtree(d, ignore_errors=True)
    ctx.require("files_loaded", 300)
    ctx.require("lookups_compared_listed_host", 3000)
    ctx.require("checks_compared_expected_true", 3000)
    ctx.require("save_reload_cycles", 400)
    ctx.require("reloads_compared", 500)
    ctx.require("files_with_multi_host_lines", 200)
    ctx.require("files_with_hashed_names", 150)
    ctx.require("files_with_conflicting_keys", 100)
    ctx.require("histories_run", 120)
    ctx.require("hashed_literal_lookups_compared", 400)
    ctx.require("getitem_accesses_compared", 3000)
    ctx.require("hashed_mixed_case_names_generated", 60)
    ctx.require("deletes_judged", 500)
    ctx.require("deletes_where_first_match_is_entry_0", 120)
    ctx.require("deletes_where_first_match_is_a_middle_entry", 120)
    ctx.require("deletes_where_first_match_is_the_last_entry", 80)
    ctx.require("deletes_by_plain_name_of_a_hashed_entry", 40)
    ctx.require("deletes_by_hashed_literal", 40)
    ctx.require("deletes_of_a_host_listed_on_several_entries", 150)
    ctx.require("entry_lines_with_trailing_fields", 500)
    ctx.require("entry_lines_with_3_or_more_trailing_fields", 150)
    ctx.require("host_lists_compared", 300)
    ctx.require("host_lists_compared_after_save_reload", 300)
    ctx.require("comment_lines_generated", 400)
    ctx.require("files_with_indented_comments", 100)
    ctx.require("files_with_commented_out_entries", 80)
    ctx.require("files_with_crlf_line_ends", 40)
