"""C08 — key exchange rejects invalid peer public values and out-of-range
groups: DH e/f outside [1, p-1] (both roles), EC points not on the curve,
all-zero X25519 results, and (client) group-exchange primes outside
1024..8192 bits.  Rejected = exception and no keys derived."""
import struct
import time

import paramiko
from paramiko.message import Message
from paramiko.kex_curve25519 import KexCurve25519
from paramiko.kex_ecdh_nist import KexNistp256, KexNistp384, KexNistp521
from paramiko.kex_gex import KexGex, KexGexSHA256
from paramiko.kex_group1 import KexGroup1
from paramiko.kex_group14 import KexGroup14, KexGroup14SHA256
from paramiko.kex_group16 import KexGroup16SHA512

from vf import kexbench, keys
from vf.kexbench import StubTransport

META = dict(
    title="kex rejects invalid public values / out-of-range groups",
    level="exploration",
    design_ref="§3 C08",
    technique="call recorder on the transport surface of real kex engines (_set_K_H, _activate_outbound, "
              "_send_message) + independent range/curve/X25519 oracles deciding which inputs must be rejected",
    text="Every kex engine (group1/14/14-sha256/16, gex sha1/sha256, nistp256/384/521, curve25519) is driven "
         "threadless in both roles through start_kex()/parse_next() on a recording stub transport. Peer values are "
         "drawn at and around the range ends (0 in three encodings, negatives, p, p+1, 2p, multiples, random larger), "
         "EC points are classified by an independent curve-equation check (off-curve, unsolvable compressed x, wrong "
         "length, infinity, unknown prefixes), X25519 inputs by a pure-Python RFC 7748 ladder (low-order u-coordinates "
         "incl. non-canonical encodings) plus a backend double whose exchange() returns zeros, gex primes of "
         "0..16384 bits. An input that must be rejected has to raise and leave no _set_K_H/_activate_outbound/"
         "outgoing message. In-range inputs are only counted (they prove the recorder sees key derivation). A few "
         "full handshakes with a side that rewrites its own kex message confirm the victim dies without NEWKEYS.",
    note="GSS-API kex engines are not driven (no GSS context on the image). 1 and p-1 are inside the allowed range "
         "and not judged. The type of the exception is not judged (C38). Negative gex primes are not judged.",
    rule="case = (engine, role, message, value class, value), distinct = hash of those; non-trivial = the oracle "
         "says the value must be rejected (in-range control values are evaluated and counted in monitors only)",
    assumptions=["pure-Python Montgomery ladder (validated per run against the backend) defines the X25519 result",
                 "NIST curve parameters validated per run against backend-generated points"],
)


def shards(tier):
    return 8 if tier == "quick" else 16


TIMEOUT = {"quick": 600, "thorough": 3000}  # generous: expiry is inconclusive, never a verdict


# ---------------------------------------------------------------------------
# wire helpers (independent of paramiko.Message)


def mpint(n, pad=0):
    if n == 0:
        body = b""
    elif n > 0:
        body = n.to_bytes(n.bit_length() // 8 + 1, "big", signed=True)
    else:
        body = n.to_bytes((~n).bit_length() // 8 + 1, "big", signed=True)
    if pad:
        body = (b"\xff" if n < 0 else b"\x00") * pad + body
    return struct.pack(">I", len(body)) + body


def sstr(b):
    return struct.pack(">I", len(b)) + b


def u32(n):
    return struct.pack(">I", n)


def read_mpints(raw, count):
    """raw = payload with type byte; returns `count` mpints following it."""
    off = 1
    out = []
    for _ in range(count):
        (n,) = struct.unpack_from(">I", raw, off)
        off += 4
        out.append(int.from_bytes(raw[off:off + n], "big", signed=True) if n else 0)
        off += n
    return out


# ---------------------------------------------------------------------------
# verdict on one fed message


def feed(eng, st, ptype, payload):
    mark = len(st.calls)
    exc = None
    try:
        eng.parse_next(ptype, Message(payload))
    except Exception as e:
        exc = e
    return exc, st.names(mark), mark


def judge_bad(ctx, family, engine, role, field, klass, exc, after, witness):
    """The fed value must be rejected."""
    ctx.count("bad_inputs_fed")
    ctx.count("bad_inputs_fed_%s_%s" % (family, role))
    derived = "set_K_H" in after or "activate_outbound" in after
    sent = "send" in after
    if exc is not None and not derived and not sent:
        ctx.count("bad_inputs_rejected")
        return True
    if exc is None:
        how = "accepted, keys derived" if derived else "accepted without error"
    elif derived:
        how = "raised only after deriving keys"
    else:
        how = "raised only after sending a reply"
    ctx.violation("%s %s: %s [%s] %s" % (family, role, field, klass, how),
                  "%s in %s role was fed %s = %s and did not reject it before deriving keys (calls after: %s)"
                  % (engine, role, field, klass, after),
                  dict(witness, engine=engine, role=role, field=field, klass=klass, calls_after=after,
                       exception=repr(exc)))
    return False


def note_ok(ctx, family, role, exc, after):
    """In-range control value: no verdict, shows the recorder sees derivation."""
    ctx.count("inrange_inputs_fed")
    if exc is None and "set_K_H" in after and "activate_outbound" in after:
        ctx.count("inrange_accepted_keys_derived")
        ctx.count("inrange_accepted_%s_%s" % (family, role))
    else:
        ctx.count("inrange_not_accepted")


# ---------------------------------------------------------------------------
# finite-field DH values


def dh_values(rng, p, n_random):
    """-> [(class, value, pad, must_reject)]"""
    out = [
        ("zero", 0, 0, True), ("zero", 0, 1, True), ("zero", 0, 2, True),
        ("negative", -1, 0, True), ("negative", -2, 0, True), ("negative", -(p - 1), 0, True),
        ("negative", -p, 0, True), ("negative", -1, 3, True),
        ("equals p", p, 0, True), ("equals p", p, 2, True),
        ("above p", p + 1, 0, True), ("above p", p + 2, 0, True), ("above p", 2 * p - 1, 0, True),
        ("above p", 2 * p, 0, True), ("above p", 2 * p + 1, 0, True), ("above p", 3 * p + 1, 0, True),
        ("above p", 1 << p.bit_length(), 0, True), ("above p", (1 << (p.bit_length() + 64)) + 1, 0, True),
        ("in range", 1, 0, False), ("in range", 2, 0, False), ("in range", p - 2, 0, False),
        ("in range", p - 1, 0, False), ("in range", 2, 1, False),
    ]
    for _ in range(n_random):
        r = rng.random()
        if r < 0.35:
            out.append(("above p", p + rng.getrandbits(rng.randint(1, p.bit_length() + 40)), 0, True))
        elif r < 0.5:
            out.append(("above p", p * rng.randint(2, 1000) + rng.choice((0, 1, p - 1)), 0, True))
        elif r < 0.75:
            out.append(("negative", -rng.getrandbits(rng.randint(1, p.bit_length() + 16)) - 1, 0, True))
        elif r < 0.8:
            out.append(("zero", 0, rng.randint(0, 8), True))
        else:
            out.append(("in range", rng.randint(2, p - 2), 0, False))
    return out


GROUPS = [("KexGroup1", KexGroup1), ("KexGroup14", KexGroup14), ("KexGroup14SHA256", KexGroup14SHA256),
          ("KexGroup16SHA512", KexGroup16SHA512)]
FAKE_HOSTKEY = sstr(b"ssh-ed25519") + sstr(b"\x01" * 32)
FAKE_SIG = sstr(b"ssh-ed25519") + sstr(b"\x02" * 64)


def server_stub(pack=None):
    return StubTransport(True, host_key=keys.ed25519(), host_key_type="ssh-ed25519", pack=pack)


def client_stub():
    return StubTransport(False, host_key_type="ssh-ed25519")


def stratum_group(ctx, idx):
    rng = ctx.rng
    for name, cls in GROUPS:
        p = cls.P
        nrand = ctx.pick(60, 1800) if p.bit_length() <= 2048 else ctx.pick(6, 150)
        for role in ("client", "server"):
            for klass, v, pad, bad in dh_values(rng, p, nrand):
                i = next(idx)
                if not ctx.mine(i):
                    continue
                st = client_stub() if role == "client" else server_stub()
                eng = cls(st)
                eng.start_kex()
                if role == "client":
                    field, ptype = "f", 31
                    payload = sstr(FAKE_HOSTKEY) + mpint(v, pad) + sstr(FAKE_SIG)
                else:
                    field, ptype = "e", 30
                    payload = mpint(v, pad)
                exc, after, _ = feed(eng, st, ptype, payload)
                desc = dict(kind="dh-group", engine=name, role=role, field=field, klass=klass,
                            value=("p%+d" % (v - p)) if abs(v - p) < 4 else hex(v)[:48],
                            pad=pad, exception=repr(exc)[:120], calls_after=after)
                ctx.case(("grp", name, role, hex(v), pad), sample=desc if i % 97 == 0 else None, nontrivial=bad)
                if bad:
                    judge_bad(ctx, "group", name, role, field, klass, exc, after, desc)
                else:
                    note_ok(ctx, "group", role, exc, after)


# ---------------------------------------------------------------------------
# group exchange


def fake_prime(rng, bits):
    if bits <= 0:
        return 0
    if bits == 1:
        return 1
    return (1 << (bits - 1)) | rng.getrandbits(bits - 1) | 1


def gex_sizes(ctx):
    fixed = [0, 1, 2, 64, 512, 768, 1000, 1022, 1023, 1024, 1025, 2048, 8191, 8192, 8193, 8194, 8200, 9000,
             12288, 16384]
    rng = ctx.rng
    extra = [rng.randint(3, 1023) for _ in range(ctx.pick(6, 80))]
    extra += [rng.randint(8193, 16384) for _ in range(ctx.pick(6, 80))]
    extra += [rng.randint(1024, 3000) for _ in range(ctx.pick(3, 30))]
    return fixed + extra


def stratum_gex_client_group(ctx, idx):
    """Client must reject a GEX_GROUP whose p is outside 1024..8192 bits."""
    rng = ctx.rng
    for name, cls in (("KexGex", KexGex), ("KexGexSHA256", KexGexSHA256)):
        for bits in gex_sizes(ctx):
            i = next(idx)
            if not ctx.mine(i):
                continue
            p = fake_prime(rng, bits)
            st = client_stub()
            eng = cls(st)
            eng.start_kex()
            exc, after, _ = feed(eng, st, 31, mpint(p) + mpint(2))
            desc = dict(kind="gex-group-size", engine=name, role="client", p_bits=p.bit_length(),
                        exception=repr(exc)[:120], calls_after=after)
            ctx.case(("gexsize", name, hex(p)), sample=desc if bits in (1023, 8193) else None,
                     nontrivial=p.bit_length() < 1024 or p.bit_length() > 8192)
            ctx.count("gex_group_sizes_fed")
            if p.bit_length() < 1024 or p.bit_length() > 8192:
                klass = "below 1024 bits" if p.bit_length() < 1024 else "above 8192 bits"
                judge_bad(ctx, "gex", name, "client", "group prime", klass, exc, after, desc)
            else:
                ctx.count("inrange_inputs_fed")
                if exc is None and "send" in after:
                    ctx.count("gex_inrange_group_accepted")
                    if p.bit_length() in (1024, 8192):
                        ctx.count("gex_boundary_group_accepted")
                else:
                    ctx.count("inrange_not_accepted")


def stratum_gex_values(ctx, idx):
    """e/f range checks of the gex engines against the group actually in use."""
    rng = ctx.rng
    pack = kexbench.modulus_pack()
    primes = kexbench.modp_primes()
    for name, cls in (("KexGex", KexGex), ("KexGexSHA256", KexGexSHA256)):
        # client: f in GEX_REPLY
        for bits in sorted(primes):
            p = primes[bits]
            nrand = ctx.pick(8, 300) if bits <= 2048 else ctx.pick(3, 50)
            vals = dh_values(rng, p, nrand)
            if ctx.quick and bits > 2048:  # accepting a big group costs a modexp per case
                vals = vals[::3]
            for klass, v, pad, bad in vals:
                i = next(idx)
                if not ctx.mine(i):
                    continue
                st = client_stub()
                eng = cls(st)
                eng.start_kex()
                exc0, after0, _ = feed(eng, st, 31, mpint(p) + mpint(2))
                if exc0 is not None or "send" not in after0:
                    ctx.count("gex_client_setup_refused")
                    continue
                payload = sstr(FAKE_HOSTKEY) + mpint(v, pad) + sstr(FAKE_SIG)
                exc, after, _ = feed(eng, st, 33, payload)
                desc = dict(kind="gex-f", engine=name, role="client", p_bits=bits, klass=klass, pad=pad,
                            value=("p%+d" % (v - p)) if abs(v - p) < 4 else hex(v)[:48],
                            exception=repr(exc)[:120], calls_after=after)
                ctx.case(("gexf", name, bits, hex(v), pad), sample=desc if i % 101 == 0 else None, nontrivial=bad)
                if bad:
                    judge_bad(ctx, "gex", name, "client", "f", klass, exc, after, desc)
                else:
                    note_ok(ctx, "gex", "client", exc, after)
        # server: e in GEX_INIT, group picked by the real ModulusPack
        requests = [(1024, 2048, 8192), (1024, 1024, 1024), (1024, 1536, 2048), (2048, 3072, 8192),
                    (1024, 4096, 8192), (512, 768, 1024), (4096, 8192, 8192), None, None]
        if ctx.quick:
            requests = [requests[0], requests[2], requests[4], requests[5], None]
        for req in requests:
            nrand = ctx.pick(4, 200)
            probe = dh_values(rng, 23, 0)  # shapes only; values are rebuilt once p is known
            for k in range(len(probe) + nrand):
                i = next(idx)
                if not ctx.mine(i):
                    continue
                st = server_stub(pack)
                eng = cls(st)
                eng.start_kex()
                if req is None:
                    pref = rng.choice((1024, 2048, 3000, 4096, 100, 10000))
                    exc0, after0, mark = feed(eng, st, 30, u32(pref))
                else:
                    exc0, after0, mark = feed(eng, st, 34, u32(req[0]) + u32(req[1]) + u32(req[2]))
                groups = [c for c in st.sent(mark) if c[1] == 31]
                if exc0 is not None or len(groups) != 1:
                    ctx.count("gex_server_setup_failed")
                    continue
                p, g = read_mpints(groups[0][2], 2)
                vals = dh_values(rng, p, 1 if k >= len(probe) else 0)
                klass, v, pad, bad = vals[k] if k < len(probe) else vals[-1]
                exc, after, _ = feed(eng, st, 32, mpint(v, pad))
                desc = dict(kind="gex-e", engine=name, role="server", request=req, p_bits=p.bit_length(), klass=klass,
                            pad=pad, value=("p%+d" % (v - p)) if abs(v - p) < 4 else hex(v)[:48],
                            exception=repr(exc)[:120], calls_after=after)
                ctx.case(("gexe", name, req, p.bit_length(), hex(v), pad), sample=desc if i % 103 == 0 else None, nontrivial=bad)
                if bad:
                    judge_bad(ctx, "gex", name, "server", "e", klass, exc, after, desc)
                else:
                    note_ok(ctx, "gex", "server", exc, after)


# ---------------------------------------------------------------------------
# NIST curves: independent curve arithmetic (short Weierstrass, a = -3)

CURVES = {
    "nistp256": dict(cls=KexNistp256, bits=256,
                     p=2 ** 256 - 2 ** 224 + 2 ** 192 + 2 ** 96 - 1,
                     b=0x5AC635D8AA3A93E7B3EBBD55769886BC651D06B0CC53B0F63BCE3C3E27D2604B),
    "nistp384": dict(cls=KexNistp384, bits=384,
                     p=2 ** 384 - 2 ** 128 - 2 ** 96 + 2 ** 32 - 1,
                     b=0xB3312FA7E23EE7E4988E056BE3F82D19181D9C6EFE8141120314088F5013875AC656398D8A2ED19D2A85C8EDD3EC2AEF),
    "nistp521": dict(cls=KexNistp521, bits=521,
                     p=2 ** 521 - 1,
                     b=0x0051953EB9618E1C9A1F929A21A0B68540EEA2DA725B99B315F3B8B489918EF109E156193951EC7E937B1652C0BD3BB1BF073573DF883D2C34F1EF451FD46B503F00),
}


def on_curve(c, x, y):
    p = c["p"]
    return 0 <= x < p and 0 <= y < p and (y * y - (x * x * x - 3 * x + c["b"])) % p == 0


def solvable(c, x):
    p = c["p"]
    rhs = (x * x * x - 3 * x + c["b"]) % p
    y = pow(rhs, (p + 1) // 4, p)  # p = 3 mod 4 for all three
    return y if (y * y) % p == rhs else None


def genuine_point(c):
    from cryptography.hazmat.primitives.asymmetric import ec

    nums = ec.generate_private_key(c["cls"].curve).public_key().public_numbers()
    if not on_curve(c, nums.x, nums.y):
        raise RuntimeError("harness curve parameters do not fit a backend-generated point")
    return nums.x, nums.y


def ec_points(rng, c, n_random):
    """-> [(class, encoded bytes, verdict)]; verdict: True = must reject, False = valid point (no demand)."""
    L = (c["bits"] + 7) // 8
    p = c["p"]

    def enc(prefix, x, y=None):
        return bytes([prefix]) + x.to_bytes(L, "big") + (y.to_bytes(L, "big") if y is not None else b"")

    x, y = genuine_point(c)
    out = [
        ("valid uncompressed", enc(4, x, y), False),
        ("valid uncompressed", enc(4, x, p - y), False),
        ("valid compressed", enc(2 + (y & 1), x), False),
        ("valid hybrid", enc(6 + (y & 1), x, y), False),
        ("malformed: empty", b"", True),
        ("malformed: infinity", b"\x00", True),
        ("malformed: prefix only", b"\x04", True),
        ("malformed: short", enc(4, x, y)[:-1], True),
        ("malformed: long", enc(4, x, y) + b"\x00", True),
        ("malformed: x only", enc(4, x), True),
        ("malformed: compressed with y", enc(2 + (y & 1), x, y), True),
        ("malformed: raw coordinates", enc(4, x, y)[1:], True),
        ("off-curve: (0,0)", enc(4, 0, 0), True),
        ("off-curve: (x,y+1)", enc(4, x, (y + 1) % p), True),
        ("off-curve: (x+1,y)", enc(4, (x + 1) % p, y), True),
        ("off-curve: (y,x)", enc(4, y, x), True),
        ("off-curve: hybrid (x,y+1)", enc(6 + ((y + 1) & 1), x, (y + 1) % p), True),
    ]
    for pre in (1, 5, 8, 0x40, 0xFF):
        out.append(("malformed: unknown prefix", enc(pre, x, y), True))
    out.append(("malformed: zero prefix with coordinates", enc(0, x, y), True))
    if L * 8 > c["bits"]:  # room for a coordinate >= p (P-521)
        out.append(("off-curve: coordinate >= 2^bits", enc(4, x | (1 << (L * 8 - 1)), y), True))
    for _ in range(n_random):
        r = rng.random()
        rx, ry = rng.randrange(p), rng.randrange(p)
        if r < 0.35:
            if not on_curve(c, rx, ry):
                out.append(("off-curve: random (x,y)", enc(4, rx, ry), True))
        elif r < 0.6:
            if solvable(c, rx) is None:
                out.append(("off-curve: compressed x without y", enc(2 + rng.randrange(2), rx), True))
            else:
                out.append(("valid compressed", enc(2 + rng.randrange(2), rx), False))
        elif r < 0.8:
            gx, gy = genuine_point(c)
            bit = 1 << rng.randrange(L * 8)
            fx, fy = (gx ^ bit, gy) if rng.random() < 0.5 else (gx, gy ^ bit)
            if not on_curve(c, fx, fy):
                out.append(("off-curve: bit flip of a valid point", enc(4, fx, fy), True))
        elif r < 0.9:
            n = rng.choice((1, 2, L, L + 1, 2 * L - 1, 2 * L + 2, 3 * L))
            out.append(("malformed: wrong length", bytes([4]) + bytes(rng.getrandbits(8) for _ in range(n)), True))
        else:
            gx, gy = genuine_point(c)
            out.append(("valid uncompressed", enc(4, gx, gy), False))
    # never demand rejection of something that does decode to a point on the curve
    checked = []
    for klass, blob, bad in out:
        if bad and klass.startswith("off-curve") and len(blob) == 1 + 2 * L and blob[0] in (4, 6, 7):
            bx, by = int.from_bytes(blob[1:1 + L], "big"), int.from_bytes(blob[1 + L:], "big")
            if on_curve(c, bx, by) and (blob[0] == 4 or blob[0] == 6 + (by & 1)):
                klass, bad = "valid (by chance)", False
        checked.append((klass, blob, bad))
    return checked


def stratum_ecdh(ctx, idx):
    rng = ctx.rng
    for cname, c in CURVES.items():
        for role in ("client", "server"):
            for klass, blob, bad in ec_points(rng, c, ctx.pick(40, 1200)):
                i = next(idx)
                if not ctx.mine(i):
                    continue
                st = client_stub() if role == "client" else server_stub()
                eng = c["cls"](st)
                eng.start_kex()
                if role == "client":
                    field, ptype = "Q_S", 31
                    payload = sstr(FAKE_HOSTKEY) + sstr(blob) + sstr(FAKE_SIG)
                else:
                    field, ptype = "Q_C", 30
                    payload = sstr(blob)
                exc, after, _ = feed(eng, st, ptype, payload)
                desc = dict(kind="ecdh-point", engine="Kex" + cname.capitalize(), role=role, klass=klass, point=blob,
                            exception=repr(exc)[:120], calls_after=after)
                ctx.case(("ec", cname, role, blob), sample=desc if i % 89 == 0 else None, nontrivial=bad)
                if bad:
                    k = klass.split(":")[0]
                    if judge_bad(ctx, "ecdh", "Kex" + cname.capitalize(), role, field, k + " point", exc, after, desc):
                        ctx.count("ec_%s_rejected" % k.replace("-", "_"))
                else:
                    note_ok(ctx, "ecdh", role, exc, after)


# ---------------------------------------------------------------------------
# X25519: pure-Python ladder as the oracle for "all-zero result"

P25519 = 2 ** 255 - 19


def x25519(k, u):
    kb = bytearray(k)
    kb[0] &= 248
    kb[31] &= 127
    kb[31] |= 64
    kn = int.from_bytes(kb, "little")
    x1 = int.from_bytes(u, "little") & ((1 << 255) - 1)
    x2, z2, x3, z3, swap = 1, 0, x1, 1, 0
    p = P25519
    for t in range(254, -1, -1):
        kt = (kn >> t) & 1
        swap ^= kt
        if swap:
            x2, x3, z2, z3 = x3, x2, z3, z2
        swap = kt
        a = (x2 + z2) % p
        aa = a * a % p
        b = (x2 - z2) % p
        bb = b * b % p
        e = (aa - bb) % p
        cc = (x3 + z3) % p
        d = (x3 - z3) % p
        da = d * a % p
        cb = cc * b % p
        x3 = (da + cb) ** 2 % p
        z3 = x1 * (da - cb) ** 2 % p
        x2 = aa * bb % p
        z2 = e * (aa + 121665 * e) % p
    if swap:
        x2, x3, z2, z3 = x3, x2, z3, z2
    return (x2 * pow(z2, p - 2, p) % p).to_bytes(32, "little")


def validate_ladder(rng):
    from cryptography.hazmat.primitives import serialization
    from cryptography.hazmat.primitives.asymmetric.x25519 import X25519PrivateKey, X25519PublicKey

    for _ in range(3):
        a, b = X25519PrivateKey.generate(), X25519PrivateKey.generate()
        raw = a.private_bytes(serialization.Encoding.Raw, serialization.PrivateFormat.Raw,
                              serialization.NoEncryption())
        ub = b.public_key().public_bytes(serialization.Encoding.Raw, serialization.PublicFormat.Raw)
        if x25519(raw, ub) != a.exchange(X25519PublicKey.from_public_bytes(ub)):
            raise RuntimeError("pure-Python X25519 ladder disagrees with the backend")


LOW_ORDER_CANDIDATES = [
    0, 1,
    325606250916557431795983626356110631294008115727848805560023387167927233504,
    39382357235489614581723060781553021112529911719440698176882885853963445705823,
    P25519 - 1, P25519, P25519 + 1,
]


def x25519_inputs(rng, n_random):
    """-> [(class, 32-or-other bytes, verdict)] verdict True = must reject."""
    cands = []
    for u in LOW_ORDER_CANDIDATES:
        for v in (u, u + P25519, u | (1 << 255), (u + P25519) | (1 << 255)):
            if 0 <= v < (1 << 256):
                cands.append(v.to_bytes(32, "little"))
    out = []
    seen = set()
    scalars = [bytes(rng.getrandbits(8) for _ in range(32)) for _ in range(2)]
    for ub in cands:
        if ub in seen:
            continue
        seen.add(ub)
        zero = all(x25519(k, ub) == b"\0" * 32 for k in scalars)
        out.append(("low-order u (all-zero result)" if zero else "ordinary u", ub, zero))
    for n in (0, 1, 16, 31, 33, 64):
        out.append(("malformed: wrong length", bytes(rng.getrandbits(8) for _ in range(n)), True))
    for _ in range(n_random):
        ub = bytes(rng.getrandbits(8) for _ in range(32))
        zero = all(x25519(k, ub) == b"\0" * 32 for k in scalars)
        out.append(("low-order u (all-zero result)" if zero else "ordinary u", ub, zero))
    return out


class ZeroBackendKey:
    """Backend double: an X25519 private key whose exchange() yields the all-zero
    secret instead of raising (what libsodium-style and older OpenSSL backends do
    for small-order inputs). Everything else is delegated to the real key."""

    def __init__(self, real):
        self._real = real

    def exchange(self, peer):
        return b"\x00" * 32

    def __getattr__(self, name):
        return getattr(self._real, name)


def stratum_curve25519(ctx, idx):
    rng = ctx.rng
    if not KexCurve25519.is_available():
        ctx.count("curve25519_unavailable")
        return
    validate_ladder(rng)
    inputs = x25519_inputs(rng, ctx.pick(20, 800))
    for role in ("client", "server"):
        for double in (False, True):
            for klass, blob, bad in inputs:
                if double and len(blob) != 32:
                    continue
                i = next(idx)
                if not ctx.mine(i):
                    continue
                st = client_stub() if role == "client" else server_stub()
                eng = KexCurve25519(st)
                eng.start_kex()
                if double:
                    eng.key = ZeroBackendKey(eng.key)
                if role == "client":
                    field, ptype = "Q_S", 31
                    payload = sstr(FAKE_HOSTKEY) + sstr(blob) + sstr(FAKE_SIG)
                else:
                    field, ptype = "Q_C", 30
                    payload = sstr(blob)
                exc, after, _ = feed(eng, st, ptype, payload)
                desc = dict(kind="x25519", role=role, klass=klass, u=blob, zero_returning_backend=double,
                            exception=repr(exc)[:120], calls_after=after)
                ctx.case(("x25519", role, double, blob), sample=desc if i % 53 == 0 else None, nontrivial=bad or double)
                if double:
                    # whatever the input, the exchange result the engine sees is all-zero
                    if judge_bad(ctx, "curve25519", "KexCurve25519", role, field,
                                 "all-zero X25519 result (backend returns zeros)", exc, after, desc):
                        ctx.count("x25519_zero_result_rejected_by_paramiko")
                elif bad:
                    k = "low-order u" if klass.startswith("low-order") else "malformed u"
                    if judge_bad(ctx, "curve25519", "KexCurve25519", role, field, k, exc, after, desc):
                        ctx.count("x25519_%s_rejected" % k.split()[0].replace("-", "_"))
                else:
                    note_ok(ctx, "curve25519", role, exc, after)


# ---------------------------------------------------------------------------
# full-stack samples: one side rewrites its own kex message


def rewrite_mpint_at(raw, nstrings, value):
    """payload = type, nstrings strings, mpint, rest -> replace that mpint."""
    off = 1
    for _ in range(nstrings):
        (n,) = struct.unpack_from(">I", raw, off)
        off += 4 + n
    (n,) = struct.unpack_from(">I", raw, off)
    return raw[:off] + mpint(value) + raw[off + 4 + n:]


def rewrite_string_at(raw, nstrings_before, blob):
    off = 1
    for _ in range(nstrings_before):
        (n,) = struct.unpack_from(">I", raw, off)
        off += 4 + n
    (n,) = struct.unpack_from(">I", raw, off)
    return raw[:off] + sstr(blob) + raw[off + 4 + n:]


def full_stack_cases(rng):
    """(label, kex name, evil side, message type to rewrite, rewrite(raw, evil_transport), must_reject)"""
    p14 = KexGroup14.P
    c256 = CURVES["nistp256"]
    x, y = genuine_point(c256)
    off = b"\x04" + x.to_bytes(32, "big") + ((y + 1) % c256["p"]).to_bytes(32, "big")
    cases = []
    for label, v in (("zero", 0), ("equals p", p14), ("above p", p14 + 1), ("negative", -5)):
        cases.append(("group14 e " + label, "diffie-hellman-group14-sha256", "client", 30,
                      lambda raw, t, v=v: rewrite_mpint_at(raw, 0, v), True))
        cases.append(("group14 f " + label, "diffie-hellman-group14-sha256", "server", 31,
                      lambda raw, t, v=v: rewrite_mpint_at(raw, 1, v), True))
    cases.append(("group1 f equals p", "diffie-hellman-group1-sha1", "server", 31,
                  lambda raw, t: rewrite_mpint_at(raw, 1, KexGroup1.P), True))
    for bits in (512, 1023, 8193, 16384):
        fp_ = fake_prime(rng, bits)
        cases.append(("gex group-prime %s" % ("below 1024 bits" if bits < 1024 else "above 8192 bits"),
                      "diffie-hellman-group-exchange-sha256", "server", 31,
                      lambda raw, t, fp_=fp_: b"\x1f" + mpint(fp_) + mpint(2), True))
    cases.append(("gex e equals p", "diffie-hellman-group-exchange-sha256", "client", 32,
                  lambda raw, t: rewrite_mpint_at(raw, 0, t.kex_engine.p), True))
    cases.append(("gex e zero", "diffie-hellman-group-exchange-sha1", "client", 32,
                  lambda raw, t: rewrite_mpint_at(raw, 0, 0), True))
    cases.append(("gex f equals p", "diffie-hellman-group-exchange-sha256", "server", 33,
                  lambda raw, t: rewrite_mpint_at(raw, 1, t.kex_engine.p), True))
    cases.append(("gex f zero", "diffie-hellman-group-exchange-sha1", "server", 33,
                  lambda raw, t: rewrite_mpint_at(raw, 1, 0), True))
    cases.append(("nistp256 Q_C off-curve", "ecdh-sha2-nistp256", "client", 30,
                  lambda raw, t: rewrite_string_at(raw, 0, off), True))
    cases.append(("nistp256 Q_S off-curve", "ecdh-sha2-nistp256", "server", 31,
                  lambda raw, t: rewrite_string_at(raw, 1, off), True))
    cases.append(("nistp256 Q_S infinity", "ecdh-sha2-nistp256", "server", 31,
                  lambda raw, t: rewrite_string_at(raw, 1, b"\x00"), True))
    if KexCurve25519.is_available():
        for label, u in (("u=0", 0), ("u=1", 1), ("u=p-1", P25519 - 1)):
            ub = u.to_bytes(32, "little")
            cases.append(("curve25519 Q_C " + label, "curve25519-sha256@libssh.org", "client", 30,
                          lambda raw, t, ub=ub: rewrite_string_at(raw, 0, ub), True))
            cases.append(("curve25519 Q_S " + label, "curve25519-sha256@libssh.org", "server", 31,
                          lambda raw, t, ub=ub: rewrite_string_at(raw, 1, ub), True))
    # controls: the rewriting plumbing with the identity must leave the handshake intact
    for kex in ("diffie-hellman-group14-sha256", "diffie-hellman-group-exchange-sha256", "ecdh-sha2-nistp256",
                "curve25519-sha256@libssh.org"):
        if kex.startswith("curve") and not KexCurve25519.is_available():
            continue
        cases.append(("control (identity rewrite)", kex, "client", 30 if "exchange" not in kex else 32,
                      lambda raw, t: raw, False))
    return cases


def run_full_stack(ctx, label, kex, evil_side, ptype, rewrite, must_reject):
    from vf import pair as vpair

    p = vpair.Pair(rng=ctx.rng)
    p.tc._preferred_kex = (kex,)
    p.ts._preferred_kex = (kex,)
    p.ts._modulus_pack = kexbench.modulus_pack()
    for t in (p.tc, p.ts):  # the box may be heavily loaded; paramiko's own 15 s limits are not under test
        t.banner_timeout = t.handshake_timeout = 60
    evil = p.tc if evil_side == "client" else p.ts
    victim = p.ts if evil_side == "client" else p.tc
    vside = "s" if evil_side == "client" else "c"
    state = dict(rewritten=0)
    orig_send = evil._send_message

    def evil_send(m):
        raw = m.asbytes()
        if raw[:1] == bytes([ptype]) and not state["rewritten"] and evil.kex_engine is not None and not evil.initial_kex_done:
            state["rewritten"] = 1
            state["raw"] = rewrite(raw, evil)
            m = Message(state["raw"])
        return orig_send(m)

    evil._send_message = evil_send
    vcalls = []
    for fn in ("_set_K_H", "_activate_outbound"):
        def wrap(orig, fn=fn):
            def w(*a, **kw):
                vcalls.append(fn)
                return orig(*a, **kw)
            return w
        setattr(victim, fn, wrap(getattr(victim, fn)))
    try:
        completed = p.start(timeout=90)
        vpair.wait_for(lambda: not victim.is_active() or completed, 10)
    finally:
        p.close()
    newkeys = p.msgs(vside, "out", [21])
    bad_seen = [e for e in p.msgs(vside, "in", [ptype])]
    vexc = p.server_exc if evil_side == "client" else p.client_exc
    wit = dict(kind="full-handshake", case=label, kex=kex, malicious_side=evil_side, rewritten=state["rewritten"],
               victim_calls=vcalls, victim_newkeys_sent=len(newkeys), completed=completed,
               victim_exception=repr(vexc)[:160])
    ctx.case(("full", label, kex, evil_side, state.get("raw")), sample=wit if label.endswith("equals p") else None, nontrivial=must_reject)
    if not state["rewritten"] or not bad_seen:
        ctx.count("full_stack_value_not_delivered")
        return
    if not must_reject:
        ctx.count("full_stack_controls_run")
        if completed and "_set_K_H" in vcalls:
            ctx.count("full_stack_controls_completed")
        return
    ctx.count("full_stack_bad_values_delivered")
    if completed or vcalls or newkeys:
        what = "handshake completed" if completed else ("victim derived keys" if vcalls else "victim sent NEWKEYS")
        ctx.violation("full handshake: victim %s %s after bad %s" % (
            "server" if evil_side == "client" else "client",
            "completed the handshake" if completed else "derived keys", label.split(" ", 1)[1] if " " in label else label),
            "a live %s received %s over %s and %s" % ("server" if evil_side == "client" else "client", label, kex, what),
            wit)
    elif vexc is None:
        ctx.count("full_stack_victim_died_without_exception")
    else:
        ctx.count("full_stack_victim_rejected")


def stratum_full_stack(ctx, idx):
    end = time.time() + ctx.pick(300, 1500)
    cases = []
    for _ in range(ctx.pick(1, 3)):
        cases += full_stack_cases(ctx.rng)
    for case in cases:
        i = next(idx)
        if not ctx.mine(i):
            continue
        if time.time() > end:
            ctx.count("full_stack_time_capped")
            break
        if any(sig.startswith("full handshake") for sig in ctx.violations):
            # already refuted in this shard; a victim that accepted garbage can only time out
            ctx.count("full_stack_cut_short_after_violation")
            break
        run_full_stack(ctx, *case)


def run(ctx):
    import itertools

    kexbench.modulus_pack()
    idx = itertools.count()
    stratum_group(ctx, idx)
    stratum_gex_client_group(ctx, idx)
    stratum_gex_values(ctx, idx)
    stratum_ecdh(ctx, idx)
    stratum_curve25519(ctx, idx)
    stratum_full_stack(ctx, idx)
    ctx.require("bad_inputs_fed", ctx.pick(800, 10000))
    ctx.require("bad_inputs_rejected", ctx.pick(800, 10000))
    for fam in ("group", "gex", "ecdh", "curve25519"):
        for role in ("client", "server"):
            ctx.require("bad_inputs_fed_%s_%s" % (fam, role), 40)
            ctx.require("inrange_accepted_%s_%s" % (fam, role), 4)
    ctx.require("inrange_accepted_keys_derived", 100)
    ctx.require("gex_group_sizes_fed", 40)
    ctx.require("gex_inrange_group_accepted", 4)
    ctx.require("ec_off_curve_rejected", 100)
    ctx.require("x25519_low_order_rejected", 14)
    ctx.require("x25519_zero_result_rejected_by_paramiko", 40)
    ctx.require("full_stack_bad_values_delivered", 15)
    ctx.require("full_stack_controls_completed", 3)
