"""C24 — a channel's pollable descriptor is readable <=> recv would not block.

Oracle (state invariant at quiescence): after fileno() has been called,
    select([fd],[],[],0) readable  <=>  len(in_buffer)>0 or len(in_stderr_buffer)>0
                                        or eof_received or closed
judged only when every worker thread has joined, never while an operation is in
flight.  A deadlock of the workers (liveness, outside the statement) is recorded as a
side finding and the run is not judged.

Strata
  seq      random sequential op sequences on one channel, invariant after every op
  sweep    small 2-3 thread workloads (transport-role feeder + 1-2 readers) from every
           start state; ALL single-preemption schedules at statement granularity
           (vf.sched), every serial order first
  random   the same workloads under seeded random LINE-event perturbation
  combine  every short history and random longer histories of set_combine_stderr(True|False)
           before/after the first fileno(), mixed with feeds, reads and EOF (sequential)
  zero     zero-length CHANNEL_DATA / EXTENDED_DATA feeds at every level (stub histories,
           BufferedPipe+event, raw packets over a transport pair); classified under one signature
  instr    second sweep of the 2-thread core workloads at INSTRUCTION granularity
  blocked  a reader already blocked in read/recv/recv_stderr(n) when ONE feed of <, ==, > n
           bytes arrives; BufferedPipe+event directly, Channel on the stub transport (serial
           + full sweep) and Channel over a real client/server transport pair
"""
import itertools
import os
import select
import socket

from paramiko import buffered_pipe, pipe
from paramiko.channel import Channel
from paramiko.message import Message

from vf import sched
from vf.chanstub import make_channel, msg_data, msg_ext

META = dict(
    title="channel descriptor readable <=> data/EOF/closed",
    level="exploration",
    design_ref="§3 C24, §2.1.5",
    technique="sys.monitoring LINE-event preemption engine (all single preemptions + random perturbation) "
              "with a select()-vs-buffers state oracle at quiescence",
    text="A real paramiko.Channel on a stub transport is driven by a feeder thread (the transport's role: "
         "_feed/_feed_extended/_handle_eof/_handle_close) and 1-2 reader threads (recv/recv_stderr) from every "
         "combination of stdout/stderr empty|data, open|eof and fileno() before|after the state was built. For each "
         "workload every serial order and every schedule with exactly one preemption at a source statement of "
         "pipe.py/buffered_pipe.py/the Channel methods involved is executed, plus seeded random perturbation and "
         "random sequential op sequences, exhaustive short + random histories of set_combine_stderr around the first "
         "fileno(), and an explicit blocked-reader stratum (reader waiting before one feed of fewer/as many/more bytes "
         "than requested; on BufferedPipe+event, on the stub-transport Channel and over a real transport pair); when all threads have joined select() on the descriptor is compared with "
         "the buffers and flags. Holds for the executions produced: complete for single preemptions of the listed "
         "workloads, sampled beyond that; not all interleavings.",
    note="Trusts select.select and direct reads of in_buffer._buffer/in_stderr_buffer._buffer/eof_received/closed at "
         "quiescence. Channel.close() by the application is excluded (it destroys the descriptor). Blocked detection "
         "is a bounded wait; a misjudgement changes which schedule ran, never a verdict.",
    rule="case = (workload, plan); workload = start state x feeder program x reader programs; plan = serial order | "
         "(order, thread, k-th LINE event) | random seed; distinct = hash of workload+plan; non-trivial = at least one "
         "worker executed a notifier (OrPipe/PosixPipe) statement. interleavings = distinct hashes of the "
         "(thread, function, line) trace",
    assumptions=["LINE events of sys.monitoring fire at every statement start of the instrumented code objects",
                 "thread switches happen only between bytecodes, so statement-granularity parking covers the "
                 "switch points relevant to the notifier state"],
)

TIMEOUT = {"quick": 170, "thorough": 1500}


def shards(tier):
    return 8 if tier == "quick" else 16


# ------------------------------------------------------------------ workload
OUT_BYTES = bytes(range(0x00, 0x40))
ERR_BYTES = bytes(range(0x80, 0xC0))

NOTIFIER_FILE = "pipe.py"


def instrumented():
    fns = sched.functions_of(pipe.PosixPipe, pipe.OrPipe, buffered_pipe.BufferedPipe)
    for name in ("recv", "recv_stderr", "_feed", "_feed_extended", "_handle_eof", "_handle_close",
                 "_close_internal", "_set_closed", "fileno", "set_combine_stderr", "_unlink"):
        fns += sched.functions_of(getattr(Channel, name))
    return fns


class Bench:
    """One channel built into a start state, plus the worker callables."""

    def __init__(self, wl):
        self.wl = wl
        st = wl["state"]
        self.chan, self.t = make_channel(window=64, max_packet=1024)
        c = self.chan
        self.out_off = 0
        self.err_off = 0
        self.fd = None
        if st.get("combine"):
            c.set_combine_stderr(True)
        steps = []
        if st["out"]:
            steps.append(("out", st["out"]))
        if st["err"]:
            steps.append(("err", st["err"]))
        if st["phase"] == "eof":
            steps.append(("eof",))
        pos = {"first": 0, "mid": max(0, len(steps) - 1), "last": len(steps), "late": -1}[st["fileno"]]
        for i, s in enumerate(steps):
            if i == pos:
                self.fd = c.fileno()
            self.feeder_do(s)
        if self.fd is None and st["fileno"] != "late":
            self.fd = c.fileno()
        c.settimeout(None if wl.get("blocking") else 0.0)
        self.log = []

    def feeder_do(self, a):
        c = self.chan
        if a[0] == "out":
            d = OUT_BYTES[self.out_off:self.out_off + a[1]]
            self.out_off += a[1]
            c._feed(msg_data(d))
        elif a[0] == "err":
            d = ERR_BYTES[self.err_off:self.err_off + a[1]]
            self.err_off += a[1]
            c._feed_extended(msg_ext(d))
        elif a[0] == "ext":  # EXTENDED_DATA of a type the channel discards
            c._feed_extended(msg_ext(ERR_BYTES[:a[1]], code=a[2]))
        elif a[0] == "eof":
            c._handle_eof(Message())
        elif a[0] == "close":
            c._handle_close(Message())
        elif a[0] == "unlink":
            c._unlink()
        else:
            raise ValueError(a)

    def reader_do(self, a):
        c = self.chan
        try:
            if a[0] == "out":
                return c.recv(a[1])
            if a[0] == "err":
                return c.recv_stderr(a[1])
            if a[0] == "combine":
                return c.set_combine_stderr(True)
        except socket.timeout:
            return "timeout"
        raise ValueError(a)

    def workers(self):
        ws = []
        wl = self.wl
        if wl.get("feeder"):
            ws.append(("F", lambda prog=wl["feeder"]: [self.feeder_do(a) for a in prog]))
        for i, prog in enumerate(wl.get("readers", [])):
            ws.append(("R%d" % (i + 1), lambda prog=prog: [self.reader_do(a) for a in prog]))
        if wl["state"]["fileno"] == "late":
            ws.append(("A", lambda: self.chan.fileno()))  # the application takes the descriptor meanwhile
        return ws

    def observe(self):
        c = self.chan
        if self.fd is None:
            self.fd = c.fileno()
        readable = bool(select.select([self.fd], [], [], 0)[0])
        n_out = len(c.in_buffer._buffer)
        n_err = len(c.in_stderr_buffer._buffer)
        flags = bool(c.eof_received) or bool(c.closed)
        return dict(readable=readable, out=n_out, err=n_err, eof=bool(c.eof_received), closed=bool(c.closed),
                    pending=bool(n_out or n_err or flags))

    def dispose(self):
        try:
            self.chan.close()
        except Exception:
            pass


def notifier_stats(trace):
    """(touched, contended, overlapped).  touched: some worker executed a pipe.py notifier
    statement.  contended: a worker reached a notifier statement while another was inside a
    notifier operation.  overlapped: two workers were *both past the first statement* of a
    notifier operation at the same time (impossible once the operations exclude each other;
    a thread waiting on the first statement, e.g. `with lock:`, is not inside)."""
    depth = {}
    touched = contended = overlapped = False
    for role, qual, line in trace:
        if qual.split(".")[0] in ("OrPipe", "PosixPipe", "WindowsPipe"):
            touched = True
            depth[role] = depth.get(role, 0) + 1
            others = [v for r, v in depth.items() if r != role]
            if any(v >= 1 for v in others):
                contended = True
            if depth[role] >= 2 and any(v >= 2 for v in others):
                overlapped = True
        else:
            depth[role] = 0
    return touched, contended, overlapped


ZERO_SIG = "descriptor readable with nothing pending; zero-length data feed set the event"


def has_zero_feed(wl):
    progs = [wl.get("feeder") or []] + list(wl.get("readers") or [])
    return any(a[0] in ("out", "err") and a[1] == 0 for prog in progs for a in prog)


def mismatch_kind(ob):
    if ob["readable"] and not ob["pending"]:
        return "descriptor readable with nothing pending"
    if not ob["readable"] and ob["pending"]:
        what = "data buffered" if (ob["out"] or ob["err"]) else "eof/closed"
        return "descriptor not readable with %s" % what
    return None


def judge_run(ctx, bench, run, where):
    """where: 'end' (all joined) or 'deadlock' (all live workers blocked for good)."""
    ob = bench.observe()
    ctx.count("oracle_evaluations")
    ctx.count("oracle_evaluations_" + run.plan.kind())
    kind = mismatch_kind(ob)
    if kind is None:
        return ob
    if kind == "descriptor readable with nothing pending" and has_zero_feed(bench.wl):
        # stratum that may touch the zero-length-feed mechanism: classified, not judged by schedule
        ctx.violation(ZERO_SIG, "an empty CHANNEL_DATA/EXTENDED_DATA feed left the descriptor readable with nothing to read",
                      dict(workload=bench.wl, plan=run.plan.describe(), observed=ob))
        return ob
    br = bench.wl.get("blocked_reader")
    if br and not notifier_stats(run.trace)[2]:
        ctx.violation(blocked_sig(kind, br["rel"], "Channel on stub transport", br.get("late", False)),
                      "select() on Channel.fileno() disagrees with the buffers after a blocked recv was fed",
                      dict(workload=bench.wl, plan=run.plan.describe(), observed=ob, park_at=run.park_at,
                           trace_tail=run.trace[-60:]))
        return ob
    touched, contended, overlapped = notifier_stats(run.trace)
    if overlapped:
        how = "notifier operations (OrPipe/PosixPipe set|clear|set_forever) of two threads interleaved"
    elif run.plan.kind() == "serial":
        how = "serial schedule"
    elif run.plan.kind() == "preempt":
        how = "single preemption in %s, no notifier interleaving" % (run.park_at[0] if run.park_at else "?")
    else:
        how = "random perturbation, no notifier interleaving"
    ctx.violation("%s; %s" % (kind, how),
                  "select() on Channel.fileno() disagrees with the buffers/flags at quiescence",
                  dict(workload=bench.wl, plan=run.plan.describe(), observed=ob, park_at=run.park_at,
                       during_park=run.during_park[:40], trace_tail=run.trace[-60:]))
    return ob


def run_plan(ctx, eng, wl, plan, stats):
    bench = Bench(wl)
    state = {"judged": False}

    def on_hang(run, roles):
        # Every live worker looks blocked for good.  Blocked detection is a bounded wait, so no
        # verdict is taken from such a state and the run is not judged afterwards either; the
        # deadlock itself (liveness) is outside the statement and is recorded as a side finding.
        tops = [fr[0] if fr else "" for _, fr in run.hung]
        ctx.count("deadlocks_observed")
        state["judged"] = True
        stats.setdefault("deadlock_witness", dict(workload=wl, plan=run.plan.describe(), stacks=run.hung,
                                                  park_at=run.park_at, observed=bench.observe()))
        if any("PosixPipe.clear" in t or "WindowsPipe.clear" in t for t in tops):
            ctx.count("side_deadlock_in_pipe_clear")
            stats.setdefault("side_deadlock_witness", dict(workload=wl, plan=run.plan.describe(), stacks=run.hung,
                                                           observed=bench.observe()))
            p = bench.chan._pipe
            if p is not None:
                os.write(p._wfd, b"*")  # unblock the os.read so the thread can end

    run = eng.execute(bench.workers(), plan, on_hang=on_hang)
    for e in run.harness_errors:
        ctx.inconclusive("engine: " + e)
    touched, contended, overlapped = notifier_stats(run.trace)
    fp = (repr(wl), repr(plan.describe()))
    sample = None
    if stats.get("samples", 0) < 2 and touched and plan.kind() != "serial":
        stats["samples"] = stats.get("samples", 0) + 1
        sample = dict(workload=wl, plan=plan.describe(), line_events=run.counts, interleaving=run.iid,
                      park_at=run.park_at)
    ctx.case(fp, sample=sample, nontrivial=touched)
    ctx.count("runs_" + plan.kind())
    ctx.count("line_events_traced", len(run.trace))
    if contended:
        ctx.count("runs_with_contended_notifier_ops")
    if overlapped:
        ctx.count("runs_with_interleaved_notifier_ops")
    if plan.kind() == "preempt":
        ctx.count("preemption_points_enumerated")
        if run.park_reached:
            ctx.count("preemption_points_reached")
    stats.setdefault("iids", set()).add(run.iid)
    for role, exc in run.excs.items():
        ctx.inconclusive("worker %s raised %r in workload %r" % (role, exc, wl))
    if run.leaked:
        ctx.count("runs_not_judged_workers_still_blocked")
        if not any("Pipe.clear" in (fr[0] if fr else "") for _, fr in run.hung):
            ctx.inconclusive("workers blocked and the harness cannot release them: %r workload %r plan %r"
                             % (run.hung, wl, plan.describe()))
        return run  # threads are still alive: do not touch the channel any more
    if state["judged"]:
        ctx.count("runs_not_judged_after_deadlock")
    else:
        judge_run(ctx, bench, run, "end")
        br = wl.get("blocked_reader")
        if br:
            ctx.count("oracle_evaluations_blocked_reader")
            ctx.count("blocked_reader_runs_channel")
            if blocked_before_feed(run, "R1", "F"):
                ctx.count("blocked_reader_confirmed_channel_" + br["rel"])
                ctx.count("blocked_reader_channel_" + br["stream"])
                if br.get("late") and blocked_before_feed(run, "R1", "A"):
                    ctx.count("blocked_before_first_fileno_confirmed_channel")
    bench.dispose()
    return run


def sweep(ctx, eng, wl, stats, deadline, max_perms=None):
    roles = (["F"] if wl.get("feeder") else []) + ["R%d" % (i + 1) for i in range(len(wl.get("readers", [])))]
    perms = list(itertools.permutations(roles))
    if max_perms is not None and len(perms) > max_perms:
        perms = ctx.rng.sample(perms, max_perms)
    complete = True
    for perm in perms:
        perm = list(perm)
        base = run_plan(ctx, eng, wl, sched.Plan(order=perm), stats)
        for plan in sched.Engine.sweep_plans(perm, base.counts):
            if ctx.elapsed() > deadline:
                complete = False
                break
            run_plan(ctx, eng, wl, plan, stats)
    if complete and (max_perms is None):
        ctx.count("workloads_fully_swept")
    return complete


# ------------------------------------------------------------------ workload spaces
def start_states():
    out = []
    for o in (0, 3):
        for e in (0, 3):
            for ph in ("open", "eof"):
                for fo in ("first", "last"):
                    out.append(dict(out=o, err=e, phase=ph, fileno=fo))
    return out


FEED_ACTS = [("out", 2), ("err", 2), ("eof",), ("close",)]
ZERO_ACTS = [("out", 0), ("err", 0), ("ext", 0, 2), ("ext", 2, 2)]
READ_ACTS = [("out", 64), ("err", 64), ("out", 1), ("err", 1)]


def feeder_ok(state, prog):
    """The transport's role: nothing after close; after EOF only close; no second EOF."""
    eof = state["phase"] == "eof"
    closed = False
    for a in prog:
        if closed:
            return False
        if eof and a[0] not in ("close", "unlink"):
            return False
        if a[0] == "eof":
            eof = True
        if a[0] in ("close", "unlink"):
            closed = True
    return True


def may_block(wl):
    """Blocking reads are used only where every schedule terminates: the state is already
    EOF, or the feeder's program ends by closing the receive side."""
    if wl["state"]["phase"] == "eof":
        return True
    f = wl.get("feeder") or []
    return bool(f) and f[-1][0] in ("eof", "close", "unlink")


def core_workloads():
    """feeder x one reader, one action each, from every start state (2 threads), plus
    two readers without a feeder."""
    out = []
    for st in start_states():
        for fa in FEED_ACTS:
            if not feeder_ok(st, [fa]):
                continue
            for ra in READ_ACTS:
                out.append(dict(state=st, feeder=[fa], readers=[[ra]], blocking=False))
        for ra, rb in (((("out", 64)), ("err", 64)), (("out", 64), ("out", 64)), (("err", 1), ("out", 64))):
            out.append(dict(state=st, feeder=[], readers=[[ra], [rb]], blocking=False))
    # a few 3-thread workloads: both readers drain while the transport delivers data / EOF / close
    both = dict(out=2, err=2, phase="open", fileno="first")
    for fa in FEED_ACTS:
        out.append(dict(state=both, feeder=[fa], readers=[[("out", 64)], [("err", 64)]], blocking=False))
    return out


def random_workload(rng, three=True):
    st = dict(out=rng.choice([0, 1, 3]), err=rng.choice([0, 1, 3]), phase=rng.choice(["open", "open", "eof"]),
              fileno=rng.choice(["first", "mid", "last"]))
    while True:
        prog = [rng.choice(FEED_ACTS + [("unlink",)] + (ZERO_ACTS if rng.random() < 0.3 else []))
                for _ in range(rng.choice([1, 1, 2]))]
        if feeder_ok(st, prog):
            break
    nread = 2 if three else 1
    readers = []
    for _ in range(nread):
        acts = READ_ACTS + ([("combine",)] if rng.random() < 0.08 else [])
        readers.append([rng.choice(acts) for _ in range(rng.choice([1, 1, 2]))])
    wl = dict(state=st, feeder=prog, readers=readers, blocking=False)
    if may_block(wl) and rng.random() < 0.4:
        wl["blocking"] = True
    return wl


# ------------------------------------------------------------------ blocked-reader stratum
# A reader already blocked in read(n)/recv(n)/recv_stderr(n) on an empty buffer (fileno() taken
# before), then ONE feed of k bytes, k <, ==, > n.  With k > n the read returns n bytes and data
# stays buffered, so the event/descriptor must stay set: whether a read drained the buffer has to
# be decided from the buffer AFTER the wait.  Three levels: BufferedPipe + event object directly,
# the real Channel on the stub transport (both under the engine: serial order reader-first plus the
# full single-preemption sweep), and a real Channel over a client/server transport pair.
RELS = ("lt", "eq", "gt")


def rel_of(k, n):
    return "lt" if k < n else "eq" if k == n else "gt"


def nk_pairs(quick):
    ns = (1, 2, 4) if quick else (1, 2, 3, 4, 7)
    out = []
    for n in ns:
        for k in (n - 1, n, n + 1, 2 * n + 1):
            if k >= 1:
                out.append((n, k))
    return out


def wait_lines():
    from paramiko.buffered_pipe import BufferedPipe

    return set(sched.lines_containing(BufferedPipe.read, "_cv.wait("))


def blocked_before_feed(run, reader="R", feeder="F", _cache={}):
    """Logical, from the trace: the reader's last statement before the feeder's first one is the
    cv.wait line of BufferedPipe.read."""
    if "l" not in _cache:
        _cache["l"] = wait_lines()
    last = None
    for role, qual, line in run.trace:
        if role == feeder:
            break
        if role == reader:
            last = (qual, line)
    return last is not None and last[0] == "BufferedPipe.read" and last[1] in _cache["l"]


def blocked_sig(kind, rel, level, late=False):
    return "%s; reader blocked before %sone feed of %s bytes than requested (%s)" % (
        kind, "the first fileno() and " if late else "", {"lt": "fewer", "eq": "as many", "gt": "more"}[rel], level)


def blocked_pipe_level(ctx, eng, stats):
    """Level A: BufferedPipe with an event object (threading.Event, or one OrPipe half on a PosixPipe)."""
    import threading

    from paramiko.buffered_pipe import BufferedPipe

    idx = 0
    for evkind in ("event", "orpipe"):
        for n, k in nk_pairs(ctx.quick):
            idx += 1
            if not ctx.mine(idx):
                continue
            rel = rel_of(k, n)
            for perm in (["R", "F"], ["F", "R"]):
                plans = [sched.Plan(order=perm)]
                counts = None
                pi = 0
                while pi < len(plans):
                    plan = plans[pi]
                    pi += 1
                    bp = BufferedPipe()
                    if evkind == "event":
                        ev = threading.Event()
                        osp = None
                        readable = ev.is_set
                    else:
                        osp = pipe.make_pipe()
                        ev, _other = pipe.make_or_pipe(osp)
                        readable = lambda osp=osp: bool(select.select([osp.fileno()], [], [], 0)[0])  # noqa: E731
                    bp.set_event(ev)
                    data = OUT_BYTES[:k]
                    hung = {}
                    run = eng.execute([("R", lambda: bp.read(n, None)), ("F", lambda: bp.feed(data))], plan,
                                      on_hang=lambda r, roles: hung.setdefault("h", roles))
                    if counts is None:
                        counts = run.counts
                        plans += sched.Engine.sweep_plans(perm, counts)
                    wl = dict(level="pipe+" + evkind, n=n, k=k)
                    sample = None
                    if not stats.get("blocked_sample") and plan.kind() == "serial" and perm[0] == "R":
                        stats["blocked_sample"] = True
                        sample = dict(wl, plan=plan.describe(), got=run.results.get("R"))
                    ctx.case((repr(wl), repr(plan.describe())), sample=sample)
                    for e in run.harness_errors:
                        ctx.inconclusive("engine: " + e)
                    if hung or run.leaked or run.excs:
                        ctx.inconclusive("blocked-reader pipe case did not finish: %r %r %r" % (wl, run.hung, run.excs))
                        continue
                    ctx.count("blocked_reader_runs_pipe")
                    if blocked_before_feed(run):
                        ctx.count("blocked_reader_confirmed_pipe_" + rel)
                    ctx.count("oracle_evaluations")
                    ctx.count("oracle_evaluations_blocked_reader")
                    ob = dict(readable=bool(readable()), out=len(bp._buffer), err=0, eof=False, closed=bool(bp._closed))
                    ob["pending"] = bool(ob["out"] or ob["closed"])
                    kind = mismatch_kind(ob)
                    if kind is not None:
                        ctx.violation(blocked_sig(kind.replace("descriptor", "event"), rel, "BufferedPipe+" + evkind),
                                      "the event of a BufferedPipe disagrees with its buffer after a blocked read was fed",
                                      dict(wl, plan=plan.describe(), observed=ob, got=run.results.get("R"),
                                           trace_tail=run.trace[-40:]))
                    if osp is not None:
                        osp.close()


def late_event_pipe_level(ctx, eng, stats):
    """Reader parked in BufferedPipe.read BEFORE set_event(): reader, then set_event(ev), then one feed."""
    import threading

    from paramiko.buffered_pipe import BufferedPipe

    idx = 0
    for n, k in nk_pairs(ctx.quick):
        idx += 1
        if not ctx.mine(idx):
            continue
        rel = rel_of(k, n)
        for perm in (["R", "A", "F"], ["R", "F", "A"]):
            plans = [sched.Plan(order=perm)]
            counts = None
            pi = 0
            while pi < len(plans):
                plan = plans[pi]
                pi += 1
                bp = BufferedPipe()
                ev = threading.Event()
                hung = {}
                run = eng.execute([("R", lambda: bp.read(n, None)), ("A", lambda: bp.set_event(ev)),
                                   ("F", lambda: bp.feed(OUT_BYTES[:k]))], plan,
                                  on_hang=lambda r, roles: hung.setdefault("h", roles))
                if counts is None:
                    counts = run.counts
                    plans += sched.Engine.sweep_plans(perm, counts)
                wl = dict(level="pipe, set_event after the reader blocked", n=n, k=k)
                ctx.case((repr(wl), repr(plan.describe())))
                if hung or run.leaked or run.excs:
                    ctx.inconclusive("late-event pipe case did not finish: %r %r %r" % (wl, run.hung, run.excs))
                    continue
                if blocked_before_feed(run, "R", "A") and blocked_before_feed(run, "R", "F"):
                    ctx.count("blocked_before_set_event_confirmed_pipe")
                ctx.count("oracle_evaluations")
                ctx.count("oracle_evaluations_blocked_reader")
                ob = dict(readable=ev.is_set(), out=len(bp._buffer), err=0, eof=False, closed=False)
                ob["pending"] = bool(ob["out"])
                kind = mismatch_kind(ob)
                if kind is not None:
                    ctx.violation(blocked_sig(kind.replace("descriptor", "event"), rel, "BufferedPipe+event", late=True)
                                  .replace("first fileno()", "set_event()"),
                                  "the event installed while a reader was waiting disagrees with the buffer afterwards",
                                  dict(wl, plan=plan.describe(), observed=ob, trace_tail=run.trace[-40:]))


def blocked_channel_level(ctx, eng, stats):
    """Level B: real Channel on the stub transport; stdout / stderr / stderr combined into stdout."""
    idx = 0
    for stream in ("stdout", "stderr", "combined"):
        for n, k in nk_pairs(ctx.quick):
            idx += 1
            if not ctx.mine(idx):
                continue
            rel = rel_of(k, n)
            wl = dict(state=dict(out=0, err=0, phase="open", fileno="first", combine=(stream == "combined")),
                      feeder=[("out" if stream == "stdout" else "err", k)],
                      readers=[[("err" if stream == "stderr" else "out", n)]], blocking=True,
                      blocked_reader=dict(stream=stream, rel=rel))
            for perm in (["R1", "F"], ["F", "R1"]):
                base = run_plan(ctx, eng, wl, sched.Plan(order=perm), stats)
                for plan in sched.Engine.sweep_plans(perm, base.counts):
                    run_plan(ctx, eng, wl, plan, stats)
            # the reader is parked in recv BEFORE the first fileno(): reader, then fileno(), then the packet
            late = dict(wl, state=dict(wl["state"], fileno="late"),
                        blocked_reader=dict(stream=stream, rel=rel, late=True))
            for perm in (["R1", "A", "F"], ["R1", "F", "A"], ["A", "R1", "F"]):
                base = run_plan(ctx, eng, late, sched.Plan(order=perm), stats)
                for plan in sched.Engine.sweep_plans(perm, base.counts):
                    run_plan(ctx, eng, late, plan, stats)


def _in_blocking_read(ident):
    import sys

    fr = sys._current_frames().get(ident)
    names = []
    while fr is not None:
        names.append((fr.f_code.co_filename.rsplit("/", 1)[-1], fr.f_code.co_name))
        fr = fr.f_back
    return ("threading.py", "wait") in names and ("buffered_pipe.py", "read") in names


def blocked_transport_level(ctx, ncases):
    """Level C: client/server Transport pair; the client reader is blocked in recv/recv_stderr (checked
    from its stack) before the server sends ONE data packet."""
    import threading

    from vf import pair

    rng = ctx.rng
    p = pair.Pair(rng=rng)
    if not p.start(timeout=90) or not p.auth():
        ctx.inconclusive("blocked-reader transport stratum: handshake failed: %r %r" % (p.client_exc, p.server_exc))
        return
    # every stream x relation equally often; n and k vary with the case index
    combos = [(st, rel) for st in ("stdout", "stderr", "combined") for rel in RELS]
    rng.shuffle(combos)
    try:
        for i in range(ncases):
            stream, want = combos[i % len(combos)]
            n = rng.choice([2, 3, 4, 8, 33]) if i >= len(combos) else (2, 4, 8)[i % 3]
            k = {"lt": rng.randint(1, n - 1), "eq": n, "gt": n + rng.choice([1, 1, 2, n, 100])}[want]
            rel = rel_of(k, n)
            c, s = p.session(timeout=60)
            if stream == "combined":
                c.set_combine_stderr(True)
            late = (i // len(combos)) % 2 == 1
            fd = None if late else c.fileno()
            box = {}

            def reader(c=c, n=n, stream=stream, box=box):
                try:
                    box["d"] = c.recv_stderr(n) if stream == "stderr" else c.recv(n)
                except Exception as e:  # noqa
                    box["exc"] = e

            t = threading.Thread(target=reader, daemon=True)
            t.start()
            if not pair.wait_for(lambda: _in_blocking_read(t.ident), timeout=30):
                ctx.inconclusive("blocked-reader transport case: reader never reached the wait")
                continue
            if late:
                fd = c.fileno()  # the reader was parked before the descriptor (and its event) existed
                ctx.count("blocked_before_first_fileno_confirmed_transport")
            data = bytes((j * 7 + 1) & 0xFF for j in range(k))
            (s.sendall if stream == "stdout" else s.sendall_stderr)(data)
            t.join(60)
            desc = dict(level="transport pair", stream=stream, n=n, k=k)
            if t.is_alive() or "exc" in box:
                ctx.inconclusive("blocked-reader transport case did not finish: %r %r" % (desc, box.get("exc")))
                continue
            p.wait_quiet(idle=0.05, timeout=20)
            got = box["d"]
            nbuf = len(c.in_buffer._buffer) + len(c.in_stderr_buffer._buffer)
            if len(got) + nbuf != k:
                # the packet was split or not fully delivered yet: not the case this stratum is about
                ctx.count("blocked_reader_transport_not_single_feed")
                pair.wait_for(lambda: len(got) + len(c.in_buffer._buffer) + len(c.in_stderr_buffer._buffer) == k, timeout=10)
            ctx.case(("blocked-transport", stream, n, k), sample=dict(desc, got=got) if i == 0 else None)
            ctx.count("blocked_reader_confirmed_transport_" + rel)
            ctx.count("blocked_reader_transport_" + stream)
            ctx.count("oracle_evaluations")
            ctx.count("oracle_evaluations_blocked_reader")
            ob = dict(readable=bool(select.select([fd], [], [], 0)[0]), out=len(c.in_buffer._buffer),
                      err=len(c.in_stderr_buffer._buffer), eof=bool(c.eof_received), closed=bool(c.closed))
            ob["pending"] = bool(ob["out"] or ob["err"] or ob["eof"] or ob["closed"])
            kind = mismatch_kind(ob)
            if kind is not None:
                ctx.violation(blocked_sig(kind, rel, "Channel over a transport pair", late),
                              "select() on Channel.fileno() disagrees with the buffers after a blocked recv was fed one packet",
                              dict(desc, observed=ob, got=got))
            c.close()
            s.close()
    finally:
        p.close()



# ------------------------------------------------------------------ combine-stderr stratum
# Exhaustive short sequences around set_combine_stderr(True/False) before and after the first
# fileno(): which event objects fileno() installs must not depend on the combine flag at that
# moment, and moving stderr into stdout must keep the descriptor in step.
def scripted_sequence(ctx, eng, ops, tag, sample=False):
    c, t = make_channel(window=64, max_packet=1024)
    c.settimeout(0.0)
    box = dict(fd=None, bad=None, done=0)

    def body():
        oo = eo = 0
        for op in ops:
            k = op[0]
            if k == "fileno":
                box["fd"] = c.fileno()
            elif k == "combine":
                c.set_combine_stderr(op[1])
            elif k == "out":
                c._feed(msg_data(OUT_BYTES[oo:oo + op[1]]))
                oo += op[1]
            elif k == "err":
                c._feed_extended(msg_ext(ERR_BYTES[eo:eo + op[1]]))
                eo += op[1]
            elif k == "ext":
                c._feed_extended(msg_ext(ERR_BYTES[:op[1]], code=op[2]))
            elif k in ("recv", "recv_stderr"):
                try:
                    getattr(c, k)(op[1])
                except socket.timeout:
                    pass
            elif k == "eof":
                c._handle_eof(Message())
            box["done"] += 1
            if box["fd"] is None:
                continue
            readable = bool(select.select([box["fd"]], [], [], 0)[0])
            ob = dict(readable=readable, out=len(c.in_buffer._buffer), err=len(c.in_stderr_buffer._buffer),
                      eof=bool(c.eof_received), closed=bool(c.closed))
            ob["pending"] = bool(ob["out"] or ob["err"] or ob["eof"] or ob["closed"])
            ctx.count("oracle_evaluations")
            ctx.count("oracle_evaluations_" + tag)
            if readable != ob["pending"]:
                box["bad"] = (mismatch_kind(ob), op, ob)
                return

    run = eng.execute([("S", body)], sched.Plan(order=["S"]))
    ctx.case((tag, repr(ops)), sample=dict(kind=tag + " history", ops=ops) if sample else None)
    # what the history exercised (only the part that really ran)
    seen_fileno = False
    flag = False
    for op in ops[:box["done"]]:
        if op[0] == "fileno":
            seen_fileno = True
        elif op[0] == "combine":
            if not seen_fileno:
                box["pre"] = True
            elif flag and not op[1]:
                box["off_after"] = True
            flag = op[1]
    if box.get("pre"):
        ctx.count("combine_toggled_before_first_fileno")
    if box.get("off_after"):
        ctx.count("combine_switched_off_after_fileno")
    if box.get("pre") and flag is False and seen_fileno:
        ctx.count("combine_on_before_fileno_and_off_at_end")
    if box["bad"] is not None:
        kind, op, ob = box["bad"]
        if kind == "descriptor readable with nothing pending" and any(
                o[0] in ("out", "err") and o[1] == 0 for o in ops[:box["done"]]):
            ctx.violation(ZERO_SIG, "an empty CHANNEL_DATA/EXTENDED_DATA feed left the descriptor readable with nothing to read",
                          dict(ops=ops, observed=ob))
            kind = None
        opname = ("combine=%s" % op[1] if op[0] == "combine" else
                  "zero-length %s feed" % op[0] if op[0] in ("out", "err") and op[1] == 0 else
                  "extended data of a discarded type" if op[0] == "ext" else op[0])
        if kind is not None:
            ctx.violation("%s; %s sequence, first seen after %s" % (kind, tag, opname),
                          "select() on Channel.fileno() disagrees with the buffers/flags after a sequential op",
                          dict(ops=ops, observed=ob))
    if run.excs or run.leaked or run.hung:
        ctx.inconclusive("%s sequence did not finish: %r %r %r" % (tag, ops, run.excs, run.hung))
        return
    ctx.count(tag + "_sequences_checked")
    c.close()


def combine_stratum(ctx, eng):
    c1, c0 = ("combine", True), ("combine", False)
    pres = [[], [c1], [c1, c0], [c0], [("err", 2), c1], [c1, ("err", 2), c0], [c1, ("out", 2)], [("err", 2), c1, c0]]
    acts = [c1, c0, ("out", 2), ("err", 2), ("recv", 64), ("recv_stderr", 64)]
    idx = 0
    for pre in pres:
        for ln in (1, 2, 3):
            for post in itertools.product(acts, repeat=ln):
                idx += 1
                if not ctx.mine(idx):
                    continue
                scripted_sequence(ctx, eng, pre + [("fileno",)] + list(post), "combine")


def combine_random(ctx, eng, n):
    """Random histories over {fileno(), set_combine_stderr(True|False), stdout data, stderr data, recv,
    recv_stderr, EOF}: fileno() at a random point, the combine flag toggled 0..3 times anywhere."""
    rng = ctx.rng
    for i in range(n):
        ln = rng.randint(3, 12)
        ops = []
        for _ in range(ln):
            r = rng.random()
            ops.append(("out", rng.randint(1, 3)) if r < 0.25 else ("err", rng.randint(1, 3)) if r < 0.55 else
                       ("recv", rng.choice([1, 64])) if r < 0.78 else ("recv_stderr", rng.choice([1, 64])))
        flag = False
        for _ in range(rng.randint(0, 3)):
            flag = (not flag) if rng.random() < 0.8 else flag
            ops.insert(rng.randint(0, len(ops)), ("combine", flag))
        # re-derive the toggle values in sequence order so that they alternate as inserted
        flag = False
        for j, op in enumerate(ops):
            if op[0] == "combine":
                flag = (not flag) if rng.random() < 0.85 else flag
                ops[j] = ("combine", flag)
        ops.insert(rng.randint(0, len(ops)), ("fileno",))
        if rng.random() < 0.25:
            cut = rng.randint(ops.index(("fileno",)), len(ops))
            ops = [o for o in ops[:cut]] + [("eof",)] + [o for o in ops[cut:] if o[0] not in ("out", "err")]
        scripted_sequence(ctx, eng, ops, "combine", sample=(i == 0))


# ------------------------------------------------------------------ zero-length packets
# An empty CHANNEL_DATA / EXTENDED_DATA packet is legal on the wire.  It adds nothing to read, so it
# must not make the descriptor readable.  Exhaustive short histories (stub channel), the bare
# BufferedPipe+event, and a real transport pair whose server side emits the raw packets.
def zero_counts(ctx, ops):
    if any(op[0] in ("out", "err") and op[1] == 0 for op in ops):
        ctx.count("zero_length_feed_histories")
    if any(op[0] == "ext" for op in ops):
        ctx.count("discarded_extended_type_histories")


def zero_stratum(ctx, eng):
    z_out, z_err = ("out", 0), ("err", 0)
    acts = [z_out, z_err, ("ext", 0, 2), ("ext", 3, 2), ("out", 2), ("err", 2), ("recv", 64), ("recv_stderr", 64),
            ("combine", True)]
    pres = [[], [z_out], [z_err], [("out", 2)], [("combine", True)], [("ext", 0, 7)]]
    idx = 0
    for pre in pres:
        for ln in (1, 2, 3):
            for post in itertools.product(acts, repeat=ln):
                if not any(a in (z_out, z_err) or a[0] == "ext" for a in list(post) + pre):
                    continue
                idx += 1
                if not ctx.mine(idx):
                    continue
                ops = pre + [("fileno",)] + list(post)
                zero_counts(ctx, ops)
                scripted_sequence(ctx, eng, ops, "zero", sample=(idx <= ctx.nshards))


def zero_pipe_level(ctx):
    """BufferedPipe + event directly: feed(b"") in every position of a short feed/read history."""
    import threading

    from paramiko.buffered_pipe import BufferedPipe, PipeTimeout

    acts = [("feed", b""), ("feed", b"ab"), ("read", 64), ("read", 1), ("empty",)]
    n = 0
    for ln in (1, 2, 3, 4):
        for seq in itertools.product(acts, repeat=ln):
            if ("feed", b"") not in seq:
                continue
            n += 1
            if not ctx.mine(n):
                continue
            for evkind in ("event", "orpipe"):
                bp = BufferedPipe()
                if evkind == "event":
                    ev, osp = threading.Event(), None
                    readable = ev.is_set
                else:
                    osp = pipe.make_pipe()
                    ev, _o = pipe.make_or_pipe(osp)
                    readable = lambda osp=osp: bool(select.select([osp.fileno()], [], [], 0)[0])  # noqa: E731
                bp.set_event(ev)
                bad = None
                for oi, op in enumerate(seq):
                    if op[0] == "feed":
                        bp.feed(op[1])
                    elif op[0] == "read":
                        try:
                            bp.read(op[1], 0.0)
                        except PipeTimeout:
                            pass
                    else:
                        bp.empty()
                    ctx.count("oracle_evaluations")
                    ctx.count("oracle_evaluations_zero_pipe")
                    ob = dict(readable=bool(readable()), out=len(bp._buffer), err=0, eof=False, closed=False)
                    ob["pending"] = bool(ob["out"])
                    if mismatch_kind(ob) and bad is None:
                        bad = (mismatch_kind(ob), op, ob, oi)
                ctx.case(("zero-pipe", evkind, repr(seq)))
                ctx.count("zero_length_feed_pipe_histories")
                if bad and bad[0].endswith("readable with nothing pending") and ("feed", b"") in seq[:bad[3] + 1]:
                    ctx.violation(ZERO_SIG, "BufferedPipe.feed(b'') set the event although the buffer is empty",
                                  dict(level="BufferedPipe+" + evkind, ops=[list(o) for o in seq], observed=bad[2]))
                elif bad:
                    ctx.violation("%s; BufferedPipe+%s history, first seen after %s"
                                  % (bad[0].replace("descriptor", "event"), evkind, bad[1][0]),
                                  "the event of a BufferedPipe disagrees with its buffer",
                                  dict(ops=[list(o) for o in seq], observed=bad[2]))
                if osp is not None:
                    osp.close()


def zero_transport_level(ctx, ncases):
    """Real transport pair: the server transport emits raw (possibly empty) DATA / EXTENDED_DATA packets for
    the client's channel, followed by an IGNORE; once the client's tap has read that IGNORE the earlier packets
    have been dispatched (one reader thread, in order)."""
    from paramiko.common import cMSG_CHANNEL_DATA, cMSG_CHANNEL_EXTENDED_DATA

    from vf import pair

    rng = ctx.rng
    p = pair.Pair(rng=rng)
    if not p.start(timeout=90) or not p.auth():
        ctx.inconclusive("zero-length transport stratum: handshake failed: %r %r" % (p.client_exc, p.server_exc))
        return
    kinds = [("data", 0), ("ext1", 0), ("ext2", 0), ("ext2", 3), ("data", 2), ("ext1", 2)]
    try:
        for i in range(ncases):
            c, s = p.session(timeout=60)
            c.settimeout(0.0)
            if rng.random() < 0.25:
                c.set_combine_stderr(True)
            fd = c.fileno()
            script = [kinds[(i + j) % 4] if j == 0 else rng.choice(kinds) for j in range(rng.randint(1, 4))]
            if rng.random() < 0.5:
                script.append(("recv", 64))
                script.append(kinds[i % 2])
            first_bad = None
            for step in script:
                if step[0] == "recv":
                    for fn in (c.recv, c.recv_stderr):
                        try:
                            fn(64)
                        except Exception:
                            pass
                else:
                    m = Message()
                    if step[0] == "data":
                        m.add_byte(cMSG_CHANNEL_DATA)
                        m.add_int(c.get_id())
                    else:
                        m.add_byte(cMSG_CHANNEL_EXTENDED_DATA)
                        m.add_int(c.get_id())
                        m.add_int(1 if step[0] == "ext1" else 2)
                    m.add_string(bytes(range(65, 65 + step[1])))
                    before = len(p.msgs("c", "in", [2]))
                    p.ts._send_user_message(m)
                    p.ts.send_ignore(4)
                    if not pair.wait_for(lambda: len(p.msgs("c", "in", [2])) > before, timeout=30):
                        ctx.inconclusive("zero-length transport case: marker packet never read by the client")
                        first_bad = "skip"
                        break
                    if step[1] == 0:
                        ctx.count("zero_length_packets_delivered_" + step[0])
                    elif step[0] == "ext2":
                        ctx.count("discarded_extended_packets_delivered")
                ob = dict(readable=bool(select.select([fd], [], [], 0)[0]), out=len(c.in_buffer._buffer),
                          err=len(c.in_stderr_buffer._buffer), eof=bool(c.eof_received), closed=bool(c.closed))
                ob["pending"] = bool(ob["out"] or ob["err"] or ob["eof"] or ob["closed"])
                ctx.count("oracle_evaluations")
                ctx.count("oracle_evaluations_zero_transport")
                if mismatch_kind(ob) and first_bad is None:
                    first_bad = (mismatch_kind(ob), step, ob)
            ctx.case(("zero-transport", repr(script)), sample=dict(kind="zero-length transport", packets=script) if i == 0 else None)
            if first_bad not in (None, "skip"):
                kind, step, ob = first_bad
                if kind == "descriptor readable with nothing pending" and any(
                        st[0] in ("data", "ext1") and st[1] == 0 for st in script):
                    ctx.violation(ZERO_SIG, "an empty %s packet from the peer left the descriptor readable with nothing to read"
                                  % "CHANNEL_DATA/EXTENDED_DATA",
                                  dict(level="transport pair", packets=script, observed=ob))
                else:
                    ctx.violation("%s; Channel over a transport pair, first seen after %s packet" % (kind, step[0]),
                                  "select() on Channel.fileno() disagrees with the buffers after the peer's packet was dispatched",
                                  dict(packets=script, observed=ob))
            c.close()
            s.close()
    finally:
        p.close()


# ------------------------------------------------------------------ sequential stratum
def sequential(ctx, eng, n_seq):
    """Random single-threaded op sequences; the invariant is evaluated after every op.  Each
    sequence runs in one worker thread under the engine so that an op that blocks for good
    (possible only with a defect) is detected instead of hanging the shard."""
    rng = ctx.rng
    for i in range(n_seq):
        c, t = make_channel(window=64, max_packet=1024)
        c.settimeout(0.0)
        box = dict(ops=[], bad=None, fd=None)
        fileno_at = rng.randrange(0, 6)
        nops = rng.randint(3, 14)
        script = [rng.random() for _ in range(nops)]
        sizes = [rng.choice([0, 1, 2, 3, 4]) for _ in range(nops)]
        rsizes = [rng.choice([1, 2, 64]) for _ in range(nops)]

        def body():
            oo = eo = 0
            eof = closed = False
            for j in range(nops):
                r = script[j]
                if j == fileno_at or (j == nops - 1 and box["fd"] is None):
                    box["fd"] = c.fileno()
                    op = ("fileno",)
                elif r < 0.22 and not eof and not closed:
                    n = sizes[j]
                    op = ("out", n)
                    c._feed(msg_data(OUT_BYTES[oo:oo + n]))
                    oo += n
                elif r < 0.44 and not eof and not closed:
                    n = sizes[j]
                    op = ("err", n)
                    c._feed_extended(msg_ext(ERR_BYTES[eo:eo + n]))
                    eo += n
                elif r < 0.62:
                    op = ("recv", rsizes[j])
                    try:
                        c.recv(rsizes[j])
                    except socket.timeout:
                        pass
                elif r < 0.80:
                    op = ("recv_stderr", rsizes[j])
                    try:
                        c.recv_stderr(rsizes[j])
                    except socket.timeout:
                        pass
                elif r < 0.86 and not eof and not closed:
                    op = ("eof",)
                    c._handle_eof(Message())
                    eof = True
                elif r < 0.91 and not closed:
                    op = ("close",)
                    c._handle_close(Message())
                    closed = True
                elif r < 0.94:
                    op = ("combine", script[j] < 0.93)
                    c.set_combine_stderr(op[1])
                elif r < 0.97:
                    op = ("fileno-again",)
                    if box["fd"] is not None:
                        c.fileno()
                else:
                    op = ("recv_ready",)
                    c.recv_ready()
                box["ops"].append(op)
                if box["fd"] is None:
                    continue
                readable = bool(select.select([box["fd"]], [], [], 0)[0])
                pending = bool(len(c.in_buffer._buffer) or len(c.in_stderr_buffer._buffer)
                               or c.eof_received or c.closed)
                ctx.count("oracle_evaluations")
                ctx.count("oracle_evaluations_sequential")
                if readable != pending:
                    ob = dict(readable=readable, pending=pending, out=len(c.in_buffer._buffer),
                              err=len(c.in_stderr_buffer._buffer), eof=bool(c.eof_received), closed=bool(c.closed))
                    box["bad"] = (mismatch_kind(ob), op[0], ob)
                    return

        run = eng.execute([("S", body)], sched.Plan(order=["S"]))
        ops = box["ops"]
        ctx.case(("seq", tuple(ops)), sample=dict(kind="sequential", ops=ops) if i == 0 else None)
        bad = box["bad"]
        if bad is not None and bad[0] == "descriptor readable with nothing pending" and any(
                o[0] in ("out", "err") and o[1] == 0 for o in ops):
            ctx.violation(ZERO_SIG, "an empty CHANNEL_DATA/EXTENDED_DATA feed left the descriptor readable with nothing to read",
                          dict(ops=ops, observed=bad[2]))
        elif bad is not None:
            ctx.violation("%s; sequential, first seen after %s" % (bad[0], bad[1]),
                          "select() on Channel.fileno() disagrees with the buffers/flags after a sequential op",
                          dict(ops=ops, observed=bad[2]))
        for role, exc in run.excs.items():
            ctx.inconclusive("sequential worker raised %r after ops %r" % (exc, ops))
        if run.leaked or run.hung:
            ctx.count("sequential_ops_blocked_for_good")
            ctx.inconclusive("a sequential op never returned: %r after ops %r" % (run.hung, ops))
            continue
        c.close()


# ------------------------------------------------------------------ main
def run(ctx):
    rng = ctx.rng
    if ctx.replay:
        w = ctx.replay.get("witness") or {}
        if "workload" in w:
            stats = {}
            with sched.Engine(instrumented()) as eng:
                for _ in range(3):
                    run_plan(ctx, eng, w["workload"], sched.Plan.from_json(w["plan"]), stats)
            ctx.require("oracle_evaluations", 1)
            return
    stats = {}
    t_core = ctx.pick(11, 170)
    t_end = ctx.pick(16, 290)

    def perturbed(wl, n):
        for _ in range(n):
            run_plan(ctx, eng, wl, sched.Plan(perturb=dict(seed=rng.randrange(1 << 30),
                                                           prob=rng.choice([0.15, 0.4, 0.8]))), stats)

    with sched.Engine(instrumented()) as eng:
        sequential(ctx, eng, ctx.pick(300, 6000))
        zero_stratum(ctx, eng)
        combine_stratum(ctx, eng)
        combine_random(ctx, eng, ctx.pick(400, 8000))
        blocked_pipe_level(ctx, eng, stats)
        late_event_pipe_level(ctx, eng, stats)
        blocked_channel_level(ctx, eng, stats)
        core = core_workloads()
        # rotate so that a time cap never always cuts the same workloads
        rot = (ctx.seed * 37) % len(core)
        core = core[rot:] + core[:rot]
        # a fixed number of perturbed runs first (count-based: the floor must not depend on the time left)
        for i, wl in enumerate(core[:ctx.pick(160, 640)]):
            if ctx.mine(i):
                perturbed(wl, 3)
        # the basic feeder x reader races are always swept completely (count-based, no time cap)
        must = [wl for wl in core if wl["state"]["phase"] == "open" and wl["state"]["fileno"] == "first"
                and wl["feeder"] and wl["feeder"][0][0] in ("out", "err") and len(wl["readers"]) == 1]
        for i, wl in enumerate(must):
            if ctx.mine(i):
                sweep(ctx, eng, wl, stats, float("inf"))
                ctx.count("basic_race_workloads_fully_swept")
        for i, wl in enumerate(core):
            if not ctx.mine(i) or wl in must:
                continue
            if ctx.elapsed() > t_core:
                ctx.count("core_workloads_skipped_for_time")
                continue
            sweep(ctx, eng, wl, stats, t_core + 5)
            perturbed(wl, 4)
        # 3-thread (and richer 2-thread) random workloads: full single-preemption sweep, then perturbation
        while ctx.elapsed() < t_end:
            wl = random_workload(rng, three=rng.random() < 0.7)
            perturbed(wl, 8)
            sweep(ctx, eng, wl, stats, t_end + 3)
        ctx.count("engine_line_callbacks", eng.stats["line_events"])
    # INSTRUCTION granularity: every bytecode of buffered_pipe.py / pipe.py is a preemption point
    t_instr = t_end + ctx.pick(4, 40)
    ifuncs = sched.functions_of(pipe.PosixPipe, pipe.OrPipe, buffered_pipe.BufferedPipe)
    with sched.Engine(instrumented(), instr_funcs=ifuncs) as eng:
        two = [wl for wl in core_workloads() if len(wl["readers"]) + (1 if wl["feeder"] else 0) == 2]
        rng.shuffle(two)
        before = ctx.counters.get("preemption_points_reached", 0)
        done = 0
        for i, wl in enumerate(two):
            if not ctx.mine(i):
                continue
            if done >= 1 and ctx.elapsed() > t_instr:  # the first one is unconditional (count-based floor)
                break
            sweep(ctx, eng, wl, stats, float("inf") if done == 0 else t_instr + 2)
            ctx.count("workloads_swept_at_instruction_granularity")
            done += 1
        ctx.count("instruction_preemption_points_reached", ctx.counters.get("preemption_points_reached", 0) - before)
        ctx.count("engine_line_callbacks", eng.stats["line_events"])
    ctx.guard(zero_pipe_level, ctx)
    ctx.guard(zero_transport_level, ctx, ctx.pick(12, 128))
    ctx.guard(blocked_transport_level, ctx, ctx.pick(27, 144))
    ctx.count("distinct_interleavings_this_shard", len(stats.get("iids", ())))
    if "side_deadlock_witness" in stats:
        ctx.note("side_finding_deadlock_in_PosixPipe_clear", stats["side_deadlock_witness"])
    if "deadlock_witness" in stats:
        ctx.note("deadlock_witness_shard%d" % ctx.shard, stats["deadlock_witness"])
    for level, floor in (("pipe", 8), ("channel", 12), ("transport", 16)):
        for rel in RELS:
            ctx.require("blocked_reader_confirmed_%s_%s" % (level, rel), floor)
    ctx.require("blocked_before_first_fileno_confirmed_channel", 100)
    ctx.require("blocked_before_set_event_confirmed_pipe", 50)
    ctx.require("blocked_before_first_fileno_confirmed_transport", 30)
    for stream in ("stdout", "stderr", "combined"):
        ctx.require("blocked_reader_channel_" + stream, 10)
        ctx.require("blocked_reader_transport_" + stream, 16)
    ctx.require("zero_sequences_checked", 1500)
    ctx.require("zero_length_feed_histories", 1000)
    ctx.require("discarded_extended_type_histories", 500)
    ctx.require("zero_length_feed_pipe_histories", 500)
    for k in ("data", "ext1", "ext2"):
        ctx.require("zero_length_packets_delivered_" + k, 12)
    ctx.require("discarded_extended_packets_delivered", 16)
    ctx.require("combine_sequences_checked", 3000)
    ctx.require("combine_toggled_before_first_fileno", 800)
    ctx.require("combine_switched_off_after_fileno", 300)
    ctx.require("combine_on_before_fileno_and_off_at_end", 150)
    ctx.require("instruction_preemption_points_reached", 1000)
    ctx.require("basic_race_workloads_fully_swept", 32)
    ctx.require("oracle_evaluations_sequential", 500)
    ctx.require("oracle_evaluations_preempt", 800)
    ctx.require("oracle_evaluations_random", 100)
    ctx.require("preemption_points_reached", 600)
    ctx.require("runs_with_contended_notifier_ops", 10)
    ctx.require("distinct_interleavings_this_shard", 400)
