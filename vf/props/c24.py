"""C24 — a channel's pollable descriptor is readable <=> recv would not block.

Oracle (state invariant at quiescence): after fileno() has been called,
    select([fd],[],[],0) readable  <=>  len(in_buffer)>0 or len(in_stderr_buffer)>0
                                        or eof_received or closed
judged only when every worker thread has joined, never while an operation is in
flight.  A deadlock of the workers (liveness, outside the statement) is recorded as a
side finding and the run is not judged.

Strata
  seq      random sequential op sequences on one channel, invariant after every op
  sweep    small 2-3 thread workloads (transport-role feeder + 1-2 readers) from every
           start state; ALL single-preemption schedules at statement granularity
           (vf.sched), every serial order first
  random   the same workloads under seeded random LINE-event perturbation
"""
import itertools
import os
import select
import socket

from paramiko import buffered_pipe, pipe
from paramiko.channel import Channel
from paramiko.message import Message

from vf import sched
from vf.chanstub import make_channel, msg_data, msg_ext

META = dict(
    title="channel descriptor readable <=> data/EOF/closed",
    level="exploration",
    design_ref="§3 C24, §2.1.5",
    technique="sys.monitoring LINE-event preemption engine (all single preemptions + random perturbation) "
              "with a select()-vs-buffers state oracle at quiescence",
    text="A real paramiko.Channel on a stub transport is driven by a feeder thread (the transport's role: "
         "_feed/_feed_extended/_handle_eof/_handle_close) and 1-2 reader threads (recv/recv_stderr) from every "
         "combination of stdout/stderr empty|data, open|eof and fileno() before|after the state was built. For each "
         "workload every serial order and every schedule with exactly one preemption at a source statement of "
         "pipe.py/buffered_pipe.py/the Channel methods involved is executed, plus seeded random perturbation and "
         "random sequential op sequences; when all threads have joined select() on the descriptor is compared with "
         "the buffers and flags. Holds for the executions produced: complete for single preemptions of the listed "
         "workloads, sampled beyond that; not all interleavings.",
    note="Trusts select.select and direct reads of in_buffer._buffer/in_stderr_buffer._buffer/eof_received/closed at "
         "quiescence. Channel.close() by the application is excluded (it destroys the descriptor). Blocked detection "
         "is a bounded wait; a misjudgement changes which schedule ran, never a verdict.",
    rule="case = (workload, plan); workload = start state x feeder program x reader programs; plan = serial order | "
         "(order, thread, k-th LINE event) | random seed; distinct = hash of workload+plan; non-trivial = at least one "
         "worker executed a notifier (OrPipe/PosixPipe) statement. interleavings = distinct hashes of the "
         "(thread, function, line) trace",
    assumptions=["LINE events of sys.monitoring fire at every statement start of the instrumented code objects",
                 "thread switches happen only between bytecodes, so statement-granularity parking covers the "
                 "switch points relevant to the notifier state"],
)

TIMEOUT = {"quick": 170, "thorough": 1500}


def shards(tier):
    return 8 if tier == "quick" else 16


# ------------------------------------------------------------------ workload
OUT_BYTES = bytes(range(0x00, 0x40))
ERR_BYTES = bytes(range(0x80, 0xC0))

NOTIFIER_FILE = "pipe.py"


def instrumented():
    fns = sched.functions_of(pipe.PosixPipe, pipe.OrPipe, buffered_pipe.BufferedPipe)
    for name in ("recv", "recv_stderr", "_feed", "_feed_extended", "_handle_eof", "_handle_close",
                 "_close_internal", "_set_closed", "fileno", "set_combine_stderr", "_unlink"):
        fns += sched.functions_of(getattr(Channel, name))
    return fns


class Bench:
    """One channel built into a start state, plus the worker callables."""

    def __init__(self, wl):
        self.wl = wl
        st = wl["state"]
        self.chan, self.t = make_channel(window=64, max_packet=1024)
        c = self.chan
        self.out_off = 0
        self.err_off = 0
        self.fd = None
        steps = []
        if st["out"]:
            steps.append(("out", st["out"]))
        if st["err"]:
            steps.append(("err", st["err"]))
        if st["phase"] == "eof":
            steps.append(("eof",))
        pos = {"first": 0, "mid": max(0, len(steps) - 1), "last": len(steps)}[st["fileno"]]
        for i, s in enumerate(steps):
            if i == pos:
                self.fd = c.fileno()
            self.feeder_do(s)
        if self.fd is None:
            self.fd = c.fileno()
        c.settimeout(None if wl.get("blocking") else 0.0)
        self.log = []

    def feeder_do(self, a):
        c = self.chan
        if a[0] == "out":
            d = OUT_BYTES[self.out_off:self.out_off + a[1]]
            self.out_off += a[1]
            c._feed(msg_data(d))
        elif a[0] == "err":
            d = ERR_BYTES[self.err_off:self.err_off + a[1]]
            self.err_off += a[1]
            c._feed_extended(msg_ext(d))
        elif a[0] == "eof":
            c._handle_eof(Message())
        elif a[0] == "close":
            c._handle_close(Message())
        elif a[0] == "unlink":
            c._unlink()
        else:
            raise ValueError(a)

    def reader_do(self, a):
        c = self.chan
        try:
            if a[0] == "out":
                return c.recv(a[1])
            if a[0] == "err":
                return c.recv_stderr(a[1])
            if a[0] == "combine":
                return c.set_combine_stderr(True)
        except socket.timeout:
            return "timeout"
        raise ValueError(a)

    def workers(self):
        ws = []
        wl = self.wl
        if wl.get("feeder"):
            ws.append(("F", lambda prog=wl["feeder"]: [self.feeder_do(a) for a in prog]))
        for i, prog in enumerate(wl.get("readers", [])):
            ws.append(("R%d" % (i + 1), lambda prog=prog: [self.reader_do(a) for a in prog]))
        return ws

    def observe(self):
        c = self.chan
        readable = bool(select.select([self.fd], [], [], 0)[0])
        n_out = len(c.in_buffer._buffer)
        n_err = len(c.in_stderr_buffer._buffer)
        flags = bool(c.eof_received) or bool(c.closed)
        return dict(readable=readable, out=n_out, err=n_err, eof=bool(c.eof_received), closed=bool(c.closed),
                    pending=bool(n_out or n_err or flags))

    def dispose(self):
        try:
            self.chan.close()
        except Exception:
            pass


def notifier_stats(trace):
    """(touched, contended, overlapped).  touched: some worker executed a pipe.py notifier
    statement.  contended: a worker reached a notifier statement while another was inside a
    notifier operation.  overlapped: two workers were *both past the first statement* of a
    notifier operation at the same time (impossible once the operations exclude each other;
    a thread waiting on the first statement, e.g. `with lock:`, is not inside)."""
    depth = {}
    touched = contended = overlapped = False
    for role, qual, line in trace:
        if qual.split(".")[0] in ("OrPipe", "PosixPipe", "WindowsPipe"):
            touched = True
            depth[role] = depth.get(role, 0) + 1
            others = [v for r, v in depth.items() if r != role]
            if any(v >= 1 for v in others):
                contended = True
            if depth[role] >= 2 and any(v >= 2 for v in others):
                overlapped = True
        else:
            depth[role] = 0
    return touched, contended, overlapped


def mismatch_kind(ob):
    if ob["readable"] and not ob["pending"]:
        return "descriptor readable with nothing pending"
    if not ob["readable"] and ob["pending"]:
        what = "data buffered" if (ob["out"] or ob["err"]) else "eof/closed"
        return "descriptor not readable with %s" % what
    return None


def judge_run(ctx, bench, run, where):
    """where: 'end' (all joined) or 'deadlock' (all live workers blocked for good)."""
    ob = bench.observe()
    ctx.count("oracle_evaluations")
    ctx.count("oracle_evaluations_" + run.plan.kind())
    kind = mismatch_kind(ob)
    if kind is None:
        return ob
    touched, contended, overlapped = notifier_stats(run.trace)
    if overlapped:
        how = "notifier operations (OrPipe/PosixPipe set|clear|set_forever) of two threads interleaved"
    elif run.plan.kind() == "serial":
        how = "serial schedule"
    elif run.plan.kind() == "preempt":
        how = "single preemption in %s, no notifier interleaving" % (run.park_at[0] if run.park_at else "?")
    else:
        how = "random perturbation, no notifier interleaving"
    ctx.violation("%s; %s" % (kind, how),
                  "select() on Channel.fileno() disagrees with the buffers/flags at quiescence",
                  dict(workload=bench.wl, plan=run.plan.describe(), observed=ob, park_at=run.park_at,
                       during_park=run.during_park[:40], trace_tail=run.trace[-60:]))
    return ob


def run_plan(ctx, eng, wl, plan, stats):
    bench = Bench(wl)
    state = {"judged": False}

    def on_hang(run, roles):
        # Every live worker looks blocked for good.  Blocked detection is a bounded wait, so no
        # verdict is taken from such a state and the run is not judged afterwards either; the
        # deadlock itself (liveness) is outside the statement and is recorded as a side finding.
        tops = [fr[0] if fr else "" for _, fr in run.hung]
        ctx.count("deadlocks_observed")
        state["judged"] = True
        stats.setdefault("deadlock_witness", dict(workload=wl, plan=run.plan.describe(), stacks=run.hung,
                                                  park_at=run.park_at, observed=bench.observe()))
        if any("PosixPipe.clear" in t or "WindowsPipe.clear" in t for t in tops):
            ctx.count("side_deadlock_in_pipe_clear")
            stats.setdefault("side_deadlock_witness", dict(workload=wl, plan=run.plan.describe(), stacks=run.hung,
                                                           observed=bench.observe()))
            p = bench.chan._pipe
            if p is not None:
                os.write(p._wfd, b"*")  # unblock the os.read so the thread can end

    run = eng.execute(bench.workers(), plan, on_hang=on_hang)
    for e in run.harness_errors:
        ctx.inconclusive("engine: " + e)
    touched, contended, overlapped = notifier_stats(run.trace)
    fp = (repr(wl), repr(plan.describe()))
    sample = None
    if stats.get("samples", 0) < 2 and touched and plan.kind() != "serial":
        stats["samples"] = stats.get("samples", 0) + 1
        sample = dict(workload=wl, plan=plan.describe(), line_events=run.counts, interleaving=run.iid,
                      park_at=run.park_at)
    ctx.case(fp, sample=sample, nontrivial=touched)
    ctx.count("runs_" + plan.kind())
    ctx.count("line_events_traced", len(run.trace))
    if contended:
        ctx.count("runs_with_contended_notifier_ops")
    if overlapped:
        ctx.count("runs_with_interleaved_notifier_ops")
    if plan.kind() == "preempt":
        ctx.count("preemption_points_enumerated")
        if run.park_reached:
            ctx.count("preemption_points_reached")
    stats.setdefault("iids", set()).add(run.iid)
    for role, exc in run.excs.items():
        ctx.inconclusive("worker %s raised %r in workload %r" % (role, exc, wl))
    if run.leaked:
        ctx.count("runs_not_judged_workers_still_blocked")
        if not any("Pipe.clear" in (fr[0] if fr else "") for _, fr in run.hung):
            ctx.inconclusive("workers blocked and the harness cannot release them: %r workload %r plan %r"
                             % (run.hung, wl, plan.describe()))
        return run  # threads are still alive: do not touch the channel any more
    if state["judged"]:
        ctx.count("runs_not_judged_after_deadlock")
    else:
        judge_run(ctx, bench, run, "end")
    bench.dispose()
    return run


def sweep(ctx, eng, wl, stats, deadline, max_perms=None):
    roles = (["F"] if wl.get("feeder") else []) + ["R%d" % (i + 1) for i in range(len(wl.get("readers", [])))]
    perms = list(itertools.permutations(roles))
    if max_perms is not None and len(perms) > max_perms:
        perms = ctx.rng.sample(perms, max_perms)
    complete = True
    for perm in perms:
        perm = list(perm)
        base = run_plan(ctx, eng, wl, sched.Plan(order=perm), stats)
        for plan in sched.Engine.sweep_plans(perm, base.counts):
            if ctx.elapsed() > deadline:
                complete = False
                break
            run_plan(ctx, eng, wl, plan, stats)
    if complete and (max_perms is None):
        ctx.count("workloads_fully_swept")
    return complete


# ------------------------------------------------------------------ workload spaces
def start_states():
    out = []
    for o in (0, 3):
        for e in (0, 3):
            for ph in ("open", "eof"):
                for fo in ("first", "last"):
                    out.append(dict(out=o, err=e, phase=ph, fileno=fo))
    return out


FEED_ACTS = [("out", 2), ("err", 2), ("eof",), ("close",)]
READ_ACTS = [("out", 64), ("err", 64), ("out", 1), ("err", 1)]


def feeder_ok(state, prog):
    """The transport's role: nothing after close; after EOF only close; no second EOF."""
    eof = state["phase"] == "eof"
    closed = False
    for a in prog:
        if closed:
            return False
        if eof and a[0] not in ("close", "unlink"):
            return False
        if a[0] == "eof":
            eof = True
        if a[0] in ("close", "unlink"):
            closed = True
    return True


def may_block(wl):
    """Blocking reads are used only where every schedule terminates: the state is already
    EOF, or the feeder's program ends by closing the receive side."""
    if wl["state"]["phase"] == "eof":
        return True
    f = wl.get("feeder") or []
    return bool(f) and f[-1][0] in ("eof", "close", "unlink")


def core_workloads():
    """feeder x one reader, one action each, from every start state (2 threads), plus
    two readers without a feeder."""
    out = []
    for st in start_states():
        for fa in FEED_ACTS:
            if not feeder_ok(st, [fa]):
                continue
            for ra in READ_ACTS:
                out.append(dict(state=st, feeder=[fa], readers=[[ra]], blocking=False))
        for ra, rb in (((("out", 64)), ("err", 64)), (("out", 64), ("out", 64)), (("err", 1), ("out", 64))):
            out.append(dict(state=st, feeder=[], readers=[[ra], [rb]], blocking=False))
    # a few 3-thread workloads: both readers drain while the transport delivers data / EOF / close
    both = dict(out=2, err=2, phase="open", fileno="first")
    for fa in FEED_ACTS:
        out.append(dict(state=both, feeder=[fa], readers=[[("out", 64)], [("err", 64)]], blocking=False))
    return out


def random_workload(rng, three=True):
    st = dict(out=rng.choice([0, 1, 3]), err=rng.choice([0, 1, 3]), phase=rng.choice(["open", "open", "eof"]),
              fileno=rng.choice(["first", "mid", "last"]))
    while True:
        prog = [rng.choice(FEED_ACTS + [("unlink",)]) for _ in range(rng.choice([1, 1, 2]))]
        if feeder_ok(st, prog):
            break
    nread = 2 if three else 1
    readers = []
    for _ in range(nread):
        acts = READ_ACTS + ([("combine",)] if rng.random() < 0.08 else [])
        readers.append([rng.choice(acts) for _ in range(rng.choice([1, 1, 2]))])
    wl = dict(state=st, feeder=prog, readers=readers, blocking=False)
    if may_block(wl) and rng.random() < 0.4:
        wl["blocking"] = True
    return wl


# ------------------------------------------------------------------ sequential stratum
def sequential(ctx, eng, n_seq):
    """Random single-threaded op sequences; the invariant is evaluated after every op.  Each
    sequence runs in one worker thread under the engine so that an op that blocks for good
    (possible only with a defect) is detected instead of hanging the shard."""
    rng = ctx.rng
    for i in range(n_seq):
        c, t = make_channel(window=64, max_packet=1024)
        c.settimeout(0.0)
        box = dict(ops=[], bad=None, fd=None)
        fileno_at = rng.randrange(0, 6)
        nops = rng.randint(3, 14)
        script = [rng.random() for _ in range(nops)]
        sizes = [rng.randint(1, 4) for _ in range(nops)]
        rsizes = [rng.choice([1, 2, 64]) for _ in range(nops)]

        def body():
            oo = eo = 0
            eof = closed = False
            for j in range(nops):
                r = script[j]
                if j == fileno_at or (j == nops - 1 and box["fd"] is None):
                    box["fd"] = c.fileno()
                    op = ("fileno",)
                elif r < 0.22 and not eof and not closed:
                    n = sizes[j]
                    op = ("out", n)
                    c._feed(msg_data(OUT_BYTES[oo:oo + n]))
                    oo += n
                elif r < 0.44 and not eof and not closed:
                    n = sizes[j]
                    op = ("err", n)
                    c._feed_extended(msg_ext(ERR_BYTES[eo:eo + n]))
                    eo += n
                elif r < 0.62:
                    op = ("recv", rsizes[j])
                    try:
                        c.recv(rsizes[j])
                    except socket.timeout:
                        pass
                elif r < 0.80:
                    op = ("recv_stderr", rsizes[j])
                    try:
                        c.recv_stderr(rsizes[j])
                    except socket.timeout:
                        pass
                elif r < 0.86 and not eof and not closed:
                    op = ("eof",)
                    c._handle_eof(Message())
                    eof = True
                elif r < 0.91 and not closed:
                    op = ("close",)
                    c._handle_close(Message())
                    closed = True
                elif r < 0.94:
                    op = ("combine",)
                    c.set_combine_stderr(True)
                elif r < 0.97:
                    op = ("fileno-again",)
                    if box["fd"] is not None:
                        c.fileno()
                else:
                    op = ("recv_ready",)
                    c.recv_ready()
                box["ops"].append(op)
                if box["fd"] is None:
                    continue
                readable = bool(select.select([box["fd"]], [], [], 0)[0])
                pending = bool(len(c.in_buffer._buffer) or len(c.in_stderr_buffer._buffer)
                               or c.eof_received or c.closed)
                ctx.count("oracle_evaluations")
                ctx.count("oracle_evaluations_sequential")
                if readable != pending:
                    ob = dict(readable=readable, pending=pending, out=len(c.in_buffer._buffer),
                              err=len(c.in_stderr_buffer._buffer), eof=bool(c.eof_received), closed=bool(c.closed))
                    box["bad"] = (mismatch_kind(ob), op[0], ob)
                    return

        run = eng.execute([("S", body)], sched.Plan(order=["S"]))
        ops = box["ops"]
        ctx.case(("seq", tuple(ops)), sample=dict(kind="sequential", ops=ops) if i == 0 else None)
        bad = box["bad"]
        if bad is not None:
            ctx.violation("%s; sequential, first seen after %s" % (bad[0], bad[1]),
                          "select() on Channel.fileno() disagrees with the buffers/flags after a sequential op",
                          dict(ops=ops, observed=bad[2]))
        for role, exc in run.excs.items():
            ctx.inconclusive("sequential worker raised %r after ops %r" % (exc, ops))
        if run.leaked or run.hung:
            ctx.count("sequential_ops_blocked_for_good")
            ctx.inconclusive("a sequential op never returned: %r after ops %r" % (run.hung, ops))
            continue
        c.close()


# ------------------------------------------------------------------ main
def run(ctx):
    rng = ctx.rng
    if ctx.replay:
        w = ctx.replay.get("witness") or {}
        if "workload" in w:
            stats = {}
            with sched.Engine(instrumented()) as eng:
                for _ in range(3):
                    run_plan(ctx, eng, w["workload"], sched.Plan.from_json(w["plan"]), stats)
            ctx.require("oracle_evaluations", 1)
            return
    stats = {}
    t_core = ctx.pick(9, 170)
    t_end = ctx.pick(16, 380)

    def perturbed(wl, n):
        for _ in range(n):
            run_plan(ctx, eng, wl, sched.Plan(perturb=dict(seed=rng.randrange(1 << 30),
                                                           prob=rng.choice([0.15, 0.4, 0.8]))), stats)

    with sched.Engine(instrumented()) as eng:
        sequential(ctx, eng, ctx.pick(300, 6000))
        core = core_workloads()
        # rotate so that a time cap never always cuts the same workloads
        rot = (ctx.seed * 37) % len(core)
        core = core[rot:] + core[:rot]
        for i, wl in enumerate(core):
            if not ctx.mine(i):
                continue
            if ctx.elapsed() > t_core:
                ctx.count("core_workloads_skipped_for_time")
                continue
            sweep(ctx, eng, wl, stats, t_core + 5)
            perturbed(wl, 4)
        # 3-thread (and richer 2-thread) random workloads: full single-preemption sweep, then perturbation
        while ctx.elapsed() < t_end:
            wl = random_workload(rng, three=rng.random() < 0.7)
            perturbed(wl, 8)
            sweep(ctx, eng, wl, stats, t_end + 3)
        ctx.count("engine_line_callbacks", eng.stats["line_events"])
    ctx.count("distinct_interleavings_this_shard", len(stats.get("iids", ())))
    if "side_deadlock_witness" in stats:
        ctx.note("side_finding_deadlock_in_PosixPipe_clear", stats["side_deadlock_witness"])
    if "deadlock_witness" in stats:
        ctx.note("deadlock_witness_shard%d" % ctx.shard, stats["deadlock_witness"])
    ctx.require("oracle_evaluations_sequential", 500)
    ctx.require("oracle_evaluations_preempt", 800)
    ctx.require("oracle_evaluations_random", 100)
    ctx.require("preemption_points_reached", 600)
    ctx.require("runs_with_contended_notifier_ops", 10)
    ctx.require("distinct_interleavings_this_shard", 400)
